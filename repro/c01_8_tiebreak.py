"""C01-8: equal-timestamp events are not delivered in creation order when some were created before run()
and others during it: the per-heap counter restarts at 0 while pre-run events hold module-counter indices.

Run: /venv/bin/python /verif/repro/c01_8_tiebreak.py   (exit 1 = defect present)
"""
import sys
sys.path.insert(0, "/repo")
from happysimulator.core.entity import Entity
from happysimulator.core.event import Event
from happysimulator.core.simulation import Simulation
from happysimulator.core.temporal import Instant

order = []


class Rec(Entity):
    def handle_event(self, event):
        order.append(event.event_type)
        if event.event_type == "kick":
            # created during the run, for the same instant as the three pre-run events
            return [Event(time=Instant.from_seconds(2), event_type="runtime", target=self)]
        return None


r = Rec("r")
sim = Simulation(end_time=Instant.from_seconds(10), entities=[r])
sim.schedule(Event(time=Instant.from_seconds(1), event_type="kick", target=r))
for i in range(3):
    sim.schedule(Event(time=Instant.from_seconds(2), event_type=f"pre{i}", target=r))
sim.run()
print("delivery order:", order)
expected = ["kick", "pre0", "pre1", "pre2", "runtime"]
print("expected      :", expected)
sys.exit(0 if order == expected else 1)
