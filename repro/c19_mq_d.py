"""(d) acknowledge() during the delivery latency of a redelivery: the slow first
consumer acks while the redelivery is suspended in _deliver_message(); after the
suspension the delivery event is still emitted -> delivered again AFTER the ack."""
import os, sys
sys.path.insert(0, os.environ.get("HS_ROOT", "/repo"))
sys.path.insert(1, os.path.dirname(os.path.abspath(__file__)))
from mq2_common import World

w = World(
    [
        (0.0, "publish", ("m1",)),
        (1.0, "poll", ()),              # delivery #1 -> C1 at t=1.01 (C1 is slow)
        (2.0, "timeout", ("m1",)),      # redelivery timer for t=7.0
        # t=7.0 : message_redelivery -> _deliver_message picks C2, suspends 0.01
        (7.005, "ack", ("m1",)),        # C1 finally acks during that latency
        # t=7.01: delivery event for m1 is emitted to C2 although m1 is acknowledged
        (8.0, "note", ("end",)),
    ],
    delivery_latency=0.01,
    redelivery_delay=5.0,
    max_redeliveries=3,
).run(end=10.0)

bad = []
for t, cname, label, dc, subscribed, acked in w.all_deliveries():
    if acked:
        bad.append(f"{label} delivered to {cname} at t={t} (delivery_count={dc}) AFTER it was acknowledged at t=7.005")
places = w.where("m1")
if places != ["acked"]:
    bad.append(f"m1 ends in {places}, expected ['acked']")

print()
if bad:
    print("DEFECT (d) manifests:")
    for b in bad:
        print("  -", b)
    sys.exit(1)
print("OK: nothing delivered after the acknowledgement")
sys.exit(0)
