"""C20 (t-digest clause): _Centroid.merge computes the weighted mean as
(m1*c1 + m2*c2)/(c1+c2); floating-point rounding can move it one ulp outside [m1, m2].  When the
stream consists of identical values (a constant-latency server is the obvious case) the centroid mean
drifts to 0.10000000000000002 while min == max == 0.1, so quantile(q) for interior q is > max and
quantile(0.5) > quantile(1.0).

Property clause that fails: "t-digest quantiles are non-decreasing in q and lie within the observed
minimum and maximum".

Minimal input (direct): TDigest(compression=1); add(0.1) x3  -> quantile(0.5) = 0.10000000000000002.
Engine input: QuantileEstimator (default compression=100) receiving 400 events whose latency is the
constant 0.1 -> p50 > max, p50 > quantile(1.0).
The violation is 1 ulp in size but breaks both stated invariants exactly.

Run: /venv/bin/python /verif/repro/c20_tdigest_quantile_outside_minmax.py   (exit 1 = defect present)
     HS_ROOT=/path/to/tree to test another checkout.
"""
import os
import sys

sys.path.insert(0, os.environ.get("HS_ROOT", "/repo"))

from happysimulator.components.sketching.quantile_estimator import QuantileEstimator  # noqa: E402
from happysimulator.core.event import Event  # noqa: E402
from happysimulator.core.simulation import Simulation  # noqa: E402
from happysimulator.core.temporal import Instant  # noqa: E402
from happysimulator.sketching.tdigest import TDigest  # noqa: E402

bad = False


def check(label, td_like, lo, hi):
    global bad
    qs = [0.0, 0.001, 0.25, 0.5, 0.75, 0.9, 0.99, 0.999, 1.0]
    xs = [td_like.quantile(q) for q in qs]
    out_of_range = [(q, x) for q, x in zip(qs, xs) if not lo <= x <= hi]
    non_monotone = [(qs[i], xs[i], qs[i + 1], xs[i + 1]) for i in range(len(qs) - 1) if xs[i + 1] < xs[i]]
    print(f"{label}: min={lo!r} max={hi!r}")
    print(f"   quantiles outside [min, max]: {out_of_range}")
    print(f"   decreasing pairs (q1, x1, q2, x2): {non_monotone}")
    bad |= bool(out_of_range) or bool(non_monotone)


td = TDigest(compression=1)
for _ in range(3):
    td.add(0.1)
check("direct  TDigest(compression=1), add(0.1) x3", td, td.min, td.max)

est = QuantileEstimator("lat", value_extractor=lambda e: e.context["latency"])
sim = Simulation(end_time=Instant.from_seconds(100), entities=[est])
for i in range(400):
    sim.schedule(Event(time=Instant.from_seconds(1 + i * 0.1), event_type="done", target=est,
                       context={"latency": 0.1}))
sim.run()
check("engine  QuantileEstimator(compression=100), 400 x latency 0.1", est, est.min, est.max)

print("DEFECT PRESENT" if bad else "ok")
sys.exit(1 if bad else 0)
