"""C19-3: ConsumerGroup committed offsets move backwards.

Property clause (C19): "Event log and consumer group: ... committed offsets never move backwards."

`ConsumerGroup.handle_event`, branch `event_type == "Commit"`, does
`self._committed_offsets[consumer_name][pid] = offset` unconditionally.  A commit that carries a smaller
offset than the one already committed (a late/duplicate commit from a slower worker, a retry arriving after a
newer commit) rewinds the group's position: lag grows again and already-committed records are handed out
a second time by the next poll.

Schedule (real engine): EventLog with 1 partition, 6 records appended; consumer c1 joins, polls (gets offsets
0..5), commits {0: 6}, then a stale commit {0: 3} arrives, then c1 polls again.
Expected: committed offset stays 6, lag stays 0, second poll returns nothing.
Observed: committed offset 3, lag 3, second poll returns offsets 3,4,5 again.

Run: /venv/bin/python /verif/repro/c19_3_consumer_group_commit_regress.py     (exit 1 = defect present)
     HS_ROOT=/path/to/tree to test another checkout.
"""
import os
import sys

sys.path.insert(0, os.environ.get("HS_ROOT", "/repo"))
from happysimulator.components.streaming.consumer_group import ConsumerGroup
from happysimulator.components.streaming.event_log import EventLog
from happysimulator.core.entity import Entity
from happysimulator.core.event import Event
from happysimulator.core.simulation import Simulation
from happysimulator.core.temporal import Instant

log = EventLog("log", num_partitions=1, append_latency=0.001, read_latency=0.0005)
group = ConsumerGroup("group", event_log=log, rebalance_delay=0.01, poll_latency=0.001)
trace = []


class Worker(Entity):
    def handle_event(self, event):
        for i in range(6):
            yield from log.append("k", f"v{i}")
        assigned = yield from group.join("c1", self)
        trace.append(("assigned", assigned))
        recs = yield from group.poll("c1", max_records=100)
        trace.append(("poll1", [r.offset for r in recs]))
        yield from group.commit("c1", {0: recs[-1].offset + 1})      # commit 6
        yield 0.01
        trace.append(("lag after commit 6", group.consumer_lag("c1")))
        yield from group.commit("c1", {0: 3})                        # stale / late commit of an older position
        yield 0.01
        trace.append(("lag after stale commit 3", group.consumer_lag("c1")))
        recs2 = yield from group.poll("c1", max_records=100)
        trace.append(("poll2", [r.offset for r in recs2]))
        return None


w = Worker("worker")
sim = Simulation(start_time=Instant.Epoch, end_time=Instant.from_seconds(5), entities=[log, group, w])
sim.schedule(Event(time=Instant.from_seconds(0.1), event_type="go", target=w))
sim.run()

for item in trace:
    print(item)
d = dict(trace)
bad = d.get("lag after stale commit 3") != d.get("lag after commit 6") or d.get("poll2") != []
print("DEFECT PRESENT: committed offset moved backwards (records re-delivered)" if bad
      else "ok: committed offset is monotone")
sys.exit(1 if bad else 0)
