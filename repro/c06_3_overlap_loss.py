"""C06-3 (packet loss): overlapping InjectPacketLoss windows on the same link do not compose.

Property clause (C06): "packet loss ... is in effect for its target exactly while at least one fault
window covering that target is active, whatever other faults overlap it, and once every window has ended
the system is back to its configured state."

`InjectPacketLoss.generate_events` (happysimulator/faults/network_faults.py) captures
`link.packet_loss_rate` when the schedule is built; deactivate assigns that captured value back
unconditionally, so the first window that ends switches the loss off for every other open window.

Link a->b, configured loss 0.0, latency 1 ms.  Injected loss_rate=1.0 (every packet dropped, so the
observation does not depend on the RNG; random is seeded anyway).  Probes a->b at t = 5, 15, 25, 35, 45.
  1. staggered: loss on [10,30) and [20,40)     2. nested: loss on [10,40) and [20,30)
Expected: probes at 15, 25, 35 are lost, probes at 5 and 45 arrive.
Observed: the probe at t=35 arrives (link.packet_loss_rate is back to 0.0 at t=30).

Run: /venv/bin/python /verif/repro/c06_3_overlap_loss.py   (exit 1 = defect present, 0 = absent)
     HS_ROOT=/path/to/tree selects another source tree.
"""
import os
import random
import sys

sys.path.insert(0, os.environ.get("HS_ROOT", "/repo"))
from happysimulator.components.network.link import NetworkLink
from happysimulator.components.network.network import Network
from happysimulator.core.entity import Entity
from happysimulator.core.event import Event
from happysimulator.core.simulation import Simulation
from happysimulator.core.temporal import Instant
from happysimulator.distributions.constant import ConstantLatency
from happysimulator.faults import FaultSchedule, InjectPacketLoss


class Node(Entity):
    def __init__(self, name):
        super().__init__(name)
        self.got = []

    def handle_event(self, event):
        self.got.append(event.context["metadata"]["sent_at"])


def scenario(label, windows):
    random.seed(1234)
    a, b = Node("a"), Node("b")
    net = Network(name="net")
    link = NetworkLink(name="ab", latency=ConstantLatency(0.001), packet_loss_rate=0.0)
    net.add_link(a, b, link)
    schedule = FaultSchedule()
    for start, end in windows:
        schedule.add(InjectPacketLoss("a", "b", loss_rate=1.0, start=start, end=end))
    sim = Simulation(end_time=Instant.from_seconds(60.0), entities=[a, b, net], fault_schedule=schedule)
    rates = {}

    def send(e):
        rates[e.time.to_seconds()] = link.packet_loss_rate
        return [net.send(a, b, "probe", payload={"sent_at": e.time.to_seconds()})]

    for t in (5.0, 15.0, 25.0, 35.0, 45.0):
        sim.schedule(Event.once(time=Instant.from_seconds(t), event_type="send", fn=send))
    sim.run()

    bad = 0
    for t in (5.0, 15.0, 25.0, 35.0, 45.0):
        active = [f"[{s:g},{e:g})" for s, e in windows if s <= t < e]
        arrived = t in b.got
        ok = arrived == (not active)
        print(f"{label} t={t:>4}: loss_rate={rates[t]} arrived={arrived} active={active} {'ok' if ok else 'WRONG'}")
        bad += not ok
    restored = link.packet_loss_rate == 0.0
    print(f"{label} after all windows: packet_loss_rate={link.packet_loss_rate} (configured 0.0)")
    return bad + (not restored)


bad = 0
bad += scenario("staggered", [(10.0, 30.0), (20.0, 40.0)])
bad += scenario("nested   ", [(10.0, 40.0), (20.0, 30.0)])
print("DEFECT PRESENT" if bad else "defect absent")
sys.exit(1 if bad else 0)
