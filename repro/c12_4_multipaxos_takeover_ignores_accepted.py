"""C12-4 (Multi-Paxos and Flexible Paxos): "any two nodes that report a decided value for the same instance (each
slot of Multi-Paxos) report the same value" and "a reported decision never changes" fail: a new leader ignores
what the acceptors told it in their promises.

Code: multi_paxos.py / flexible_paxos.py `_handle_prepare` puts `log_entries` (and `commit_index`) into the
Promise; `_handle_promise` stores them in `_phase1_responses`; `_become_leader` never reads them. The new
leader assigns its own pending command to `self._log.last_index + 1` of its *own* log and gets it accepted for a
slot in which another value was already chosen (accepted by a quorum and applied by the previous leader).

Schedule (3 nodes n1,n2,n3, majority quorums; real Network, 10 ms links; n1 and n3 partitioned throughout, so the
only acceptor common to both quorums is n2 - exactly the node whose promise carries the chosen value):
  0.00  client submits "a" to n1; n1 runs phase 1 (ballot (1,n1)), n2 promises, n1 becomes leader,
        slot 1 := "a", Accept to n2, n2 accepts, n1 commits and applies "a" (0.04); client future -> (1, a).
  0.50  client submits "b" to n3; n3 runs phase 1 (ballot (1,n3) > (1,n1)); n2's promise carries
        log_entries=[{index 1, "a"}]; n3 ignores it, becomes leader, slot 1 := "b", n2 answers Accepted,
        n3 commits and applies "b" (0.54); client future -> (1, b).
  => slot 1 is decided as "a" on n1 and as "b" on n3.

Run: /venv/bin/python /verif/repro/c12_4_multipaxos_takeover_ignores_accepted.py   (exit 1 = defect present)
     HS_ROOT=/path/to/worktree to run against another checkout.
"""
import os
import random
import sys

sys.path.insert(0, os.environ.get("HS_ROOT", "/repo"))

from happysimulator.components.consensus.flexible_paxos import FlexiblePaxosNode  # noqa: E402
from happysimulator.components.consensus.multi_paxos import MultiPaxosNode  # noqa: E402
from happysimulator.components.network.link import NetworkLink  # noqa: E402
from happysimulator.components.network.network import Network  # noqa: E402
from happysimulator.core.event import Event  # noqa: E402
from happysimulator.core.simulation import Simulation  # noqa: E402
from happysimulator.core.temporal import Instant  # noqa: E402
from happysimulator.distributions.constant import ConstantLatency  # noqa: E402


class RecordingSM:
    def __init__(self):
        self.applied = []

    def apply(self, command):
        self.applied.append(command)
        return f"result-of-{command}"

    def snapshot(self):
        return list(self.applied)

    def restore(self, snapshot):
        self.applied = list(snapshot)


def run(cls):
    random.seed(0)
    promises = []

    class RecordingNetwork(Network):
        def send(self, source, destination, event_type, payload=None, daemon=False):
            if event_type.endswith("Promise"):
                promises.append((source.name, destination.name, (payload or {}).get("log_entries")))
            return super().send(source, destination, event_type, payload, daemon)

    net = RecordingNetwork(name="net")
    extra = {"phase1_quorum": 2, "phase2_quorum": 2} if cls is FlexiblePaxosNode else {}
    nodes = [cls(f"n{i}", net, state_machine=RecordingSM(), **extra) for i in (1, 2, 3)]
    n1, n2, n3 = nodes
    for n in nodes:
        n.set_peers(nodes)
    for a in nodes:
        for b in nodes:
            if a is not b:
                net.add_link(a, b, NetworkLink(name=f"{a.name}->{b.name}", latency=ConstantLatency(0.01)))
    sim = Simulation(end_time=Instant.from_seconds(0.9), entities=[net, *nodes])
    futures = {}

    def at(t, fn):
        sim.schedule(Event.once(time=Instant.from_seconds(t), event_type=f"script@{t}", fn=lambda e: fn()))

    def submit_and_campaign(n, cmd):
        futures[cmd] = n.submit(cmd)  # queued: n is not leader yet
        return n.start()  # phase 1; the pending command is proposed on becoming leader

    at(0.0, lambda: net.partition([n1], [n3]) and None)
    at(0.0, lambda: submit_and_campaign(n1, "a"))
    at(0.5, lambda: submit_and_campaign(n3, "b"))
    sim.run()

    print(f"--- {cls.__name__}")
    print("promises on the wire (from, to, log_entries):", promises)
    decided = {}
    for n in nodes:
        committed = [e.command for e in n.log.committed_entries()]
        print(f"{n.name}: committed log {committed}  applied {n._state_machine.applied}")
        if n._state_machine.applied:
            decided[n.name] = n._state_machine.applied[0]
    print("client futures:", {c: (f.value if f.is_resolved else "<pending>") for c, f in futures.items()})
    if len(set(decided.values())) > 1:
        print(f"DEFECT: slot 1 decided differently: {decided}")
        return True
    return False


bad = [run(MultiPaxosNode), run(FlexiblePaxosNode)]
sys.exit(1 if any(bad) else 0)
