import os
import sys

sys.path.insert(0, os.environ.get("HS_ROOT", "/repo"))

"""C10_1: DistributedRateLimiter assigns boundary instants to the wrong fixed window.

`_get_window_id` uses float floor division (`now.to_seconds() // window_size`).
With window_size=0.1 the instants 0.3 s, 0.6 s, 0.7 s, ... (exact window starts
on the nanosecond grid) are mapped to the *previous* window id
(0.3 // 0.1 == 2.0), so a request arriving exactly on such a boundary is
charged to the window that has just ended and the window it really falls in
still has its full budget: more than `global_limit` requests are admitted in
one aligned window.

The requests below are spaced far wider than the store latency, and a single
limiter instance is used, so the (known) read-suspend-write race plays no role.
"""

from collections import Counter

from happysimulator.components.datastore import KVStore
from happysimulator.components.rate_limiter import DistributedRateLimiter
from happysimulator.core.entity import Entity
from happysimulator.core.event import Event
from happysimulator.core.simulation import Simulation
from happysimulator.core.temporal import Instant

LIMIT = 1
WINDOW_NS = 100_000_000  # 0.1 s


class Sink(Entity):
    def __init__(self, name):
        super().__init__(name)
        self.rids = []

    def handle_event(self, event):
        self.rids.append(event.context.get("rid"))


sink = Sink("sink")
store = KVStore(name="redis", read_latency=0.0001, write_latency=0.0001)
limiter = DistributedRateLimiter(
    "lim", downstream=sink, backing_store=store, global_limit=LIMIT, window_size=0.1
)
sim = Simulation(
    start_time=Instant.Epoch,
    end_time=Instant.from_seconds(2.0),
    entities=[limiter, store, sink],
)

# (arrival ns) -- each pair lies inside ONE aligned 0.1 s window [k*0.1, (k+1)*0.1)
arrivals_ns = [
    300_000_000, 350_000_000,   # window 3: [0.3, 0.4)
    600_000_000, 650_000_000,   # window 6: [0.6, 0.7)
    700_000_000, 750_000_000,   # window 7: [0.7, 0.8)
]
for rid, ns in enumerate(arrivals_ns):
    ev = Event(time=Instant(ns), event_type="req", target=limiter)
    ev.context["rid"] = rid
    sim.schedule(ev)
sim.run()

admitted_arrivals = [arrivals_ns[rid] for rid in sink.rids]
per_window = Counter(ns // WINDOW_NS for ns in admitted_arrivals)
print("arrival times (s)        :", [ns / 1e9 for ns in arrivals_ns])
print("admitted arrival times(s):", [ns / 1e9 for ns in admitted_arrivals])
print("admitted per aligned 0.1 s window:", dict(sorted(per_window.items())))
print("store keys               :", sorted(store.keys()))
print(f"property requires at most global_limit={LIMIT} admitted per aligned window")

worst = max(per_window.values(), default=0)
if worst > LIMIT:
    print(f"VIOLATION: {worst} requests admitted inside one aligned window (limit {LIMIT})")
    sys.exit(1)
print("OK: no aligned window exceeded the limit")
sys.exit(0)
