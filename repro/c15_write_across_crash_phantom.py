import os
import sys

sys.path.insert(0, os.environ.get("HS_ROOT", "/repo"))

"""C15_1: a write that is suspended in its WAL append/fsync when crash() happens is
completed afterwards: WriteAheadLog.append() marks the (discarded) entry as synced and
LSMTree.put()/delete() applies it to the post-recovery memtable.  The caller gets its
acknowledgement under SyncEveryWrite, `wal.synced_up_to` covers the write, reads see it --
but the log does not contain it, so the next crash silently undoes it.

Scenario (SyncEveryWrite, default latencies: append 0.1 ms, fsync 1 ms):
  t=0        put(k, "v1")            -> acknowledged at 1.11 ms, durable
  t=10 ms    delete(k) starts        -> fsync would complete at 11.1 ms
  t=10.5 ms  power loss + recovery   (delete is in the middle of its fsync)
  t=11.1 ms  the delete "completes": synced_up_to=2, caller acknowledged
  t=12 ms    get(k) -> None          (delete visible)
  t=20 ms    power loss + recovery   -> get(k) must still be None
"""

import logging

from happysimulator.components.storage.lsm_tree import LSMTree
from happysimulator.components.storage.wal import SyncEveryWrite, WriteAheadLog
from happysimulator.core.entity import Entity
from happysimulator.core.event import Event
from happysimulator.core.simulation import Simulation
from happysimulator.core.temporal import Instant

logging.disable(logging.CRITICAL)

obs = {}


class Client(Entity):
    def __init__(self, name, lsm):
        super().__init__(name)
        self.lsm = lsm

    def handle_event(self, event):
        kind = event.event_type
        if kind == "put":
            yield from self.lsm.put("k", "v1")
            obs["put_acked_at"] = self.now.to_seconds()
        elif kind == "delete":
            yield from self.lsm.delete("k")
            obs["delete_acked_at"] = self.now.to_seconds()
            obs["synced_up_to_at_delete_ack"] = self.lsm._wal.synced_up_to
        elif kind == "read":
            obs[event.context["tag"]] = self.lsm.get_sync("k")


class Power(Entity):
    """Pulls the plug on the storage engine and restarts it immediately."""

    def __init__(self, name, lsm):
        super().__init__(name)
        self.lsm = lsm

    def handle_event(self, event):
        self.lsm.crash()
        self.lsm.recover_from_crash()
        obs.setdefault("wal_after_crash", []).append(
            [(e.sequence_number, e.key) for e in self.lsm._wal._entries]
        )


wal = WriteAheadLog("wal", sync_policy=SyncEveryWrite())
lsm = LSMTree("lsm", memtable_size=100, wal=wal)
client = Client("client", lsm)
power = Power("power", lsm)
sim = Simulation(
    start_time=Instant.Epoch,
    end_time=Instant.from_seconds(1.0),
    entities=[lsm, wal, client, power],
)


def at(t, kind, target, **ctx):
    sim.schedule(Event(time=Instant.from_seconds(t), event_type=kind, target=target, context=ctx))


at(0.0, "put", client)
at(0.010, "delete", client)
at(0.0105, "crash", power)
at(0.012, "read", client, tag="read_between_crashes")
at(0.020, "crash", power)
at(0.021, "read", client, tag="read_after_second_crash")
sim.run()

print("put('k','v1') acknowledged at        :", obs.get("put_acked_at"))
print("delete('k') acknowledged at          :", obs.get("delete_acked_at"))
print("wal.synced_up_to when delete acked   :", obs.get("synced_up_to_at_delete_ack"), "(delete is seq 2)")
print("WAL entries after crash 1 / crash 2  :", obs.get("wal_after_crash"))
print("get('k') between the crashes         :", obs.get("read_between_crashes"))
print("get('k') after 2nd crash + recovery  :", obs.get("read_after_second_crash"))
print()
print("Required: the delete was acknowledged under SyncEveryWrite and the WAL reported it")
print("synced (synced_up_to >= 2) before the second crash, so 'k' must stay deleted; or the")
print("delete must not have been acknowledged / reported synced in the first place.")

acked = obs.get("delete_acked_at") is not None and obs.get("synced_up_to_at_delete_ack", 0) >= 2
violated = acked and obs.get("read_after_second_crash") is not None
if violated:
    print("VIOLATION: deleted value 'v1' resurrected; an acknowledged, 'synced' write was lost.")
    sys.exit(1)
print("OK: no acknowledged write was lost.")
sys.exit(0)
