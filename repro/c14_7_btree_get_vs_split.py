"""C14-7 (new, found while triaging C14-4): BTree.get() keeps a reference to a tree node across its
page-read suspension; a concurrent put() that splits that node (or the root) moves half of the node's
keys to a new sibling, and the suspended get then searches the shrunken node and reports an existing,
untouched key as absent.

Property clause (C14): "storage engines behave like a map under any ... overlap: every read returns
the value of the latest write to that key that completed before the read began".

Code: components/storage/btree.py `get`:

    node = self._root
    for _ in range(self._depth):          # depth sampled once
        yield self._page_read_latency     # <- suspended while holding `node`
        if node.leaf: ... search node.keys ...
        node = node.children[idx]

  `_split_child` (called from `_insert`, i.e. from `put` after ITS suspension) does
  `child.keys = child.keys[:mid]` on the very node object the reader is holding.

Schedule (order=4 -> a leaf holds at most 3 keys; page read = 1 ms):
  setup    put_sync a, b, c          -> the root is a full leaf [a, b, c]
  t=0.0995 writer: put("d")          -> traversal latency until 0.1005, then _insert: the root is full, so
                                        it is split into [a] | [b, c] under a new root, then d is added
  t=0.1000 reader: get("c")          -> node = root leaf [a,b,c]; suspended until 0.1010
  t=0.1010 reader resumes, searches the OLD root object, which now holds only [a] -> returns None.
  Key c was written before the simulation started and is never modified.

Run: /venv/bin/python /verif/repro/c14_7_btree_get_vs_split.py   (exit 1 = defect present)
     HS_ROOT=/path/to/worktree /venv/bin/python ...               (to test another checkout)
"""
import os
import sys

sys.path.insert(0, os.environ.get("HS_ROOT", "/repo"))

from happysimulator.components.storage.btree import BTree
from happysimulator.core.entity import Entity
from happysimulator.core.event import Event
from happysimulator.core.simulation import Simulation
from happysimulator.core.temporal import Instant

bt = BTree("bt", order=4)
for k in "abc":
    bt.put_sync(k, k.upper())
out = {}


class Writer(Entity):
    def handle_event(self, event):
        yield from bt.put("d", "D")
        out["put_done"] = self.now.to_seconds()


class Reader(Entity):
    def handle_event(self, event):
        out["sync_before"] = bt.get_sync("c")
        out["got"] = yield from bt.get("c")
        out["get_done"] = self.now.to_seconds()
        out["sync_after"] = bt.get_sync("c")


w, r = Writer("w"), Reader("r")
sim = Simulation(end_time=Instant.from_seconds(1.0), entities=[bt, w, r])
sim.schedule(Event(time=Instant.from_seconds(0.0995), event_type="go", target=w))
sim.schedule(Event(time=Instant.from_seconds(0.1000), event_type="go", target=r))
sim.run()

print(f"get_sync('c') at t=0.1000 -> {out['sync_before']!r}")
print(f"get('c') started t=0.1000, finished t={out['get_done']:.4f} -> {out['got']!r}   "
      f"(concurrent put('d') finished t={out['put_done']:.4f}, splits={bt.stats.node_splits})")
print(f"get_sync('c') afterwards     -> {out['sync_after']!r}")
bad = out["got"] != "C"
print("DEFECT PRESENT: an existing key, never written during the run, was reported absent" if bad else "defect absent")
sys.exit(1 if bad else 0)
