import os, sys
sys.path.insert(0, os.environ.get("HS_ROOT", "/repo"))
"""C17_3: ReplicatedStore replicas diverge permanently when a delete overtakes a put.

ReplicatedStore walks its replicas one after the other for every operation.  Two puts
can never overtake each other (same per-replica latency), but KVStore has a separate
`delete_latency`.  With a delete that is faster than a put, a delete issued while a put
of the same key is still walking the replicas overtakes it: replica 0 sees put->delete,
replicas 1 and 2 see delete->put.  Both operations report success, there is no repair
path, and the replicas disagree for ever (a QUORUM read returns the "deleted" value).
"""
import logging

logging.disable(logging.CRITICAL)

from happysimulator import Event, Instant, Simulation
from happysimulator.components.datastore import ConsistencyLevel, KVStore, ReplicatedStore
from happysimulator.core.entity import Entity

replicas = [
    KVStore(f"replica{i}", read_latency=0.001, write_latency=0.010, delete_latency=0.001)
    for i in range(3)
]
store = ReplicatedStore(
    "db",
    replicas=replicas,
    read_consistency=ConsistencyLevel.QUORUM,
    write_consistency=ConsistencyLevel.QUORUM,
)
seen = {}


class Client(Entity):
    def handle_event(self, event):
        if event.event_type == "put":
            seen["put_ok"] = yield from store.put("k", "v")
            seen["put_done"] = self.now.to_seconds()
        elif event.event_type == "delete":
            seen["delete_ok"] = yield from store.delete("k")
            seen["delete_done"] = self.now.to_seconds()
        elif event.event_type == "get":
            seen["read"] = yield from store.get("k")


a, b, reader = Client("client-a"), Client("client-b"), Client("reader")
sim = Simulation(
    start_time=Instant.Epoch,
    end_time=Instant.from_seconds(2.0),
    entities=[a, b, reader, store, *replicas],
)
sim.schedule(
    [
        Event(time=Instant.from_seconds(0.000), event_type="put", target=a),
        # replica0 has the value at t=0.010; the delete starts right after that
        Event(time=Instant.from_seconds(0.011), event_type="delete", target=b),
        Event(time=Instant.from_seconds(1.000), event_type="get", target=reader),
    ]
)
sim.run()

state = [{k: r.get_sync(k) for k in r.keys()} for r in replicas]
print("put  returned", seen.get("put_ok"), "at t =", seen.get("put_done"))
print("delete returned", seen.get("delete_ok"), "at t =", seen.get("delete_done"))
print("replica contents long after both operations finished:", state)
print("QUORUM read at t=1.0 returned:", repr(seen.get("read")))
print("property: once writes stop, all replicas hold the same value for every key")
violated = any(s != state[0] for s in state)
print("VIOLATION" if violated else "OK")
sys.exit(1 if violated else 0)
