import os
import sys

sys.path.insert(0, os.environ.get("HS_ROOT", "/repo"))

# C19_3: the redelivery limit is off by one.  max_redeliveries=k ("Maximum
# redelivery attempts before dead-lettering") allows only k-1 redeliveries:
# reject()/schedule_redelivery() compare the *delivery* count (which includes
# the first delivery) with the *redelivery* limit.  max_redeliveries=1 never
# redelivers at all and is indistinguishable from max_redeliveries=0.

from happysimulator.components.messaging import DeadLetterQueue, MessageQueue
from happysimulator.core.callback_entity import NullEntity
from happysimulator.core.entity import Entity
from happysimulator.core.event import Event
from happysimulator.core.simulation import Simulation
from happysimulator.core.temporal import Instant


class Rejecter(Entity):
    """A consumer that fails every message and asks for it to be requeued."""

    def __init__(self, queue):
        super().__init__("rejecter")
        self.queue = queue
        self.delivery_counts = []

    def handle_event(self, event):
        if event.event_type == "message_delivery":
            self.delivery_counts.append(event.context["delivery_count"])
            self.queue.reject(event.context["message_id"], requeue=True)
        return None


class TimeoutConsumer(Entity):
    """A consumer that never answers; the message times out and the operator
    calls schedule_redelivery() (the other path that enforces the limit)."""

    def __init__(self, queue):
        super().__init__("silent")
        self.queue = queue
        self.delivery_counts = []

    def handle_event(self, event):
        if event.event_type == "message_delivery":
            self.delivery_counts.append(event.context["delivery_count"])
            timer = self.queue.schedule_redelivery(event.context["message_id"])
            return [timer] if timer else None
        return None


class Publisher(Entity):
    def __init__(self, queue):
        super().__init__("publisher")
        self.queue = queue

    def handle_event(self, event):
        yield from self.queue.publish(Event(time=self.now, event_type="order", target=NullEntity()))
        return None


def run(limit, consumer_cls):
    dlq = DeadLetterQueue(name="dlq")
    queue = MessageQueue(name="q", delivery_latency=0.001, redelivery_delay=1.0,
                         max_redeliveries=limit, dead_letter_queue=dlq)
    consumer = consumer_cls(queue)
    publisher = Publisher(queue)
    queue.subscribe(consumer)
    sim = Simulation(start_time=Instant.Epoch, end_time=Instant.from_seconds(100.0),
                     entities=[queue, dlq, consumer, publisher])
    sim.schedule(Event(time=Instant.Epoch, event_type="go", target=publisher))
    # reject path: every (re)delivery needs a poll -- schedule more than enough.
    # timeout path: one poll for the first delivery, the redelivery timers do
    # the rest (no polls racing the timers, to keep this scenario minimal).
    polls = limit + 4 if consumer_cls is Rejecter else 1
    for k in range(polls):
        sim.schedule(Event(time=Instant.from_seconds(10.0 + 5.0 * k), event_type="poll", target=queue))
    sim.run()
    redeliveries = sum(1 for c in consumer.delivery_counts if c > 1)
    assert queue.stats.messages_redelivered == redeliveries
    return redeliveries, dlq.message_count, queue.pending_count + queue.in_flight_count


bad = 0
print("limit  path      redeliveries-before-DLQ  (required)  dead-lettered  still-queued")
for limit in (0, 1, 2, 3, 5):
    for label, cls in (("reject ", Rejecter), ("timeout", TimeoutConsumer)):
        redeliveries, dead, left = run(limit, cls)
        flag = "" if redeliveries == limit else "   <-- wrong"
        if redeliveries != limit or dead != 1 or left != 0:
            bad += 1
        print(f"{limit:5d}  {label}   {redeliveries:23d}  ({limit:8d})  {dead:13d}  {left:12d}{flag}")

print("property requires: a message is redelivered until the redelivery limit "
      "(max_redeliveries redelivery attempts) is exhausted, then moves to the DLQ")
if bad:
    print("VIOLATION: messages are dead-lettered one redelivery early; "
          "max_redeliveries=1 behaves exactly like max_redeliveries=0")
    sys.exit(1)
print("OK")
sys.exit(0)
