"""C10-5b / C07-1: DistributedRateLimiter stamps its forward event with the arrival time captured before it
suspended on the backing store, so every admitted request is discarded by the engine ("Time travel").

Property clauses: C07 "each event a component emits carries a timestamp no earlier than the instant at which it
is emitted, so the engine never has to discard it"; C10 "A rate-limited entity forwards, queues or drops
every request exactly once" (here: counted as forwarded, but never reaches downstream).

`DistributedRateLimiter.handle_event`: `now = event.time`, then `yield from self.check_and_increment(now)`
(store read latency + write latency), then `Event(time=now, ...)`.

Schedule (real engine): one limiter, real KVStore with read_latency = write_latency = 1 ms, global_limit=10,
three requests at 0.1, 0.2, 0.3 s.  Expected: 3 requests reach the downstream sink.  Observed: limiter stats say
forwarded=3, the sink receives 0, the engine logs 3 "Time travel detected" warnings.

Run: /venv/bin/python /verif/repro/c10_5_distributed_stale_forward_time.py     (exit 1 = defect present)
     HS_ROOT=/path/to/tree to test another checkout.
"""
import logging
import os
import sys

sys.path.insert(0, os.environ.get("HS_ROOT", "/repo"))
from happysimulator.components.datastore import KVStore
from happysimulator.components.rate_limiter.distributed import DistributedRateLimiter
from happysimulator.core.entity import Entity
from happysimulator.core.event import Event
from happysimulator.core.simulation import Simulation
from happysimulator.core.temporal import Instant


class Capture(logging.Handler):
    def __init__(self):
        super().__init__(level=logging.WARNING)
        self.msgs = []

    def emit(self, record):
        msg = record.getMessage()
        if "Time travel" in msg:
            self.msgs.append(msg)


cap = Capture()
sim_logger = logging.getLogger("happysimulator.core.simulation")
sim_logger.addHandler(cap)
sim_logger.setLevel(logging.WARNING)
sim_logger.propagate = False


class Sink(Entity):
    def __init__(self, name):
        super().__init__(name)
        self.got = []

    def handle_event(self, event):
        self.got.append(self.now.to_seconds())
        return None


sink = Sink("sink")
store = KVStore(name="redis", read_latency=0.001, write_latency=0.001)
limiter = DistributedRateLimiter("node1", downstream=sink, backing_store=store, global_limit=10, window_size=1.0)
sim = Simulation(end_time=Instant.from_seconds(2), entities=[limiter, sink, store])
for t in (0.1, 0.2, 0.3):
    sim.schedule(Event(time=Instant.from_seconds(t), event_type="req", target=limiter))
sim.run()

print("limiter stats      :", limiter.stats)
print("sink received at   :", sink.got)
print("time-travel drops  :", len(cap.msgs))
for m in cap.msgs[:1]:
    print("   ", m)
bad = len(cap.msgs) > 0 or len(sink.got) != limiter.stats.requests_forwarded
print("DEFECT PRESENT: admitted requests never reach downstream" if bad else "ok: every admitted request delivered")
sys.exit(1 if bad else 0)
