"""Repro: MultiPaxosNode / FlexiblePaxosNode acceptor files an Accept for slot k+1 under index k when it missed slot k.

_handle_accept appends whenever `slot > last_index` — also when the slot is not the *next* one.  An acceptor that was cut off while
slot 1 was chosen (quorum reached without it; the leader stops re-sending a committed slot) and then receives the Accept for slot 2
stores command 2 at log index 1, acknowledges "slot 2", and — once the leader's commit index reaches it — applies command 2 as its first
command.  Two nodes have then decided different values for slot 1 and the state machines diverge (k1 never applied on node-2).

Scenario (3 nodes, 10 ms constant latency, no loss): node-0 leads; node-2 is partitioned away during [0.9, 1.5] while k0 is submitted at
t=1.0 and committed by {node-0, node-1}; partition healed; k1 submitted at t=2.0.

Exit 1 if any node applied a command sequence that is not a prefix of the leader's, else 0.
"""
from __future__ import annotations

import os
import sys

sys.path.insert(0, os.environ.get("HS_ROOT", "/repo"))

from happysimulator.components.consensus.flexible_paxos import FlexiblePaxosNode  # noqa: E402
from happysimulator.components.consensus.multi_paxos import MultiPaxosNode  # noqa: E402
from happysimulator.components.network.link import NetworkLink  # noqa: E402
from happysimulator.components.network.network import Network  # noqa: E402
from happysimulator.core.entity import Entity  # noqa: E402
from happysimulator.core.event import Event  # noqa: E402
from happysimulator.core.simulation import Simulation  # noqa: E402
from happysimulator.core.temporal import Instant  # noqa: E402
from happysimulator.distributions.constant import ConstantLatency  # noqa: E402


class RecordingSM:
    def __init__(self) -> None:
        self.applied: list = []

    def apply(self, command):
        self.applied.append(command)
        return command


class Client(Entity):
    def __init__(self, name, target):
        super().__init__(name)
        self.target = target

    def handle_event(self, event: Event):
        self.target.submit(event.context["metadata"]["cmd"])
        return None


def run(node_cls) -> bool:
    network = Network(name="net")
    sms = [RecordingSM() for _ in range(3)]
    extra = {"phase1_quorum": 2, "phase2_quorum": 2} if node_cls is FlexiblePaxosNode else {}
    nodes = [node_cls(name=f"node-{i}", network=network, state_machine=sms[i], heartbeat_interval=1.0, **extra) for i in range(3)]
    for n in nodes:
        n.set_peers(nodes)
    for i, a in enumerate(nodes):
        for b in nodes[i + 1:]:
            network.add_bidirectional_link(a, b, NetworkLink(name=f"{a.name}-{b.name}", latency=ConstantLatency(0.010), bandwidth_bps=None,
                                                            packet_loss_rate=0.0, jitter=None))
    client = Client("client", nodes[0])
    sim = Simulation(start_time=Instant.Epoch, duration=10.0, entities=[network, *nodes, client])
    held = {}
    sim.schedule(Event.once(time=Instant.from_seconds(0.1), event_type="StartLeader", fn=lambda e: nodes[0].start()))
    sim.schedule(Event.once(time=Instant.from_seconds(0.9), event_type="Cut", fn=lambda e: held.setdefault("p", network.partition([nodes[0], nodes[1]], [nodes[2]]))))
    sim.schedule(Event.once(time=Instant.from_seconds(1.5), event_type="Heal", fn=lambda e: held["p"].heal()))
    for k, t in enumerate((1.0, 2.0)):
        sim.schedule(Event(time=Instant.from_seconds(t), event_type="ClientSubmit", target=client, context={"metadata": {"cmd": f"k{k}"}}))
    sim.run()
    lead = sms[0].applied
    ok = True
    print(f"--- {node_cls.__name__} ---")
    for n, sm in zip(nodes, sms, strict=True):
        prefix = sm.applied == lead[: len(sm.applied)]
        print(f"  {n.name}: log={[n.log.get(i).command for i in range(1, n.log.last_index + 1)]} commit={n.log.commit_index} applied={sm.applied} {'' if prefix else '<-- DIVERGED'}")
        ok &= prefix
    return ok


def main() -> int:
    ok = True
    for cls in (MultiPaxosNode, FlexiblePaxosNode):
        ok &= run(cls)
    print("RESULT:", "ok" if ok else "DEFECT: a node applied a different command for a slot than the leader")
    return 0 if ok else 1


if __name__ == "__main__":
    sys.exit(main())
