"""Repro: CachedStore.flush() in-flight write of an OLD value overtakes a later
synchronous write-back (eviction / invalidate) of a NEWER value.

Property: a read issued after a write to the same key has completed returns that
write's value or a later one; write-back data is never discarded before it
reaches the backing store.

Schedule (write-back CachedStore, store write latency 10ms, cache latency 0.1ms):
  t=0.000   put(k, v1)            -> cached, dirty                  (done t=0.0001)
  t=0.001   flush()               -> captures v1, backing put(k, v1) in flight, lands t=0.011
  t=0.002   put(k, v2)            -> cached, dirty again            (done t=0.0021)
  t=0.003   scenario A: invalidate(k)       -> put_sync(k, v2), k leaves the cache
            scenario B: put(x, ..) capacity=1 -> k evicted, put_sync(k, v2)
  t=0.011   the flush write lands: backing[k] = v1  (overwrites v2)
  t=0.020   get(k) -> cache miss -> backing -> v1    (completed write v2 lost)
Scenario D (same root cause): delete(k) with delete_latency 1ms at t=0.003 lands at
t=0.004, the flush write of v1 lands at t=0.011 and resurrects the deleted key.

Exit 1 if the defect manifests in any scenario, 0 otherwise.
"""

import os
import sys

sys.path.insert(0, os.environ.get("HS_ROOT", "/repo"))

from happysimulator.components.datastore import CachedStore, KVStore, LRUEviction  # noqa: E402
from happysimulator.core.entity import Entity  # noqa: E402
from happysimulator.core.event import Event  # noqa: E402
from happysimulator.core.simulation import Simulation  # noqa: E402
from happysimulator.core.temporal import Instant  # noqa: E402

KEY = "k"


class Driver(Entity):
    """Issues one cache operation per event; logs issue/completion times."""

    def __init__(self, name, cache, backing, log):
        super().__init__(name)
        self.cache = cache
        self.backing = backing
        self.log = log
        self.reads = []  # (issue_time, done_time, key, value)
        self.writes_done = []  # (done_time, key, value)

    def _t(self):
        return self.now.to_seconds()

    def _rec(self, msg):
        self.log.append(
            f"  t={self._t():.4f}  {msg:<46} backing[{KEY}]={self.backing.get_sync(KEY)!r} "
            f"cached={self.cache.contains_cached(KEY)} dirty={self.cache.get_dirty_keys()}"
        )

    def handle_event(self, event):
        ctx = event.context
        op = ctx["op"]
        if op == "put":
            self._rec(f"put({ctx['key']!r}, {ctx['value']!r}) issued")
            yield from self.cache.put(ctx["key"], ctx["value"])
            self.writes_done.append((self._t(), ctx["key"], ctx["value"]))
            self._rec(f"put({ctx['key']!r}, {ctx['value']!r}) COMPLETED")
        elif op == "delete":
            self._rec(f"delete({ctx['key']!r}) issued")
            yield from self.cache.delete(ctx["key"])
            self.writes_done.append((self._t(), ctx["key"], None))  # delete == write of None
            self._rec(f"delete({ctx['key']!r}) COMPLETED")
        elif op == "flush":
            self._rec("flush() issued")
            n = yield from self.cache.flush()
            self._rec(f"flush() COMPLETED, returned {n}")
        elif op == "invalidate":
            self._rec(f"invalidate({ctx['key']!r}) issued")
            self.cache.invalidate(ctx["key"])
            self._rec(f"invalidate({ctx['key']!r}) done (sync write-back)")
        elif op == "get":
            t0 = self._t()
            self._rec(f"get({ctx['key']!r}) issued")
            v = yield from self.cache.get(ctx["key"])
            self.reads.append((t0, self._t(), ctx["key"], v))
            self._rec(f"get({ctx['key']!r}) -> {v!r}")
        return []


def run_scenario(title, capacity, steps, delete_latency=None):
    backing = KVStore(
        name="db", read_latency=0.001, write_latency=0.010, delete_latency=delete_latency
    )
    cache = CachedStore(
        name="cache",
        backing_store=backing,
        cache_capacity=capacity,
        eviction_policy=LRUEviction(),
        cache_read_latency=0.0001,
        write_through=False,
    )
    log = []
    # one driver per concurrent activity so the generators really interleave
    drivers = {n: Driver(n, cache, backing, log) for n in ("writer", "flusher", "other", "reader")}
    sim = Simulation(entities=[backing, cache, *drivers.values()])
    for t, who, ctx in steps:
        sim.schedule(
            Event(time=Instant.from_seconds(t), event_type="Op", target=drivers[who], context=ctx)
        )
    sim.run()

    print(f"== {title}")
    print("\n".join(log))
    # last write to KEY that completed before the final read was issued
    writes = [w for d in drivers.values() for w in d.writes_done if w[1] == KEY]
    reads = drivers["reader"].reads
    bad = False
    for t0, t1, key, val in reads:
        done_before = [w for w in writes if w[0] <= t0]
        latest = max(done_before, key=lambda w: w[0])
        acceptable = {w[2] for w in writes if w[0] >= latest[0]}
        ok = val in acceptable
        print(
            f"  check: read issued t={t0:.4f} returned {val!r}; last completed write "
            f"{latest[2]!r} (done t={latest[0]:.4f}); acceptable={sorted(acceptable, key=repr)} -> "
            f"{'ok' if ok else 'STALE / LOST WRITE'}"
        )
        bad |= not ok
    print(f"  final backing store: {dict(backing._data)}  writebacks={cache.stats.writebacks}")
    return bad


def main():
    common = [
        (0.000, "writer", {"op": "put", "key": KEY, "value": "v1"}),
        (0.001, "flusher", {"op": "flush"}),
        (0.002, "writer", {"op": "put", "key": KEY, "value": "v2"}),
    ]
    tail = [(0.020, "reader", {"op": "get", "key": KEY})]

    bad_a = run_scenario(
        "A: rewrite + invalidate(k) while flush write of v1 is in flight",
        capacity=4,
        steps=[*common, (0.003, "other", {"op": "invalidate", "key": KEY}), *tail],
    )
    bad_b = run_scenario(
        "B: rewrite + eviction of k (capacity=1) while flush write of v1 is in flight",
        capacity=1,
        steps=[*common, (0.003, "other", {"op": "put", "key": "x", "value": "x1"}), *tail],
    )
    # control: no overlap -> must be fine before and after the fix
    bad_c = run_scenario(
        "C (control): flush completes before the rewrite/invalidate",
        capacity=4,
        steps=[
            (0.000, "writer", {"op": "put", "key": KEY, "value": "v1"}),
            (0.001, "flusher", {"op": "flush"}),
            (0.012, "writer", {"op": "put", "key": KEY, "value": "v2"}),
            (0.013, "other", {"op": "invalidate", "key": KEY}),
            (0.020, "reader", {"op": "get", "key": KEY}),
        ],
    )
    if bad_c:
        print("UNEXPECTED: control scenario failed")
    # same root cause, delete flavour: needs delete_latency < write_latency so that the
    # delete lands before the older flush write does
    bad_d = run_scenario(
        "D: delete(k) (delete latency 1ms) completes while flush write of v1 is in flight",
        capacity=4,
        delete_latency=0.001,
        steps=[
            (0.000, "writer", {"op": "put", "key": KEY, "value": "v1"}),
            (0.001, "flusher", {"op": "flush"}),
            (0.003, "writer", {"op": "delete", "key": KEY}),
            (0.020, "reader", {"op": "get", "key": KEY}),
        ],
    )
    if bad_a or bad_b or bad_c or bad_d:
        print(
            "DEFECT REPRODUCED: a completed write/delete was lost "
            "(flush's older in-flight write overtook it)"
        )
        return 1
    print("OK: no lost write")
    return 0


if __name__ == "__main__":
    sys.exit(main())
