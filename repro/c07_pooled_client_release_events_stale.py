"""C07: PooledClient._handle_timeout builds the pool's release events (idle-timeout check stamped now + idle_timeout) *before* it waits for
the retry delay and returns them *after* it.  With a retry delay longer than the pool's idle timeout the idle-timeout event is stamped in
the past when it reaches the engine: "Time travel detected", the event is dropped, and the released connection is never closed for idleness.
Exits 1 when an emitted event is discarded for lying in the past, 0 otherwise."""
import logging, os, sys
sys.path.insert(0, os.environ.get("HS_ROOT", "/repo"))
from happysimulator import Simulation, Event, Instant, Entity
from happysimulator.components.client.connection_pool import ConnectionPool
from happysimulator.components.client.pooled_client import PooledClient
from happysimulator.components.client.retry import FixedRetry


class BlackHole(Entity):
    """answers after 20 s: every attempt times out first"""
    def handle_event(self, event):
        yield 20.0


class Grab(logging.Handler):
    def __init__(self):
        super().__init__(); self.msgs = []
    def emit(self, r):
        self.msgs.append(r.getMessage())


g = Grab()
lg = logging.getLogger("happysimulator.core.simulation"); lg.addHandler(g); lg.setLevel(logging.DEBUG)
srv = BlackHole("server")
pool = ConnectionPool("pool", target=srv, max_connections=2, idle_timeout=1.0)
cli = PooledClient("client", connection_pool=pool, timeout=0.5, retry_policy=FixedRetry(max_attempts=2, delay=5.0))
sim = Simulation(start_time=Instant.Epoch, end_time=Instant.from_seconds(30.0), entities=[srv, pool, cli])
sim.schedule(cli.send_request(payload="x"))
sim.run()
tt = [m for m in g.msgs if "ime travel" in m]
print("time-travel drops:", len(tt), tt[:2])
print("pool idle connections at end:", len(pool._idle_connections), "total:", pool._total_connections)
sys.exit(1 if tt else 0)
