"""(c) accounting: a message id must be in exactly one of
{pending, in flight, acknowledged, dead-lettered}.

acknowledge() and reject() never remove the id from _pending_queue, and
reject(requeue=True) appends it unconditionally.  After a timeout
(schedule_redelivery moved the message back to the HEAD of pending) a late
ack / reject from the slow consumer therefore leaves a stale or duplicate id
in the pending queue:
  v1  late ACK    -> id is 'acked' AND 'pending'; the stale id sits at the head,
                     poll() always picks it, _deliver_message() returns None,
                     so every later message (m2) is never delivered (wedged queue).
  v2  late REJECT(requeue=True) -> id is in pending twice; after the next
                     delivery it is 'pending' AND 'in_flight'; after ack the
                     stale copy remains and wedges the queue the same way.
  v3  late REJECT(requeue=False) -> id is 'dlq' AND 'pending'; wedged as well.
"""
import os, sys
sys.path.insert(0, os.environ.get("HS_ROOT", "/repo"))
sys.path.insert(1, os.path.dirname(os.path.abspath(__file__)))
from mq2_common import World

bad = []


def check_once(w, tag):
    """exactly-one-place invariant at end of run + m2 must have been delivered."""
    for label in w.ids:
        places = w.where(label)
        if len(places) != 1:
            bad.append(f"{tag}: {label} is in {places} at end of run (must be exactly one place)")
    if not any(d[2] == "m2" for d in w.all_deliveries()):
        bad.append(
            f"{tag}: m2 never delivered despite polls with a subscribed consumer "
            f"(pending_count={w.queue.pending_count}, head of pending is a stale id)"
        )


def scenario(tag, late_action, extra=()):
    print(f"== {tag} ==")
    w = World(
        [
            (0.0, "publish", ("m1",)),
            (0.5, "publish", ("m2",)),
            (1.0, "poll", ()),                 # m1 -> C1 (slow consumer)
            (2.0, "timeout", ("m1",)),         # visibility timeout: m1 back to head of pending, timer @52
            late_action,                       # t=2.5: C1 finishes late and acks / rejects m1
            (2.6, "note", ("after late action",)),
            *extra,
            (60.0, "poll", ()),                # must deliver m2 (m1 is settled)
            (61.0, "poll", ()),
            (62.0, "note", ("end",)),
        ],
        consumers=("C1",),
        delivery_latency=0.001,
        redelivery_delay=50.0,
        max_redeliveries=5,
    ).run(end=70.0)
    check_once(w, tag)
    return w


scenario("v1 late ack after timeout", (2.5, "ack", ("m1",)))
scenario(
    "v2 late reject(requeue=True) after timeout",
    (2.5, "reject", ("m1", True)),
    extra=[(3.0, "poll", ()), (3.2, "note", ("after re-poll",)), (3.5, "ack", ("m1",))],
)
scenario("v3 late reject(requeue=False) after timeout", (2.5, "reject", ("m1", False)))

print("== v4 reject(requeue=False) with NO DLQ configured (by design: discard) ==")
w = World(
    [(0.0, "publish", ("m1",)), (1.0, "poll", ()), (2.0, "reject", ("m1", False)), (3.0, "note", ("end",))],
    consumers=("C1",), dlq=False, delivery_latency=0.001,
).run(end=5.0)
print(f"   m1 -> {w.where('m1')}  rejected={w.queue.stats.messages_rejected} dead_lettered={w.queue.stats.messages_dead_lettered}"
      "   (silently discarded; only messages_rejected records it; treated as by design, not counted as a failure)")

print()
if bad:
    print("DEFECT (c) manifests:")
    for b in bad:
        print("  -", b)
    sys.exit(1)
print("OK: every message id is in exactly one place and the queue keeps delivering")
sys.exit(0)
