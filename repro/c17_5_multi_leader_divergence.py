"""C17-5 (multi-leader): leaders hold different values for a key after quiescence.

Property clause (C17): "In every scheme, once writes stop and all in-flight messages are delivered,
all replicas hold the same value for every key, under any message reordering."

`LeaderNode` keeps the winning version of each key in `self._versions[key]` and decides what to do
with an incoming write by comparing against it.  Every handler has the shape
        existing = self._versions.get(key)         # decide ...
        yield from self._store.put(key, value)      # ... suspend for the store write ...
        self._versions[key] = incoming              # ... record the decision afterwards
(`_handle_write` line ~246, `_handle_replicate` ~321/331/344, and both anti-entropy handlers).
While a handler is suspended in `store.put`, another handler for the same key decides against the
not-yet-updated `_versions` entry, so the loser of the conflict resolution can be applied last and
overwrite the winner on one leader only.  With anti-entropy disabled (the default,
`anti_entropy_interval=0.0`) nothing repairs it.

Case 1 - deterministic, no reordering needed (2 leaders, constant 5 ms links, store write 1 ms,
LastWriterWins):
   t=0.1000  L0: Write(k,"a")   lands 0.1010, Replicate(a) reaches L1 at 0.1060
   t=0.1055  L1: Write(k,"b")   suspended in store.put until 0.1065, _versions[k] still unset
   t=0.1060  L1: Replicate(a): existing is None -> applies "a" (lands 0.1070, after "b")
   t=0.1115  L0: Replicate(b): concurrent with a, LWW picks b (newer timestamp) -> L0 holds "b"
   quiescence: L0 = "b", L1 = "a".
Case 2 - seeded random: 3 leaders, ExponentialLatency(20 ms) links (messages reorder), 30 writes to
3 keys at random leaders ~1 ms apart, LastWriterWins and VectorClockMerge resolvers.

Run: /venv/bin/python /verif/repro/c17_5_multi_leader_divergence.py   (exit 1 = defect present)
     HS_ROOT=/path/to/checkout to run against another tree.
"""
import os
import random
import sys

sys.path.insert(0, os.environ.get("HS_ROOT", "/repo"))

from happysimulator import Event, Instant, Network, Simulation
from happysimulator.components.datastore import KVStore
from happysimulator.components.network.link import NetworkLink
from happysimulator.components.replication.conflict_resolver import LastWriterWins, VectorClockMerge
from happysimulator.components.replication.multi_leader import LeaderNode
from happysimulator.distributions.constant import ConstantLatency
from happysimulator.distributions.exponential import ExponentialLatency


def build(n, resolver, latency):
    network = Network(name="net")
    leaders = [
        LeaderNode(f"L{i}", store=KVStore(f"s{i}", write_latency=0.001, read_latency=0.001),
                   network=network, conflict_resolver=resolver())
        for i in range(n)
    ]
    for leader in leaders:
        leader.add_peers([x for x in leaders if x is not leader])
    for a in leaders:
        for b in leaders:
            if a is not b:
                network.add_link(a, b, NetworkLink(name=f"{a.name}->{b.name}", latency=latency()))
    sim = Simulation(start_time=Instant.Epoch, end_time=Instant.from_seconds(20.0), sources=[],
                     entities=[*leaders, network, *[x.store for x in leaders]])
    return leaders, sim


def write(sim, t, leader, key, value):
    sim.schedule(Event(time=Instant.from_seconds(t), event_type="Write", target=leader,
                       context={"metadata": {"key": key, "value": value}}))


def report(label, leaders, keys):
    stores = [{k: x.store.get_sync(k) for k in keys} for x in leaders]
    same = all(s == stores[0] for s in stores)
    print(f"[{label}] " + "  ".join(f"{x.name}={s}" for x, s in zip(leaders, stores))
          + f"  -> {'same' if same else 'DIVERGED'}")
    return not same


bad = False

# Case 1: deterministic
leaders, sim = build(2, LastWriterWins, lambda: ConstantLatency(0.005))
write(sim, 0.1000, leaders[0], "k", "a")
write(sim, 0.1055, leaders[1], "k", "b")
sim.run()
bad |= report("1 deterministic, LWW, const links", leaders, ["k"])

# Case 2: seeded random with reordering
for name, resolver in (("LWW", LastWriterWins), ("VectorClockMerge", VectorClockMerge)):
    seed = 0
    random.seed(seed)          # ExponentialLatency draws from the global RNG
    rng = random.Random(seed)
    leaders, sim = build(3, resolver, lambda: ExponentialLatency(0.020))
    t = 0.1
    for i in range(30):
        t += rng.random() * 0.002
        write(sim, t, rng.choice(leaders), f"k{rng.randint(0, 2)}", i)
    sim.run()
    bad |= report(f"2 seeded random, {name}, exp links", leaders, ["k0", "k1", "k2"])

print("DEFECT PRESENT: leaders disagree after all messages were delivered" if bad
      else "ok: all leaders converged")
sys.exit(1 if bad else 0)
