"""C11_1: a Raft leader that is deposed by a RequestVote it does NOT grant is left
without an election timer.  After a partition heals, every node whose log is good
enough to win can be in that state, and the fully connected, fault-free cluster then
stays leaderless forever (only the node that can never win keeps campaigning)."""
import os
import sys

sys.path.insert(0, os.environ.get("HS_ROOT", "/repo"))

import logging
import random

from happysimulator.components.consensus.raft import RaftNode
from happysimulator.components.network.link import NetworkLink
from happysimulator.components.network.network import Network
from happysimulator.core.event import Event
from happysimulator.core.simulation import Simulation
from happysimulator.core.temporal import Instant
from happysimulator.distributions.constant import ConstantLatency

logging.disable(logging.CRITICAL)
random.seed(7)

net = Network(name="net")
nodes = [
    RaftNode(name=f"n{i}", network=net, election_timeout_min=1.5,
             election_timeout_max=3.0, heartbeat_interval=0.5)
    for i in range(3)
]
for nd in nodes:
    nd.set_peers(nodes)
for a in nodes:
    for b in nodes:
        if a is not b:
            net.add_link(a, b, NetworkLink(name=f"{a.name}->{b.name}", latency=ConstantLatency(0.01)))

END = 120.0
sim = Simulation(end_time=Instant.from_seconds(END), entities=[net, *nodes])
for nd in nodes:
    for ev in nd.start():
        sim.schedule(ev)

st = {}
log = []
samples = []


def at(t, fn):
    sim.schedule(Event.once(time=Instant.from_seconds(t), event_type="ctl", fn=fn))


def timer_of(n, now):
    ev = n._election_timeout_event
    if ev is None or ev.cancelled or ev.time.to_seconds() <= now:
        return None
    return ev.time.to_seconds()


def step1(e):  # isolate the term-1 leader A; it keeps an uncommitted command
    A = next(n for n in nodes if n.is_leader)
    st["A"] = A
    st["rest"] = [n for n in nodes if n is not A]
    net.partition([A], st["rest"])
    st["fx"] = A.submit({"op": "set", "key": "x", "value": 1})
    log.append(f"t=6    leader A={A.name} (term {A.current_term}) cut off from the others; x=1 submitted to A")


def step2(e):  # the other two elected B; now cut B off from C as well
    B = next(n for n in st["rest"] if n.is_leader)
    C = next(n for n in st["rest"] if n is not B)
    st["B"], st["C"] = B, C
    net.partition([B], [C])
    st["fy"] = B.submit({"op": "set", "key": "y", "value": 2})
    log.append(f"t=12   B={B.name} is leader of term {B.current_term}; B cut off from C={C.name}; y=2 submitted to B")


def step3(e):  # heal everything just before C's next election timeout fires
    now = e.time.to_seconds()
    t_c = timer_of(st["C"], now)
    st["heal_at"] = t_c - 0.005
    at(st["heal_at"], do_heal)


def do_heal(e):
    net.heal_partition()
    A, B, C = st["A"], st["B"], st["C"]
    log.append(f"t={e.time.to_seconds():.3f} ALL partitions healed for good. "
               f"A: {A.state.name} T{A.current_term} log={A.log.last_index}/{A.log.last_term}; "
               f"B: {B.state.name} T{B.current_term} log={B.log.last_index}/{B.log.last_term}; "
               f"C: {C.state.name} T{C.current_term} log={C.log.last_index}/{C.log.last_term}")
    st["elections_at_heal"] = {n.name: n.stats.elections_started for n in nodes}


def sample(e):
    now = e.time.to_seconds()
    samples.append((now, [(n.name, n.state.name, n.current_term, timer_of(n, now) is not None)
                          for n in (st["A"], st["B"], st["C"])],
                    [n.name for n in nodes if n.is_leader]))


at(6.0, step1)
at(12.0, step2)
at(18.0, step3)
for t in (30.0, 60.0, 119.0):
    at(t, sample)

sim.run()

for line in log:
    print(line)
for now, sts, leaders in samples:
    print(f"t={now:<6.0f}" + "  ".join(f"{n}:{s} T{t} election_timer_pending={p}" for n, s, t, p in sts)
          + f"  leaders={leaders}")

A, B, C = st["A"], st["B"], st["C"]
started = {n.name: n.stats.elections_started - st["elections_at_heal"][n.name] for n in nodes}
print(f"elections started since the heal: {started}")
print()
print("required: from the heal on the network is fault-free (10 ms links, timeouts 1.5-3 s) and all")
print("          three nodes are up; Raft must elect a leader (B can win: its log is the most")
print("          up to date) and commands submitted to it must be committed and applied by all.")
leaders_end = samples[-1][2]
stuck = (not leaders_end) and started[A.name] == 0 and started[B.name] == 0
if stuck:
    print(f"observed: {END - st['heal_at']:.0f} s after the heal there is still no leader. A and B were deposed by")
    print("          C's RequestVote (higher term, shorter log -> vote refused) and have had no election")
    print("          timer since; only C, which can never win, keeps campaigning. Nothing can be committed.")
else:
    print(f"observed: leaders at the end: {leaders_end}")
print("VIOLATION" if stuck else "ok")
sys.exit(1 if stuck else 0)
