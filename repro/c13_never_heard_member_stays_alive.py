#!/usr/bin/env python
"""Reproduction: SWIM MembershipProtocol never suspects a member that crashed
before a peer recorded any heartbeat from it.

Property under test (completeness of the failure detector):

    If a member stops responding for good, every other live member stops
    reporting it ALIVE within a bounded number of probe rounds -- for ALL
    crash times of the failing member.

Mechanism of the defect (happysimulator/components/consensus/membership.py +
phi_accrual_detector.py):

  * ALIVE -> SUSPECT happens only in _handle_probe_tick, when
    info.detector.is_available(now) is False.
  * PhiAccrualDetector.phi() returns 0.0 while _last_heartbeat is None, i.e.
    as long as no heartbeat was EVER recorded from that member, so
    is_available() is True forever.
  * The probe-failure path (_handle_indirect_ping -> MembershipSuspicionTimeout
    -> _handle_suspicion_timeout) only turns SUSPECT into DEAD; on an ALIVE
    member it is a no-op.

  => A member that is down from the start (or dies before a given peer heard
     from it) is reported ALIVE by that peer forever, although every direct
     probe of it goes unanswered.

Everything below runs on the real library: real Simulation, real Network with
datacenter links, real MembershipProtocol entities, real FaultSchedule/CrashNode
(or a real Network.partition as an alternative crash model).

Exit code: 0 = property holds in every scenario, 1 = property violated,
           2 = harness unsound (control scenario not detected).
"""

from __future__ import annotations

import os
import sys

sys.path.insert(0, os.environ.get("HS_ROOT", "/repo"))

import random  # noqa: E402

from happysimulator.components.consensus.membership import (  # noqa: E402
    MembershipProtocol,
    MemberState,
)
from happysimulator.components.network.conditions import datacenter_network  # noqa: E402
from happysimulator.components.network.network import Network  # noqa: E402
from happysimulator.core.event import Event  # noqa: E402
from happysimulator.core.simulation import Simulation  # noqa: E402
from happysimulator.core.temporal import Instant  # noqa: E402
from happysimulator.faults.node_faults import CrashNode  # noqa: E402
from happysimulator.faults.schedule import FaultSchedule  # noqa: E402

N = 5
PROBE_INTERVAL = 1.0
SUSPICION_TIMEOUT = 5.0
PHI_THRESHOLD = 8.0
OBSERVE_AFTER_CRASH_S = 60.0  # 60 probe rounds after the crash
SAMPLE_EVERY_S = 0.25
LETTER = {MemberState.ALIVE: "A", MemberState.SUSPECT: "S", MemberState.DEAD: "D"}


def build_cluster(seed: int):
    random.seed(seed)
    network = Network(name="swim-net")
    nodes = [
        MembershipProtocol(
            name=f"m{i}",
            network=network,
            probe_interval=PROBE_INTERVAL,
            suspicion_timeout=SUSPICION_TIMEOUT,
            phi_threshold=PHI_THRESHOLD,
        )
        for i in range(N)
    ]
    for node in nodes:
        for other in nodes:
            if other is not node:
                node.add_member(other)
    for i, a in enumerate(nodes):
        for b in nodes[i + 1 :]:
            network.add_bidirectional_link(a, b, datacenter_network(f"link-{a.name}-{b.name}"))
    return network, nodes


def run(label: str, *, seed: int, crash_at: float | None, mode: str = "crashnode", verbose: bool = False):
    """Run one scenario. The victim is always the last member (m4).

    Returns a dict with: still_alive (observers that report the victim ALIVE at
    the end), first_non_alive (observer -> time it first stopped reporting
    ALIVE for good), false_dead (live member marked DEAD by a live observer),
    suspect_samples (# samples where a live member is SUSPECT at a live observer).
    """
    network, nodes = build_cluster(seed)
    victim = nodes[-1] if crash_at is not None else None
    live = [n for n in nodes if n is not victim]
    duration = (crash_at or 0.0) + OBSERVE_AFTER_CRASH_S

    schedule = None
    extra_events: list[Event] = []
    if victim is not None:
        if mode == "crashnode":
            schedule = FaultSchedule()
            schedule.add(CrashNode(victim.name, at=crash_at))
        elif mode == "partition":
            extra_events.append(
                Event.once(
                    time=Instant.from_seconds(crash_at),
                    event_type="IsolateVictim",
                    fn=lambda e: network.partition([victim], live) and None,
                    daemon=True,
                )
            )
        else:
            raise ValueError(mode)

    # view sampling: (t, {observer: {member: state}})
    samples: list[tuple[float, dict[str, dict[str, MemberState]]]] = []

    def sample(e: Event):
        samples.append(
            (
                e.time.to_seconds(),
                {o.name: {m.name: o.get_member_state(m.name) for m in nodes if m is not o} for o in live},
            )
        )

    k = 0
    while k * SAMPLE_EVERY_S < duration:
        extra_events.append(
            Event.once(time=Instant.from_seconds(k * SAMPLE_EVERY_S), event_type="Sample", fn=sample)
        )
        k += 1

    sim = Simulation(duration=duration, entities=[network, *nodes], fault_schedule=schedule)
    # fault/isolation events are scheduled before the protocols' first ticks so
    # that "crash at t" happens before any protocol activity at the same instant
    for evt in extra_events:
        sim.schedule(evt)
    for node in nodes:
        for evt in node.start():
            sim.schedule(evt)
    sim.run()
    # final view
    samples.append(
        (duration, {o.name: {m.name: o.get_member_state(m.name) for m in nodes if m is not o} for o in live})
    )

    live_names = {n.name for n in live}
    false_dead = sorted(
        {
            (t, o, m)
            for t, views in samples
            for o, view in views.items()
            for m, st in view.items()
            if m in live_names and st == MemberState.DEAD
        }
    )
    suspect_samples = sum(
        1
        for _t, views in samples
        for _o, view in views.items()
        for m, st in view.items()
        if m in live_names and st == MemberState.SUSPECT
    )

    still_alive: list[str] = []
    first_non_alive: dict[str, float | None] = {}
    if victim is not None:
        final = samples[-1][1]
        still_alive = [o for o in final if final[o][victim.name] == MemberState.ALIVE]
        for o in live:
            last_alive_t = None
            for t, views in samples:
                if views[o.name][victim.name] == MemberState.ALIVE:
                    last_alive_t = t
            if o.name in still_alive:
                first_non_alive[o.name] = None
            else:
                nxt = [t for t, _ in samples if last_alive_t is None or t > last_alive_t]
                first_non_alive[o.name] = nxt[0] if nxt else None

    print(f"--- {label}: seed={seed} crash_at={crash_at} mode={mode} duration={duration:g}s")
    if victim is not None:
        if verbose:
            print(f"    view of {victim.name} over time (A=ALIVE S=SUSPECT D=DEAD), observers "
                  + " ".join(o.name for o in live))
            step = max(1, int(round(2.0 / SAMPLE_EVERY_S)))
            for t, views in samples[:-1:step] + [samples[-1]]:
                row = " ".join(f"{LETTER[views[o.name][victim.name]]:>2}" for o in live)
                hb = " ".join(
                    "hb" if o._members[victim.name].detector.last_heartbeat is not None else "--" for o in live
                ) if t == samples[-1][0] else ""
                print(f"    t={t:6.2f}  {row}   {hb}")
            print("    (last row: 'hb' = observer recorded >=1 heartbeat from victim, '--' = never)")
        for o in live:
            det = o._members[victim.name].detector
            fna = first_non_alive[o.name]
            print(
                f"    {o.name}: final={o.get_member_state(victim.name).name:8s}"
                f" heartbeats_from_victim={det.stats.heartbeats_received:3d}"
                f" stopped_reporting_ALIVE_at={'NEVER' if fna is None else f'{fna:g}s'}"
                f" probes_sent={o.stats.probes_sent}"
            )
    print(f"    live members marked DEAD by live observers: {false_dead[:3] if false_dead else 'none'}"
          f" ; SUSPECT samples among live members: {suspect_samples}")
    if victim is not None:
        print(f"    RESULT: {'VIOLATION - still ALIVE at ' + ','.join(still_alive) if still_alive else 'detected by all live members'}")
    return {
        "still_alive": still_alive,
        "first_non_alive": first_non_alive,
        "false_dead": false_dead,
        "suspect_samples": suspect_samples,
    }


def main() -> int:
    violation = False
    unsound = False

    print("=" * 78)
    print("1. CONTROL: healthy cluster, nobody crashes (no live member may ever be DEAD)")
    print("=" * 78)
    for seed in (1, 2, 3, 42):
        r = run("healthy", seed=seed, crash_at=None)
        if r["false_dead"]:
            print("    !! healthy cluster produced a DEAD verdict")
            violation = True

    print()
    print("=" * 78)
    print("2. CONTROL: crash at t=20s, after heartbeats were exchanged (must be detected)")
    print("=" * 78)
    for seed in (1, 42):
        for mode in ("crashnode", "partition"):
            r = run("control-crash@20", seed=seed, crash_at=20.0, mode=mode, verbose=(seed == 1 and mode == "crashnode"))
            if r["still_alive"]:
                print("    !! control scenario was NOT detected -> harness/protocol unsound")
                unsound = True
            if r["false_dead"]:
                violation = True

    print()
    print("=" * 78)
    print("3. BUG: member m4 is down from t=0 (before anybody recorded a heartbeat)")
    print("=" * 78)
    for seed in (1, 42):
        for mode in ("crashnode", "partition"):
            r = run("crash@0", seed=seed, crash_at=0.0, mode=mode, verbose=(seed == 1 and mode == "crashnode"))
            if r["still_alive"]:
                violation = True
            if r["false_dead"]:
                violation = True

    print()
    print("=" * 78)
    print("4. SWEEP over crash times ('for all crash times of the failing member')")
    print("=" * 78)
    sweep = [0.0, 0.5, 1.0, 1.5, 2.0, 2.5, 3.0, 4.0, 5.0, 8.0, 12.0, 20.0]
    table = []
    for crash_at in sweep:
        bad = []
        worst = 0.0
        for seed in (1, 2, 3, 42):
            _stdout = sys.stdout
            sys.stdout = open(os.devnull, "w")
            try:
                r = run("sweep", seed=seed, crash_at=crash_at)
            finally:
                sys.stdout.close()
                sys.stdout = _stdout
            if r["still_alive"]:
                bad.append((seed, r["still_alive"]))
            if r["false_dead"]:
                bad.append((seed, "false DEAD"))
            for t in r["first_non_alive"].values():
                if t is not None:
                    worst = max(worst, t - crash_at)
        table.append((crash_at, bad, worst))
        status = "ok " if not bad else "BAD"
        print(f"    crash_at={crash_at:5.1f}s  {status} worst detection latency (detected ones) = {worst:5.2f}s"
              f"  undetected: {bad if bad else '-'}")
        if bad:
            violation = True

    print()
    if unsound:
        print("HARNESS UNSOUND: a control crash (after heartbeats) was not detected")
        return 2
    if violation:
        print("PROPERTY VIOLATED: a permanently crashed member is still reported ALIVE "
              f"{OBSERVE_AFTER_CRASH_S:g}s ({OBSERVE_AFTER_CRASH_S / PROBE_INTERVAL:g} probe rounds) after it stopped responding"
              " (or a live member was declared DEAD)")
        return 1
    print("PROPERTY HOLDS in all scenarios")
    return 0


if __name__ == "__main__":
    sys.exit(main())
