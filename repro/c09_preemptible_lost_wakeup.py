import os
import sys

sys.path.insert(0, os.environ.get("HS_ROOT", "/repo"))

# C09 defect 4: PreemptibleResource leaves a waiter blocked although capacity is free.
# When a high-priority acquire preempts a holder that held MORE than the requester needs,
# the surplus goes back to `available`, but the waiter queue is not re-examined: a queued
# request that now fits keeps waiting until some unrelated release() happens (forever, if
# none does).

from happysimulator.components.industrial.preemptible_resource import PreemptibleResource
from happysimulator.core.entity import Entity
from happysimulator.core.event import Event
from happysimulator.core.simulation import Simulation
from happysimulator.core.temporal import Instant

log = []


class User(Entity):
    def __init__(self, name, res, amount, priority, hold):
        super().__init__(name)
        self.res, self.amount, self.priority, self.hold = res, amount, priority, hold
        self.requested_at = self.granted_at = None
        self.free_while_waiting = []

    def handle_event(self, event):
        self.requested_at = self.now.to_seconds()
        log.append((self.requested_at, self.name, f"request {self.amount} prio={self.priority}"))
        grant = yield self.res.acquire(
            self.amount,
            priority=self.priority,
            on_preempt=lambda: log.append((self.now.to_seconds(), self.name, "PREEMPTED")),
        )
        self.granted_at = self.now.to_seconds()
        log.append((self.granted_at, self.name, f"granted, available now {self.res.available}"))
        yield self.hold
        grant.release()
        log.append((self.now.to_seconds(), self.name, f"released, available now {self.res.available}"))


class Probe(Entity):
    """Samples the resource once per second."""

    def __init__(self, name, res, waiter):
        super().__init__(name)
        self.res, self.waiter = res, waiter
        self.idle_samples = []

    def handle_event(self, event):
        w = self.waiter
        if w.requested_at is not None and w.granted_at is None and self.res.available >= w.amount:
            self.idle_samples.append((self.now.to_seconds(), self.res.available))


res = PreemptibleResource("machine", capacity=3)
low = User("LOW", res, amount=3, priority=5.0, hold=100.0)  # t=0: takes everything
waiter = User("WAITER", res, amount=1, priority=5.0, hold=1.0)  # t=1: queued (cannot preempt equal prio)
high = User("HIGH", res, amount=1, priority=0.0, hold=50.0)  # t=2: preempts LOW (3 units) but needs 1
probe = Probe("probe", res, waiter)

sim = Simulation(
    start_time=Instant.Epoch,
    end_time=Instant.from_seconds(200),
    entities=[res, low, waiter, high, probe],
)
sim.schedule(Event(time=Instant.from_seconds(0), event_type="go", target=low))
sim.schedule(Event(time=Instant.from_seconds(1), event_type="go", target=waiter))
sim.schedule(Event(time=Instant.from_seconds(2), event_type="go", target=high))
for t in range(3, 60):
    sim.schedule(Event(time=Instant.from_seconds(t), event_type="sample", target=probe))
sim.run()

for entry in log:
    print("   ", entry)

print(
    f"observed : WAITER asked for 1 unit at t={waiter.requested_at}; after the preemption at t=2 "
    f"2 units are free; WAITER is granted at t={waiter.granted_at}"
)
print(
    f"           {len(probe.idle_samples)} one-second samples with WAITER queued while "
    f"available >= 1 (first: {probe.idle_samples[:1]}, last: {probe.idle_samples[-1:]})"
)
print(
    "required : blocked acquirers are granted as soon as capacity allows -> WAITER is granted "
    "at t=2.0, the instant the preemption frees 2 spare units"
)
if waiter.granted_at is None or waiter.granted_at > 2.0:
    print("RESULT: defect observed (waiter blocked next to idle capacity)")
    sys.exit(1)
print("RESULT: ok")
sys.exit(0)
