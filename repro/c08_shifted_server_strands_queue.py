"""Repro: ShiftedServer never looks at its queue when a shift change raises its capacity.

The queue notifies the driver only when it goes from empty to non-empty, and the driver polls only on a notify or a completion.  Items
that arrive while the capacity is 0 (off shift) are queued; the notify finds no capacity.  When the next shift starts nothing polls the
queue — and because the queue is no longer empty, later arrivals do not notify either: every item is stranded for the rest of the run.

Scenario: shifts [10 s, 100 s) with capacity 2, default capacity 0, service 1 s; three items arrive at t = 1, 2, 3.
Expected: completions at 11, 11, 12.  Exit 1 if any item is still waiting at t = 50.
"""
import os
import sys

sys.path.insert(0, os.environ.get("HS_ROOT", "/repo"))

from happysimulator.components.industrial.shift_schedule import Shift, ShiftedServer, ShiftSchedule  # noqa: E402
from happysimulator.core.entity import Entity  # noqa: E402
from happysimulator.core.event import Event  # noqa: E402
from happysimulator.core.simulation import Simulation  # noqa: E402
from happysimulator.core.temporal import Instant  # noqa: E402


class Sink(Entity):
    def __init__(self):
        super().__init__("sink")
        self.t = []

    def handle_event(self, event):
        self.t.append(round(self.now.to_seconds(), 6))


def run(arrivals, shifts, default=0):
    sink = Sink()
    srv = ShiftedServer("shifted", ShiftSchedule(shifts, default_capacity=default), service_time=1.0, downstream=sink)
    sim = Simulation(start_time=Instant.Epoch, duration=50, entities=[srv, sink])
    for k, t in enumerate(arrivals):
        sim.schedule(Event(time=Instant.from_seconds(t), event_type="item", target=srv, context={"k": k}))
    sim.run()
    return sink.t, srv.depth


def main():
    ok = True
    for arrivals, shifts, want in (([1.0, 2.0, 3.0], [Shift(10.0, 100.0, 2)], [11.0, 11.0, 12.0]),
                                   ([1.0, 1.0, 1.0, 1.0], [Shift(0.0, 5.0, 1), Shift(5.0, 100.0, 3)], [2.0, 3.0, 4.0, 5.0]),
                                   ([4.5, 4.5, 4.5, 4.5], [Shift(0.0, 5.0, 1), Shift(5.0, 100.0, 3)], [5.5, 6.0, 6.0, 6.5])):
        got, depth = run(arrivals, shifts)
        good = got == want and depth == 0
        ok &= good
        print(f"arrivals {arrivals}: completions {got}, still queued at t=50: {depth} {'ok' if good else 'EXPECTED ' + str(want)}")
    print("RESULT:", "ok" if ok else "DEFECT: queued items wait although the server has free capacity after the shift change")
    return 0 if ok else 1


sys.exit(main())
