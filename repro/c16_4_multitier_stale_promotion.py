"""C16-4 (second site): MultiTierCache promotion re-installs a stale value over a completed write.

Property clause (C16): "a read issued after a write to the same key has completed returns that
write's value or a later one."

`MultiTierCache.get` on a hit in a lower tier does `value = yield from tier.get(key)` (suspends
for that tier's read latency) and then `self._maybe_promote(key, value, tier_idx)`, which calls
`L1._cache_put(key, value)` unconditionally.  A `MultiTierCache.put(key, v2)` whose backing-store
write lands during that suspension invalidates every tier and installs v2 in L1; the resumed get
then overwrites L1's v2 with the v1 it read from L2 before the write.  L2 no longer has the key,
the backing store holds v2, but every later read hits L1 and returns v1.

Schedule (L1 read 0.1 ms, L2 read 10 ms, backing read/write 5 ms; k=v1 in the backing store and in
L2 (a warm shared second-level cache), L1 empty; promotion policy ALWAYS):
   t=1.000  writer : mt.put(k,"v2")   backing write lands 1.005 -> invalidate L1,L2; L1[k]=v2;
                                      L1's own write-through finishes 1.010 (put completes)
   t=1.001  readerA: mt.get(k)        L2 hit, value v1 captured, suspended until 1.011
   t=1.011  readerA resumes, promotes v1 into L1 (overwrites v2)
   t=2.000  readerB: mt.get(k)        -> "v1" although put(k,"v2") completed at 1.010

Run: /venv/bin/python /verif/repro/c16_4_multitier_stale_promotion.py   (exit 1 = defect present)
     HS_ROOT=/path/to/checkout to run against another tree.
"""
import os
import sys

sys.path.insert(0, os.environ.get("HS_ROOT", "/repo"))

from happysimulator.components.datastore import CachedStore, KVStore, LRUEviction, MultiTierCache
from happysimulator.core.entity import Entity
from happysimulator.core.event import Event
from happysimulator.core.simulation import Simulation
from happysimulator.core.temporal import Instant

log = {}


class Client(Entity):
    def __init__(self, name, mt):
        super().__init__(name)
        self.mt = mt

    def handle_event(self, event):
        if event.event_type == "put":
            return self._put(event.context["value"])
        return self._get(event.context["tag"])

    def _put(self, value):
        t0 = self.now.to_seconds()
        yield from self.mt.put("k", value)
        log["put"] = (t0, self.now.to_seconds(), value)
        print(f"  writer : put(k,{value!r}) issued t={t0:.4f} completed t={self.now.to_seconds():.4f}")

    def _get(self, tag):
        t0 = self.now.to_seconds()
        v = yield from self.mt.get("k")
        log[tag] = (t0, self.now.to_seconds(), v)
        print(f"  {tag}: get(k) issued t={t0:.4f} -> {v!r} at t={self.now.to_seconds():.4f}")


backing = KVStore(name="db", read_latency=0.005, write_latency=0.005)
backing.put_sync("k", "v1")
l1 = CachedStore(name="l1", backing_store=backing, cache_capacity=4, cache_read_latency=0.0001,
                 eviction_policy=LRUEviction())
l2 = CachedStore(name="l2", backing_store=backing, cache_capacity=16, cache_read_latency=0.010,
                 eviction_policy=LRUEviction())
mt = MultiTierCache(name="mt", tiers=[l1, l2], backing_store=backing)
client = Client("client", mt)


class Warm(Entity):
    """Warms L2 the ordinary way: a read through L2 at t=0.1 fills it with v1."""

    def handle_event(self, event):
        return l2.get("k")


warm = Warm("warm")
sim = Simulation(end_time=Instant.from_seconds(10), entities=[client, warm, mt, l1, l2, backing])
sim.schedule(Event(time=Instant.from_seconds(0.1), event_type="warm", target=warm))


def at(t, etype, **ctx):
    ev = Event(time=Instant.from_seconds(t), event_type=etype, target=client)
    ev.context.update(ctx)
    sim.schedule(ev)


at(1.000, "put", value="v2")
at(1.001, "get", tag="readerA")
at(2.000, "get", tag="readerB")
sim.run()

put_done = log["put"][1]
t0, t1, v = log["readerB"]
print(f"backing store k={backing.get_sync('k')!r}  L1 k={l1._cache.get('k')!r}  L2 k={l2._cache.get('k')!r}")
bad = t0 > put_done and v != "v2"
print(f"DEFECT PRESENT: read issued at t={t0} after the write completed at t={put_done:.4f} returned {v!r}"
      if bad else "ok: the read after the completed write returned the written value")
sys.exit(1 if bad else 0)
