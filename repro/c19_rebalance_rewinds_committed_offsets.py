import os
import sys

sys.path.insert(0, os.environ.get("HS_ROOT", "/repo"))

# C19_4: a rebalance rewinds the group's committed offset of every partition
# that changes owner.  ConsumerGroup stores committed offsets per *consumer
# name* ({name: {pid: offset}}); Poll and consumer_lag() look only at the
# polling member's own dict.  When a partition moves to another member the
# position the group had committed for it is ignored and the new owner starts
# again at offset 0: committed records are delivered a second time, and when the
# new owner commits its (lower) position the group's committed offset for that
# partition has moved backwards.

from happysimulator.components.streaming import (
    ConsumerGroup,
    EventLog,
    RangeAssignment,
    RoundRobinAssignment,
    StickyAssignment,
)
from happysimulator.core.entity import Entity
from happysimulator.core.event import Event
from happysimulator.core.simulation import Simulation
from happysimulator.core.temporal import Instant

RECORDS_PER_PARTITION = 5
PARTITIONS = 2


class FixedSharding:
    """Keys are 'p<i>-...' and go to partition i (a key always maps to the same partition)."""

    def get_shard(self, key, num_shards):
        return int(key[1]) % num_shards


class Worker(Entity):
    """A well-behaved group member: join, then on every tick poll, process, commit."""

    def __init__(self, name, group):
        super().__init__(name)
        self.group = group
        self.seen = []          # (partition, offset) of every record handed to this member
        self.assigned_log = []

    def handle_event(self, event):
        if event.event_type == "join":
            assigned = yield from self.group.join(self.name, self)
            self.assigned_log.append((round(self.now.to_seconds(), 3), list(assigned)))
        elif event.event_type == "leave":
            yield from self.group.leave(self.name)
        elif event.event_type == "tick":
            records = yield from self.group.poll(self.name, max_records=2)
            commit = {}
            for rec in records:
                self.seen.append((rec.partition, rec.offset))
                commit[rec.partition] = max(commit.get(rec.partition, 0), rec.offset + 1)
            if commit:
                yield from self.group.commit(self.name, commit)
        return None


class Producer(Entity):
    def __init__(self, log):
        super().__init__("producer")
        self.log = log

    def handle_event(self, event):
        for i in range(RECORDS_PER_PARTITION):
            for p in range(PARTITIONS):
                yield from self.log.append(f"p{p}-k{i}", {"n": i})
        return None


class Probe(Entity):
    """Records, at an instant, who owns each partition and from which offset the
    group would resume it (= the committed offset Poll / consumer_lag use)."""

    def __init__(self, log, group):
        super().__init__("probe")
        self.log = log
        self.group = group
        self.history = []

    def handle_event(self, event):
        owners, pos = {}, {}
        for p in range(PARTITIONS):
            (owner,) = [n for n, ps in self.group.assignments.items() if p in ps]  # exactly one
            owners[p] = owner
            pos[p] = self.log.high_watermark(p) - self.group.consumer_lag(owner)[p]
        self.history.append((round(self.now.to_seconds(), 3), owners, pos))
        return None


def run(strategy):
    log = EventLog(name="log", num_partitions=PARTITIONS, sharding_strategy=FixedSharding())
    group = ConsumerGroup(name="group", event_log=log, assignment_strategy=strategy,
                          rebalance_delay=0.5, poll_latency=0.001)
    a, b = Worker("a", group), Worker("b", group)
    producer = Producer(log)
    probe = Probe(log, group)
    sim = Simulation(start_time=Instant.Epoch, end_time=Instant.from_seconds(60.0),
                     entities=[log, group, a, b, producer, probe])

    def at(t, etype, target):
        sim.schedule(Event(time=Instant.from_seconds(t), event_type=etype, target=target))

    at(0.0, "go", producer)                 # 5 records in each of the 2 partitions
    at(1.0, "join", a)                      # a owns both partitions
    for k in range(10):
        at(2.0 + k, "tick", a)              # a consumes and commits everything (t=2..11)
    at(12.0, "probe", probe)                # before any further rebalance
    at(13.0, "join", b)                     # rebalance 2: b joins
    at(14.0, "probe", probe)
    at(15.0, "leave", a)                    # rebalance 3: a leaves, b owns everything
    at(16.0, "probe", probe)
    for k in range(10):
        at(17.0 + k, "tick", b)             # b polls / commits
    at(30.0, "probe", probe)
    sim.run()
    return a, b, probe.history


bad = 0
for strategy in (RangeAssignment(), RoundRobinAssignment(), StickyAssignment()):
    a, b, history = run(strategy)
    print(f"[{type(strategy).__name__}]")
    high = {p: 0 for p in range(PARTITIONS)}
    regress = []
    for t, owners, pos in history:
        print(f"  t={t:<5} owners={owners}  committed offset per partition={pos}")
        for p, off in pos.items():
            if off < high[p]:
                regress.append((t, p, high[p], off))
            high[p] = max(high[p], off)
    dup = sorted(set(a.seen) & set(b.seen))
    print(f"  records already committed by a that were handed out again to b: {dup}")
    for t, p, was, now in regress:
        print(f"  -> partition {p}: committed offset {was} -> {now} at t={t}")
    if regress or dup:
        bad += 1

print("property requires: committed offsets never move backwards (records below the "
      "committed offset are not handed out again because of a rebalance)")
if bad:
    print("VIOLATION")
    sys.exit(1)
print("OK")
sys.exit(0)
