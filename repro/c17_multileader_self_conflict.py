import os, sys
sys.path.insert(0, os.environ.get("HS_ROOT", "/repo"))
"""C17_1: multi-leader replication treats a version compared with ITSELF as a concurrent conflict.

One single, conflict-free write is made on leader L0 and replicated to L1.  Anti-entropy
then runs once a second.  Every anti-entropy message carries the very same version the
receiver already holds (equal vector clock, equal writer, equal timestamp); the receiver
classifies it as "concurrent", bumps conflicts_detected and calls the conflict resolver
with two copies of the same write.  With a sibling-keeping merge function (Riak style:
keep both concurrent values) the value is merged with itself on every round, so it grows
without bound and the two replicas never hold the same value.
"""
import logging
import random

logging.disable(logging.CRITICAL)

from happysimulator import Event, Instant, Network, Simulation
from happysimulator.components.datastore import KVStore
from happysimulator.components.network.link import NetworkLink
from happysimulator.components.replication.conflict_resolver import (
    VectorClockMerge,
    VersionedValue,
)
from happysimulator.components.replication.multi_leader import LeaderNode
from happysimulator.distributions.constant import ConstantLatency

random.seed(1)

self_conflicts = []  # resolver invocations where both versions are the same write


def keep_siblings(key, a, b):
    """Merge for truly concurrent versions: keep both values (siblings)."""
    if a.writer_id == b.writer_id and a.vector_clock == b.vector_clock:
        self_conflicts.append((key, a))  # same writer, same clock: not concurrent
    vc_a, vc_b = a.vector_clock or {}, b.vector_clock or {}
    merged_vc = {n: max(vc_a.get(n, 0), vc_b.get(n, 0)) for n in set(vc_a) | set(vc_b)}
    return VersionedValue(
        value=sorted(a.value + b.value),
        timestamp=max(a.timestamp, b.timestamp),
        writer_id=max(a.writer_id, b.writer_id),
        vector_clock=merged_vc,
    )


net = Network(name="net")
leaders = [
    LeaderNode(
        f"L{i}",
        store=KVStore(f"store{i}", write_latency=0.001, read_latency=0.001),
        network=net,
        conflict_resolver=VectorClockMerge(keep_siblings),
        anti_entropy_interval=1.0,
    )
    for i in range(2)
]
for l in leaders:
    l.add_peers([p for p in leaders if p is not l])
net.add_link(leaders[0], leaders[1], NetworkLink(name="l01", latency=ConstantLatency(0.01)))
net.add_link(leaders[1], leaders[0], NetworkLink(name="l10", latency=ConstantLatency(0.01)))

sim = Simulation(
    start_time=Instant.Epoch,
    end_time=Instant.from_seconds(8.0),
    entities=[*leaders, net, *[l.store for l in leaders]],
)
write = Event(time=Instant.from_seconds(0.1), event_type="Write", target=leaders[0])
write.context["metadata"].update({"key": "cart", "value": ["apple"]})
ae = Event(time=Instant.from_seconds(1.0), event_type="AntiEntropy", target=leaders[0])
sim.schedule([write, ae])
sim.run()

vals = [l.store.get_sync("cart") for l in leaders]
conflicts = [l.stats.conflicts_detected for l in leaders]
print("writes issued: exactly 1 (key 'cart' = ['apple'] on L0); no concurrent write exists")
print("anti-entropy rounds run by L0:", leaders[0].stats.anti_entropy_syncs)
print("conflicts_detected per leader:", conflicts, "(property: 0, there is nothing to conflict with)")
print("resolver called with two versions of equal writer and vector clock:", len(self_conflicts), "times")
print("final value lengths per replica:", [len(v) if v is not None else None for v in vals])
print("property: after writes stop and anti-entropy has run, every replica holds ['apple']")

violated = (
    vals[0] != vals[1]
    or any(v != ["apple"] for v in vals)
    or any(c != 0 for c in conflicts)
    or bool(self_conflicts)
)
print("VIOLATION" if violated else "OK")
sys.exit(1 if violated else 0)
