"""Deterministic reproduction: PageCache._evict_one races across its write-back suspension.

Drives the REAL PageCache under the REAL Simulation engine with small entities
whose handle_event generators call ``yield from cache.write_page(..)``.

Scenario A (double eviction of the same victim):
    capacity=2, disk_write_latency=1.0s
    t=0.0  w0: write_page(1)            -> [1d]
    t=0.1  w0: write_page(2)            -> [1d, 2d]   cache full, LRU page 1 dirty
    t=1.0  x : write_page(3)  miss      -> _evict_one picks 1, suspends until 2.0
    t=1.5  y : write_page(4)  miss      -> _evict_one picks 1 too, suspends until 2.5
    t=2.0  x resumes: del _pages[1], inserts 3
    t=2.5  y resumes: del _pages[1]     -> KeyError (or evictions double counted)

Scenario B (write during write-back is discarded):
    capacity=2, disk_write_latency=1.0s
    t=0.0  w0: write_page(1)            -> [1d]
    t=0.1  w0: write_page(2)            -> [1d, 2d]
    t=1.0  x : write_page(3)  miss      -> _evict_one picks 1, write-back 1.0..2.0
    t=1.5  y : write_page(1)  HIT       -> page 1 re-dirtied and moved to MRU
    t=2.0  x resumes: deletes page 1 anyway -> the t=1.5 write never reaches disk
    t=5.0  f : flush()                  -> drains everything that is still dirty
    Oracle: 4 distinct page contents were written (1@0.0, 2@0.1, 3@1.0, 1@1.5) and
    the write-back that started at 1.0 cannot contain the 1.5 content, so after the
    final flush dirty_writebacks must be >= 4.  Also at t=2.2 page 1 must still be
    cached and dirty (its only write-back started before its last write).

Exit 1 if either hypothesis manifests, 0 otherwise.
"""

from __future__ import annotations

import os
import sys
import traceback

sys.path.insert(0, os.environ.get("HS_ROOT", "/repo"))

from happysimulator.components.infrastructure.page_cache import PageCache  # noqa: E402
from happysimulator.core.entity import Entity  # noqa: E402
from happysimulator.core.event import Event  # noqa: E402
from happysimulator.core.simulation import Simulation  # noqa: E402
from happysimulator.core.temporal import Instant  # noqa: E402


def snap(cache: PageCache) -> str:
    pages = ", ".join(f"{pid}{'d' if p.dirty else 'c'}" for pid, p in cache._pages.items())
    s = cache.stats
    return f"[{pages}] evictions={s.evictions} writebacks={s.dirty_writebacks}"


class Driver(Entity):
    """Performs the cache operation named in the event context."""

    def __init__(self, name: str, cache: PageCache, history: list[str]) -> None:
        super().__init__(name)
        self.cache = cache
        self.history = history

    def _log(self, msg: str) -> None:
        self.history.append(f"t={self.now.to_seconds():.2f} {self.name}: {msg} | {snap(self.cache)}")

    def handle_event(self, event: Event):
        op = event.context["op"]
        page = event.context.get("page")
        if op == "write":
            self._log(f"write_page({page}) begin")
            yield from self.cache.write_page(page)
            self._log(f"write_page({page}) done")
        elif op == "read":
            self._log(f"read_page({page}) begin")
            yield from self.cache.read_page(page)
            self._log(f"read_page({page}) done")
        elif op == "flush":
            self._log("flush() begin")
            n = yield from self.cache.flush()
            self._log(f"flush() done, flushed={n}")
        elif op == "probe":
            self._log("probe")
            event.context["out"].append(
                {pid: p.dirty for pid, p in self.cache._pages.items()}
            )
        return []


def run(ops: list[tuple[float, str, str, int | None]], probes: list[float]):
    """ops: (time, driver, op, page). Returns (cache, history, probe_results, exception)."""
    cache = PageCache(
        "cache", capacity_pages=2, disk_read_latency_s=0.25, disk_write_latency_s=1.0
    )
    history: list[str] = []
    names = sorted({d for _, d, _, _ in ops} | {"probe"})
    drivers = {n: Driver(n, cache, history) for n in names}
    sim = Simulation(
        start_time=Instant.from_seconds(0),
        end_time=Instant.from_seconds(60),
        entities=[cache, *drivers.values()],
    )
    probe_out: list[dict[int, bool]] = []
    events = [
        Event(Instant.from_seconds(t), f"{op}", drivers[d], context={"op": op, "page": page})
        for t, d, op, page in ops
    ]
    events += [
        Event(Instant.from_seconds(t), "probe", drivers["probe"], context={"op": "probe", "out": probe_out})
        for t in probes
    ]
    sim.schedule(events)
    exc = None
    try:
        sim.run()
    except Exception as e:  # noqa: BLE001 - the defect surfaces as a KeyError out of run()
        exc = e
        history.append("EXCEPTION out of Simulation.run():\n" + traceback.format_exc())
    return cache, history, probe_out, exc


def scenario_a() -> list[str]:
    ops = [
        (0.0, "w0", "write", 1),
        (0.1, "w0", "write", 2),
        (1.0, "x", "write", 3),
        (1.5, "y", "write", 4),
    ]
    cache, history, _, exc = run(ops, probes=[4.9])
    problems = []
    if exc is not None:
        problems.append(f"second evictor crashed with {type(exc).__name__}: {exc!r}")
    else:
        s = cache.stats
        # 4 distinct pages were inserted into a 2-page cache and none re-inserted:
        # exactly 2 pages left the cache.
        if s.evictions != 2:
            problems.append(f"evictions={s.evictions}, expected 2 (double/under count)")
        if set(cache._pages) != {3, 4}:
            problems.append(f"final pages {list(cache._pages)}, expected {{3, 4}}")
        if len(cache._pages) > 2:
            problems.append("cache over capacity")
    return report("A (two evictors pick the same dirty victim)", problems, history)


def scenario_b() -> list[str]:
    ops = [
        (0.0, "w0", "write", 1),
        (0.1, "w0", "write", 2),
        (1.0, "x", "write", 3),
        (1.5, "y", "write", 1),  # hit on the page whose write-back is in flight
        (5.0, "f", "flush", None),
    ]
    cache, history, probes, exc = run(ops, probes=[2.2])
    problems = []
    if exc is not None:
        problems.append(f"crashed with {type(exc).__name__}: {exc!r}")
    else:
        at_2_2 = probes[0]
        if at_2_2.get(1) is not True:
            problems.append(
                "at t=2.2 page 1 is "
                + ("not cached" if 1 not in at_2_2 else "cached but clean")
                + ": its last write (t=1.5) came after the only write-back of it "
                "started (t=1.0), so that write was discarded without reaching disk"
            )
        wb = cache.stats.dirty_writebacks
        if wb < 4:
            problems.append(
                f"after final flush dirty_writebacks={wb} < 4 distinct written contents "
                "(1@0.0, 2@0.1, 3@1.0, 1@1.5): one write never reached the backing store"
            )
        if cache.dirty_pages != 0:
            problems.append("dirty pages remain after final flush")
        if len(cache._pages) > 2:
            problems.append("cache over capacity")
    return report("B (write during eviction write-back is discarded)", problems, history)


def report(title: str, problems: list[str], history: list[str]) -> list[str]:
    print(f"=== Hypothesis {title}: {'MANIFESTS' if problems else 'ok'}")
    for p in problems:
        print(f"  VIOLATION: {p}")
    print("  history:")
    for h in history:
        for line in h.splitlines():
            print(f"    {line}")
    print()
    return problems


def main() -> int:
    a = scenario_a()
    b = scenario_b()
    if a or b:
        print("RESULT: defect reproduced:", ", ".join(n for n, p in (("A", a), ("B", b)) if p))
        return 1
    print("RESULT: no defect observed")
    return 0


if __name__ == "__main__":
    sys.exit(main())
