"""Repro: a Server with concurrency 2 serves a same-instant burst one at a time.

Queue._handle_enqueue notifies the driver only when the queue goes from empty to non-empty, and QueueDriver polls once per notify and once
per completion.  When k > 1 items arrive at the same instant, only the first is polled for; the others wait until a *completion* although
the worker has free capacity — simulated time passes while an item waits and the worker could take it.

Scenario: Server(concurrency=2, service 1 s); 4 requests at t = 0.  Expected completions [1, 1, 2, 2]; the defect gives [1, 2, 3, 4].
Exit 1 if an item waited while fewer than `concurrency` items were in service.
"""
import os
import sys

sys.path.insert(0, os.environ.get("HS_ROOT", "/repo"))

from happysimulator.components.server.server import Server  # noqa: E402
from happysimulator.core.entity import Entity  # noqa: E402
from happysimulator.core.event import Event  # noqa: E402
from happysimulator.core.simulation import Simulation  # noqa: E402
from happysimulator.core.temporal import Instant  # noqa: E402
from happysimulator.distributions.constant import ConstantLatency  # noqa: E402


class Sink(Entity):
    def __init__(self):
        super().__init__("sink")
        self.t = []

    def handle_event(self, event):
        self.t.append(round(self.now.to_seconds(), 6))


def run(times, concurrency):
    sink = Sink()
    srv = Server("srv", concurrency=concurrency, service_time=ConstantLatency(1.0), downstream=sink)
    sim = Simulation(start_time=Instant.Epoch, duration=20, entities=[srv, sink])
    for k, t in enumerate(times):
        sim.schedule(Event(time=Instant.from_seconds(t), event_type="req", target=srv, context={"k": k}))
    sim.run()
    return sink.t


def main():
    ok = True
    for times, c, want in (([0.0] * 4, 2, [1.0, 1.0, 2.0, 2.0]), ([0.0] * 3, 3, [1.0, 1.0, 1.0]), ([0.0, 0.0, 0.5, 0.5], 2, [1.0, 1.0, 2.0, 2.0]),
                           ([0.0, 0.1, 0.2, 0.3], 2, [1.0, 1.1, 2.0, 2.1]), ([0.0] * 3, 1, [1.0, 2.0, 3.0])):
        got = run(times, c)
        good = got == want
        ok &= good
        print(f"arrivals {times} concurrency {c}: completions {got} {'ok' if good else 'EXPECTED ' + str(want)}")
    print("RESULT:", "ok" if ok else "DEFECT: work waited while the server had free capacity")
    return 0 if ok else 1


sys.exit(main())
