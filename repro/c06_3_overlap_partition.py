"""C06-3 (partition): overlapping partition windows sharing a node pair do not compose.

Property clause (C06): "A partition ... is in effect for its target exactly while at least one fault
window covering that target is active, whatever other faults overlap it, and once every window has ended
the system is back to its configured state."

`Network.partition()` adds the blocked pairs to one set shared by all partitions
(`Network._partitioned_pairs` / `_directed_partitions`) and `Partition.heal()`
(happysimulator/components/network/network.py) subtracts its own pairs from that set, so healing one
partition also removes a pair that another, still active, partition blocks.

Nodes a, b, c fully linked (1 ms).  Probes a->b at t = 5, 15, 25, 35, 45 s.
  1. staggered: NetworkPartition([a],[b]) on [10,30)   and NetworkPartition([a],[b,c]) on [20,40)
  2. nested   : NetworkPartition([a],[b,c]) on [10,40) and NetworkPartition([a],[b]) on [20,30)
  3. asymmetric (directed pairs), staggered as in 1.
Expected: probes at 15, 25, 35 are dropped by the partition; 5 and 45 arrive.
Observed: the probe at t=35 arrives -- the heal at t=30 removed the pair {a,b} that the other partition
still blocks.

Run: /venv/bin/python /verif/repro/c06_3_overlap_partition.py   (exit 1 = defect present, 0 = absent)
     HS_ROOT=/path/to/tree selects another source tree.
"""
import os
import sys

sys.path.insert(0, os.environ.get("HS_ROOT", "/repo"))
from happysimulator.components.network.link import NetworkLink
from happysimulator.components.network.network import Network
from happysimulator.core.entity import Entity
from happysimulator.core.event import Event
from happysimulator.core.simulation import Simulation
from happysimulator.core.temporal import Instant
from happysimulator.distributions.constant import ConstantLatency
from happysimulator.faults import FaultSchedule, NetworkPartition


class Node(Entity):
    def __init__(self, name):
        super().__init__(name)
        self.got = []

    def handle_event(self, event):
        self.got.append(event.context["metadata"]["sent_at"])


def scenario(label, faults):
    a, b, c = Node("a"), Node("b"), Node("c")
    net = Network(name="net")
    for x, y in ((a, b), (a, c), (b, c)):
        net.add_bidirectional_link(x, y, NetworkLink(name=f"{x.name}{y.name}", latency=ConstantLatency(0.001)))
    schedule = FaultSchedule()
    for f in faults:
        schedule.add(f)
    sim = Simulation(end_time=Instant.from_seconds(60.0), entities=[a, b, c, net], fault_schedule=schedule)
    flags = {}

    def send(e):
        flags[e.time.to_seconds()] = net.is_partitioned("a", "b")
        return [net.send(a, b, "probe", payload={"sent_at": e.time.to_seconds()})]

    for t in (5.0, 15.0, 25.0, 35.0, 45.0):
        sim.schedule(Event.once(time=Instant.from_seconds(t), event_type="send", fn=send))
    sim.run()

    bad = 0
    for t in (5.0, 15.0, 25.0, 35.0, 45.0):
        active = [f"{f.group_a}|{f.group_b}[{f.start:g},{f.end:g})" for f in faults if f.start <= t < f.end]
        arrived = t in b.got
        ok = arrived == (not active)
        print(f"{label} t={t:>4}: is_partitioned(a,b)={flags[t]} arrived={arrived} active={active} {'ok' if ok else 'WRONG'}")
        bad += not ok
    clean = not net._partitioned_pairs and not net._directed_partitions
    print(f"{label} after all windows: no pairs left blocked: {clean}")
    return bad + (not clean)


bad = 0
bad += scenario("staggered ", [NetworkPartition(["a"], ["b"], 10.0, 30.0), NetworkPartition(["a"], ["b", "c"], 20.0, 40.0)])
bad += scenario("nested    ", [NetworkPartition(["a"], ["b", "c"], 10.0, 40.0), NetworkPartition(["a"], ["b"], 20.0, 30.0)])
bad += scenario("asymmetric", [NetworkPartition(["a"], ["b"], 10.0, 30.0, asymmetric=True), NetworkPartition(["a"], ["b", "c"], 20.0, 40.0, asymmetric=True)])
print("DEFECT PRESENT" if bad else "defect absent")
sys.exit(1 if bad else 0)
