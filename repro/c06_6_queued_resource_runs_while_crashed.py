"""C06-6: a queue-fronted target (QueuedResource) keeps executing queued and in-flight work while crashed.

Property clause (C06): "While an entity is crashed or paused by a fault it executes nothing: no handler
runs, no in-flight process advances, and it emits no events" -- quantified over "queue-fronted targets".

`CrashNode("server")` sets `_crashed` on the QueuedResource object, but dequeued work is re-targeted by
the QueueDriver to the internal `_QueuedResourceWorkerAdapter` (`server._worker`), which has no such
flag; the internal Queue and QueueDriver entities do not have it either.  Only *new* arrivals addressed
to the QueuedResource itself are dropped; everything already buffered is served during the outage.

Schedule: 5 requests arrive at t=0.0 .. 0.4 s; service takes 1 s each, one at a time (has_capacity);
`CrashNode("server", at=1.5, restart_at=10.0)`.  Expected: no handler start / resume / emission in
[1.5, 10).  Observed: the queue is drained at t=2,3,4,5 s and the sink receives "Done" at those times.

Run: /venv/bin/python /verif/repro/c06_6_queued_resource_runs_while_crashed.py  (exit 1 = defect present)
     HS_ROOT=/path/to/tree selects another source tree.
"""
import os
import sys

sys.path.insert(0, os.environ.get("HS_ROOT", "/repo"))
from happysimulator.components.queued_resource import QueuedResource
from happysimulator.core.entity import Entity
from happysimulator.core.event import Event
from happysimulator.core.simulation import Simulation
from happysimulator.core.temporal import Instant
from happysimulator.faults import CrashNode, FaultSchedule


class Sink(Entity):
    def __init__(self, name):
        super().__init__(name)
        self.seen = []

    def handle_event(self, event):
        self.seen.append((event.time.to_seconds(), event.event_type))


class Server(QueuedResource):
    def __init__(self, name, sink):
        super().__init__(name)
        self.sink = sink
        self.busy = False
        self.activity = []

    def has_capacity(self):
        return not self.busy

    def handle_queued_event(self, event):
        self.busy = True
        self.activity.append((self.now.to_seconds(), "start"))
        yield 1.0
        self.activity.append((self.now.to_seconds(), "finish"))
        self.busy = False
        return [Event(time=self.now, event_type="Done", target=self.sink)]


sink = Sink("sink")
server = Server("server", sink)
schedule = FaultSchedule()
schedule.add(CrashNode("server", at=1.5, restart_at=10.0))
sim = Simulation(end_time=Instant.from_seconds(20.0), entities=[server, sink], fault_schedule=schedule)
for i in range(5):
    sim.schedule(Event(time=Instant.from_seconds(0.1 * i), event_type="Request", target=server))
sim.run()

down = [a for a in server.activity if 1.5 <= a[0] < 10.0]
emitted = [s for s in sink.seen if 1.5 <= s[0] < 10.0]
print("server activity:", server.activity)
print("sink:", sink.seen)
print("activity while crashed [1.5,10):", down)
print("emissions while crashed:", emitted)
bad = len(down) + len(emitted)
print("DEFECT PRESENT" if bad else "defect absent")
sys.exit(1 if bad else 0)
