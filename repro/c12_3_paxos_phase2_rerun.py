"""C12-3 (single-decree Paxos): "any two nodes that report a decided value report the same value" fails because
phase 2 is started again by every promise that arrives after the quorum was reached.

Code: paxos.py `_handle_promise`: `if len(self._phase1_responses[b]) >= self.quorum_size: return self._start_phase2(b)`
has no once-per-ballot latch. `_start_phase2` recomputes the value from *all* promises so far (a late promise
carrying an accepted value changes it), overwrites `_proposed_values[b]`, resets the accept tally and sends a
second round of Accept messages -> two different values are sent under the same ballot, and the proposer
decides the second value on the strength of Accepted answers that were given for the first.

Schedule (3 nodes n1,n2,n3, quorum 2; real Network, 10 ms links, n1->n3 15 ms; Network.partition for loss):
  0.00  n1 proposes "vC" (ballot (1,n1)); its Prepare reaches only n2; n2 promises; n1 self-accepts
        ((1,n1),"vC"); its Accept messages are lost.           [n1: accepted ((1,n1),"vC")]
  1.00  n3 proposes "vP" (ballot (1,n3) > (1,n1)), Prepare to n1, n2.
  1.02  promise of n2 (nothing accepted) -> quorum -> phase 2 #1: Accept((1,n3),"vP") to n1, n2.
  1.025 late promise of n1 (accepted ((1,n1),"vC")) -> phase 2 #2: value switches to "vC", tally reset,
        Accept((1,n3),"vC") is sent - and lost (n3 cut off in the sending direction from 1.022 on).
  1.03  n1 and n2 accept ((1,n3),"vP") and answer Accepted.
  1.04  n3 counts that answer towards the *new* value and decides "vC".  Nobody but n3 holds "vC" under (1,n3).
  2.00  n2 proposes "vX" (ballot (2,n2)); promises of n2, n1 both report ((1,n3),"vP") -> n2 must propose "vP",
        n1 accepts, n2 decides "vP".
  => n3 decided "vC", n2 decided "vP".

Run: /venv/bin/python /verif/repro/c12_3_paxos_phase2_rerun.py      (exit 1 = defect present, 0 = absent)
     HS_ROOT=/path/to/worktree to run against another checkout.
"""
import os
import random
import sys

sys.path.insert(0, os.environ.get("HS_ROOT", "/repo"))

from happysimulator.components.consensus.paxos import PaxosNode  # noqa: E402
from happysimulator.components.network.link import NetworkLink  # noqa: E402
from happysimulator.components.network.network import Network  # noqa: E402
from happysimulator.core.event import Event  # noqa: E402
from happysimulator.core.simulation import Simulation  # noqa: E402
from happysimulator.core.temporal import Instant  # noqa: E402
from happysimulator.distributions.constant import ConstantLatency  # noqa: E402

random.seed(0)
sent = []


class RecordingNetwork(Network):
    """Real Network; additionally remembers every message the nodes hand to it."""

    def send(self, source, destination, event_type, payload=None, daemon=False):
        sent.append((round(self.now.to_seconds(), 4), source.name, destination.name, event_type, dict(payload or {})))
        return super().send(source, destination, event_type, payload, daemon)


net = RecordingNetwork(name="net")
n1, n2, n3 = (PaxosNode(f"n{i}", net) for i in (1, 2, 3))
nodes = [n1, n2, n3]
for n in nodes:
    n.set_peers(nodes)
for a in nodes:
    for b in nodes:
        if a is not b:
            d = 0.015 if (a.name, b.name) == ("n1", "n3") else 0.01
            net.add_link(a, b, NetworkLink(name=f"{a.name}->{b.name}", latency=ConstantLatency(d)))

sim = Simulation(end_time=Instant.from_seconds(3.0), entities=[net, *nodes])
futures = {}
parts = {}


def at(t, fn):
    sim.schedule(Event.once(time=Instant.from_seconds(t), event_type=f"script@{t}", fn=lambda e: fn()))


def propose(n, v):
    futures[(n.name, v)] = n.propose(v)
    return n.start_phase1()  # returned events are scheduled by the engine


at(0.0, lambda: parts.__setitem__("a", net.partition([n1], [n3], asymmetric=True)))
at(0.0, lambda: propose(n1, "vC"))
at(0.015, lambda: parts.__setitem__("b", net.partition([n1], [n2], asymmetric=True)))
at(0.5, lambda: (parts["a"].heal(), parts["b"].heal()) and None)
at(1.0, lambda: propose(n3, "vP"))
at(1.022, lambda: parts.__setitem__("c", net.partition([n3], [n1, n2], asymmetric=True)))
at(2.0, lambda: propose(n2, "vX"))
sim.run()

accepts: dict[tuple, list] = {}
for t, src, dst, typ, p in sent:
    if typ == "PaxosAccept":
        vals = accepts.setdefault((p["ballot_number"], p["ballot_node"]), [])
        if p["value"] not in vals:
            vals.append(p["value"])
print("values carried by Accept messages per ballot:", accepts)
for n in nodes:
    print(n.name, "decided:", n.is_decided, repr(n.decided_value))
print("futures:", {k: (f.value if f.is_resolved else "<pending>") for k, f in futures.items()})

two_values = {b: v for b, v in accepts.items() if len(v) > 1}
decided = {n.name: n.decided_value for n in nodes if n.is_decided}
bad = []
if two_values:
    bad.append(f"two different values proposed under one ballot: {two_values}")
if len(set(decided.values())) > 1:
    bad.append(f"nodes decided different values: {decided}")
for b in bad:
    print("DEFECT:", b)
sys.exit(1 if bad else 0)
