import os
import sys

sys.path.insert(0, os.environ.get("HS_ROOT", "/repo"))

"""C19_1: messages re-processed out of the DeadLetterQueue vanish.

DeadLetterQueue.reprocess()/reprocess_all(queue) removes the messages from the
DLQ and returns "republish" events targeted at the MessageQueue, but
MessageQueue.handle_event() has no branch for "republish": the events are
swallowed and the messages are neither pending, in flight, acknowledged nor
dead-lettered any more.
"""

from happysimulator.components.messaging import DeadLetterQueue, MessageQueue
from happysimulator.core.callback_entity import NullEntity
from happysimulator.core.entity import Entity
from happysimulator.core.event import Event
from happysimulator.core.simulation import Simulation
from happysimulator.core.temporal import Instant

N = 3


class Consumer(Entity):
    """Rejects everything until t=5 (a 'broken' period), acknowledges afterwards."""

    def __init__(self, queue):
        super().__init__("consumer")
        self.queue = queue
        self.acked = []
        self.rejected = []

    def handle_event(self, event):
        if event.event_type != "message_delivery":
            return None
        mid = event.context["message_id"]
        tag = event.context["payload"].context["tag"]
        if self.now.to_seconds() < 5.0:
            self.rejected.append(tag)
            self.queue.reject(mid, requeue=True)
        else:
            self.acked.append(tag)
            self.queue.acknowledge(mid)
        return None


class Driver(Entity):
    """Publishes N messages, later asks the DLQ to reprocess them."""

    def __init__(self, queue, dlq):
        super().__init__("driver")
        self.queue = queue
        self.dlq = dlq
        self.reprocess_events = 0

    def handle_event(self, event):
        if event.event_type == "publish_all":
            for i in range(N):
                payload = Event(time=self.now, event_type="order", target=NullEntity(),
                                context={"tag": f"m{i}"})
                yield from self.queue.publish(payload)
            return None
        if event.event_type == "reprocess":
            events = self.dlq.reprocess_all(self.queue)
            self.reprocess_events = len(events)
            return events
        return None


dlq = DeadLetterQueue(name="dlq")
queue = MessageQueue(name="orders", delivery_latency=0.001, max_redeliveries=1,
                     dead_letter_queue=dlq)
consumer = Consumer(queue)
driver = Driver(queue, dlq)
queue.subscribe(consumer)

sim = Simulation(start_time=Instant.Epoch, end_time=Instant.from_seconds(20.0),
                 entities=[queue, dlq, consumer, driver])


def at(t, etype, target):
    sim.schedule(Event(time=Instant.from_seconds(t), event_type=etype, target=target))


at(0.0, "publish_all", driver)
for k in range(N):                       # first deliveries: all rejected -> DLQ
    at(1.0 + 0.1 * k, "poll", queue)
at(6.0, "reprocess", driver)             # consumer is healthy again: replay the DLQ
for k in range(2 * N):                   # plenty of polls to drain whatever came back
    at(7.0 + 0.1 * k, "poll", queue)
sim.run()

st = queue.stats
print(f"published            : {st.messages_published}")
print(f"rejected by consumer : {consumer.rejected}")
print(f"dead-lettered        : {st.messages_dead_lettered}")
print(f"republish events returned by dlq.reprocess_all(queue): {driver.reprocess_events}")
print(f"after reprocessing   : dlq={dlq.message_count} pending={queue.pending_count} "
      f"in_flight={queue.in_flight_count} acked={consumer.acked}")
accounted = dlq.message_count + queue.pending_count + queue.in_flight_count + len(consumer.acked)
print(f"accounted for        : {accounted} of {N}")
print("property requires    : every published message stays pending / in flight / "
      "acknowledged / dead-lettered (never lost)")
if accounted < N:
    print(f"VIOLATION: {N - accounted} message(s) removed from the DLQ were never "
          "re-published into the queue -- lost")
    sys.exit(1)
print("OK")
sys.exit(0)
