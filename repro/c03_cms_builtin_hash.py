"""C03 (and C20-4): CountMinSketch._hash is built on builtin hash(item), which is randomised per
process for str/bytes items (PYTHONHASHSEED).

Property clause that fails: "Building the same model with the same seeds and running it yields ...
identical component statistics, regardless of ... the interpreter's hash randomisation".
The same model (a Source-free event stream of 400 string customer ids routed into a
SketchCollector wrapping CountMinSketch(width=16, depth=3, seed=42)) is run under the real engine in
fresh interpreters that differ only in PYTHONHASHSEED.  The counter matrix and the estimates differ.
(The Bloom filter and HyperLogLog, fed the same stream in the same run, are identical across
processes because they hash repr(item) with sha256.)

Run: /venv/bin/python /verif/repro/c03_cms_builtin_hash.py      (exit 1 = defect present)
     HS_ROOT=/path/to/worktree /venv/bin/python ...              (check another tree)
"""
import hashlib
import json
import os
import subprocess
import sys

ROOT = os.environ.get("HS_ROOT", "/repo")


def child() -> None:
    sys.path.insert(0, ROOT)
    import random

    from happysimulator.components.sketching.sketch_collector import SketchCollector
    from happysimulator.core.event import Event
    from happysimulator.core.simulation import Simulation
    from happysimulator.core.temporal import Instant
    from happysimulator.sketching.bloom_filter import BloomFilter
    from happysimulator.sketching.count_min_sketch import CountMinSketch
    from happysimulator.sketching.hyperloglog import HyperLogLog

    random.seed(7)
    cms = CountMinSketch(width=16, depth=3, seed=42)
    bf = BloomFilter(size_bits=256, num_hashes=3, seed=42)
    hll = HyperLogLog(precision=4, seed=42)
    ext = lambda e: e.context["customer_id"]  # noqa: E731
    c_cms = SketchCollector("cms", cms, ext)
    c_bf = SketchCollector("bf", bf, ext)
    c_hll = SketchCollector("hll", hll, ext)
    sim = Simulation(end_time=Instant.from_seconds(100), entities=[c_cms, c_bf, c_hll])
    rng = random.Random(11)
    for i in range(400):
        cid = f"customer-{int(rng.paretovariate(1.2)) % 40}"
        for tgt in (c_cms, c_bf, c_hll):
            sim.schedule(
                Event(
                    time=Instant.from_seconds(1 + i * 0.1),
                    event_type="req",
                    target=tgt,
                    context={"customer_id": cid},
                )
            )
    sim.run()
    est = [cms.estimate(f"customer-{k}") for k in range(40)]
    out = {
        "cms": hashlib.sha256(json.dumps([cms._counters, est]).encode()).hexdigest()[:16],
        "cms_estimates_head": est[:8],
        "bloom": hashlib.sha256(json.dumps(bf._bits).encode()).hexdigest()[:16],
        "hll": hashlib.sha256(json.dumps(hll._registers).encode()).hexdigest()[:16],
    }
    print(json.dumps(out))


def main() -> int:
    results = {}
    procs = {
        hs: subprocess.Popen([sys.executable, os.path.abspath(__file__), "--child"],
                             env=dict(os.environ, PYTHONHASHSEED=hs, HS_ROOT=ROOT),
                             stdout=subprocess.PIPE, stderr=subprocess.PIPE, text=True)
        for hs in ("1", "2", "3")
    }  # fresh interpreters, started concurrently
    for hs, p in procs.items():
        out, err = p.communicate()
        if p.returncode != 0:
            print(err)
            return 2
        results[hs] = json.loads(out.strip().splitlines()[-1])
        print(f"PYTHONHASHSEED={hs}: {results[hs]}")
    bad = False
    for name in ("cms", "bloom", "hll"):
        digests = {r[name] for r in results.values()}
        same = len(digests) == 1
        print(f"{name:5s}: {'identical' if same else 'DIFFERS'} across hash seeds")
        bad |= not same
    print("DEFECT PRESENT" if bad else "ok: sketch state independent of PYTHONHASHSEED")
    return 1 if bad else 0


if __name__ == "__main__":
    if "--child" in sys.argv:
        child()
    else:
        sys.exit(main())
