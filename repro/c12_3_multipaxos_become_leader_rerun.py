"""C12-3 (Multi-Paxos / Flexible Paxos variant): a slot is committed although fewer than a quorum of acceptors
accepted it, because `_become_leader` runs again for every promise that arrives after the phase-1 quorum was
reached. Agreement per slot ("any two nodes that report a decided value for the same slot report the same
value") fails.

Code: multi_paxos.py / flexible_paxos.py `_handle_promise`:
`if len(self._phase1_responses[b]) >= quorum: return self._become_leader()` has no once-per-ballot latch.
Each re-run re-sends Accept for every uncommitted slot; an acceptor answers each copy with Accepted, and
`_handle_accepted` counts answers (an int per slot), so one acceptor is counted several times.

Schedule (5 nodes n1..n5, quorum 3; real Network; links 10 ms, n4->n1 20 ms, n5->n1 30 ms;
Network.partition for loss):
  0.00  client submits "a" to n1, n1 sends Prepare (ballot (1,n1)) to n2..n5.
  0.015 n1 -> {n3,n4,n5} becomes lossy (asymmetric partition): from now on only n2 hears n1.
  0.02  promises of n2, n3 -> quorum -> n1 leader, slot 1 := "a", Accept to all (only n2 receives it).
  0.03  late promise of n4 -> _become_leader again -> Accept(slot 1) sent again.   0.04 same for n5's promise.
  0.04/0.05/0.06  n2's three Accepted answers: acks 1+3 >= 3 -> n1 commits and applies "a" at 0.05.
        "a" is stored on n1 and n2 only (2 of 5).
  0.50  {n1,n2} | {n3,n4,n5}; client submits "b" to n5; n5 runs phase 1 (ballot (1,n5)), n3 and n4 promise (their
        logs are empty - no promise could possibly report "a"), slot 1 := "b", accepted by n3, n4: committed.
  => slot 1 decided as "a" on n1 and as "b" on n5 (independent of candidate C12-4: here no acceptor in n5's
     quorum ever accepted "a").

Run: /venv/bin/python /verif/repro/c12_3_multipaxos_become_leader_rerun.py   (exit 1 = defect present)
     HS_ROOT=/path/to/worktree to run against another checkout.
"""
import os
import random
import sys

sys.path.insert(0, os.environ.get("HS_ROOT", "/repo"))

from happysimulator.components.consensus.flexible_paxos import FlexiblePaxosNode  # noqa: E402
from happysimulator.components.consensus.multi_paxos import MultiPaxosNode  # noqa: E402
from happysimulator.components.network.link import NetworkLink  # noqa: E402
from happysimulator.components.network.network import Network  # noqa: E402
from happysimulator.core.event import Event  # noqa: E402
from happysimulator.core.simulation import Simulation  # noqa: E402
from happysimulator.core.temporal import Instant  # noqa: E402
from happysimulator.distributions.constant import ConstantLatency  # noqa: E402


class RecordingSM:
    def __init__(self):
        self.applied = []

    def apply(self, command):
        self.applied.append(command)
        return f"result-of-{command}"

    def snapshot(self):
        return list(self.applied)

    def restore(self, snapshot):
        self.applied = list(snapshot)


def run(cls):
    random.seed(0)
    accepts_sent = []

    class RecordingNetwork(Network):
        def send(self, source, destination, event_type, payload=None, daemon=False):
            if event_type.endswith("Accept"):
                accepts_sent.append((round(self.now.to_seconds(), 3), source.name, destination.name,
                                     payload["slot"], payload["command"]))
            return super().send(source, destination, event_type, payload, daemon)

    net = RecordingNetwork(name="net")
    extra = {"phase1_quorum": 3, "phase2_quorum": 3} if cls is FlexiblePaxosNode else {}
    nodes = [cls(f"n{i}", net, state_machine=RecordingSM(), **extra) for i in range(1, 6)]
    n1, n2, n3, n4, n5 = nodes
    for n in nodes:
        n.set_peers(nodes)
    delay = {("n4", "n1"): 0.02, ("n5", "n1"): 0.03}
    for a in nodes:
        for b in nodes:
            if a is not b:
                d = delay.get((a.name, b.name), 0.01)
                net.add_link(a, b, NetworkLink(name=f"{a.name}->{b.name}", latency=ConstantLatency(d)))
    sim = Simulation(end_time=Instant.from_seconds(0.9), entities=[net, *nodes])
    futures = {}
    snapshots = {}

    def at(t, fn):
        sim.schedule(Event.once(time=Instant.from_seconds(t), event_type=f"script@{t}", fn=lambda e: fn()))

    def submit_and_campaign(n, cmd):
        futures[cmd] = n.submit(cmd)  # queued: n is not leader yet
        return n.start()  # phase 1; the pending command is proposed on becoming leader

    def snap(label):
        snapshots[label] = {n.name: ([e.command for e in n.log.entries_after(0)], n.log.commit_index) for n in nodes}

    at(0.0, lambda: submit_and_campaign(n1, "a"))
    at(0.015, lambda: net.partition([n1], [n3, n4, n5], asymmetric=True) and None)
    at(0.4, lambda: snap("t=0.4"))
    at(0.5, lambda: net.partition([n1, n2], [n3, n4, n5]) and None)
    at(0.5, lambda: submit_and_campaign(n5, "b"))
    sim.run()

    print(f"--- {cls.__name__}")
    print("Accept messages n1 -> n2 (time, slot, command):", [(t, s, c) for t, a, b, s, c in accepts_sent if (a, b) == ("n1", "n2")])
    print("t=0.4 (log, commit_index):", snapshots["t=0.4"])
    decided = {}
    for n in nodes:
        committed = [e.command for e in n.log.committed_entries()]
        print(f"{n.name}: log {[e.command for e in n.log.entries_after(0)]} committed {committed} applied {n._state_machine.applied}")
        if n._state_machine.applied:
            decided[n.name] = n._state_machine.applied[0]
    print("client futures:", {c: (f.value if f.is_resolved else "<pending>") for c, f in futures.items()})
    bad = False
    s = snapshots["t=0.4"]
    holders = [k for k, (log, _c) in s.items() if "a" in log]
    if s["n1"][1] >= 1 and len(holders) < 3:
        print(f"DEFECT: n1 committed slot 1 at t<=0.4 while only {holders} (of 5, quorum 3) store it")
        bad = True
    if len(set(decided.values())) > 1:
        print(f"DEFECT: slot 1 decided differently: {decided}")
        bad = True
    return bad


results = [run(MultiPaxosNode), run(FlexiblePaxosNode)]
sys.exit(1 if any(results) else 0)
