import os
import sys

sys.path.insert(0, os.environ.get("HS_ROOT", "/repo"))

"""C15_2: with SyncOnBatch / SyncPeriodic, WriteAheadLog.append() calls of concurrent writers
finish OUT OF LOG ORDER (an append that has to fsync takes 1.1 ms, a later append that does not
takes 0.1 ms and overtakes it).  LSMTree.put()/delete() applies each write to the memtable when
its append finishes, so the memtable (and the SSTables flushed from it) order the two writes
differently from the write-ahead log.  Recovery replays the log in sequence order: the value that
every read had reported as overwritten comes back after crash + recovery, although every single
write had been fsynced.

Scenario: SyncOnBatch(2), default latencies (append 0.1 ms, fsync 1 ms), six writes:

  seq  start     key  value   append finishes
  1    0.0 ms    a    1       0.1 ms  (no sync)
  2    0.2 ms    b    2       1.3 ms  (batch full -> fsync)
  3    1.0 ms    k    "old"   2.1 ms  (counter still >= 2 -> fsync)
  4    1.4 ms    k    "new"   1.5 ms  (counter was reset at 1.3 ms -> no sync)   <-- overtakes seq 3
  5    3.0 ms    c    5       3.1 ms
  6    3.2 ms    d    6       4.3 ms  (fsync: synced_up_to = 6, the whole log is durable)

  log order for k      : "old" (seq 3), "new" (seq 4)   -> latest value "new"
  memtable apply order : "new" (1.5 ms), "old" (2.1 ms) -> reads return "old"
"""

import logging

from happysimulator.components.storage.lsm_tree import LSMTree
from happysimulator.components.storage.wal import SyncOnBatch, WriteAheadLog
from happysimulator.core.entity import Entity
from happysimulator.core.event import Event
from happysimulator.core.simulation import Simulation
from happysimulator.core.temporal import Instant

logging.disable(logging.CRITICAL)

obs = {"acks": []}


class Client(Entity):
    def __init__(self, name, lsm):
        super().__init__(name)
        self.lsm = lsm

    def handle_event(self, event):
        if event.event_type == "put":
            key, value = event.context["kv"]
            seq = self.lsm._wal._next_sequence
            yield from self.lsm.put(key, value)
            obs["acks"].append((seq, key, value, round(self.now.to_seconds() * 1000, 3)))
        elif event.event_type == "read":
            obs[event.context["tag"]] = self.lsm.get_sync("k")


class Power(Entity):
    def __init__(self, name, lsm):
        super().__init__(name)
        self.lsm = lsm

    def handle_event(self, event):
        wal = self.lsm._wal
        obs["synced_up_to_at_crash"] = wal.synced_up_to
        obs["last_seq_at_crash"] = wal._next_sequence - 1
        obs["crash_summary"] = self.lsm.crash()
        self.lsm.recover_from_crash()


wal = WriteAheadLog("wal", sync_policy=SyncOnBatch(batch_size=2))
lsm = LSMTree("lsm", memtable_size=100, wal=wal)
client = Client("client", lsm)
power = Power("power", lsm)
sim = Simulation(
    start_time=Instant.Epoch,
    end_time=Instant.from_seconds(1.0),
    entities=[lsm, wal, client, power],
)


def at(t, kind, target, **ctx):
    sim.schedule(Event(time=Instant.from_seconds(t), event_type=kind, target=target, context=ctx))


at(0.0000, "put", client, kv=("a", 1))
at(0.0002, "put", client, kv=("b", 2))
at(0.0010, "put", client, kv=("k", "old"))
at(0.0014, "put", client, kv=("k", "new"))
at(0.0030, "put", client, kv=("c", 5))
at(0.0032, "put", client, kv=("d", 6))
at(0.0080, "read", client, tag="before_crash")
at(0.0090, "crash", power)
at(0.0100, "read", client, tag="after_recovery")
sim.run()

print("acknowledgements in completion order (seq, key, value, t_ms):")
for a in obs["acks"]:
    print("   ", a)
print("synced_up_to / last sequence at crash :", obs["synced_up_to_at_crash"], "/", obs["last_seq_at_crash"])
print("WAL entries lost in the crash         :", obs["crash_summary"]["wal_entries_lost"])
print("get('k') before the crash             :", obs["before_crash"])
print("get('k') after crash + recovery       :", obs["after_recovery"])
print()
print("Required: nothing was lost in the crash (every write was fsynced), so recovery must")
print("give back exactly the pre-crash state; a value that reads reported as overwritten must")
print("not come back.")

all_synced = obs["synced_up_to_at_crash"] == obs["last_seq_at_crash"]
if all_synced and obs["before_crash"] != obs["after_recovery"]:
    print(
        f"VIOLATION: 'k' read {obs['before_crash']!r} before the crash and "
        f"{obs['after_recovery']!r} after recovery: memtable order != log order."
    )
    sys.exit(1)
print("OK: state after recovery equals state before the crash.")
sys.exit(0)
