"""C11-7: Raft leader commits (and acknowledges to the client) entries that no other node stores, because
`match_index[follower]` is taken from the follower's *own last log index*, not from the entries the
AppendEntries request carried. Consequences shown: "an entry once committed is present in the log of every
later leader" and "no two nodes ever apply different commands at the same log index" both fail.

Code: raft.py `_handle_append_entries` answers success with `"match_index": self._log.last_index`;
`_handle_append_entries_response` stores it into `_match_index` / `_next_index`; `_try_advance_commit` counts it.
A follower whose log is longer than the leader's (uncommitted entries of a deposed leader) passes the
consistency check of a heartbeat with prev_log_index=0 and reports its own, divergent, length.

Schedule (3 nodes F, L, G; election timeouts fixed to 1.0 / 1.5 / 5.0 s, heartbeat 0.2 s; real Network with
constant 10 ms links except F->L 50 ms; partitions via Network.partition):
  1.00  F times out, is elected leader of term 1 by L and G (1.02).
  1.05  partition {F} | {L,G}.   1.06  client submits Y1, Y2 to F (never replicated: F is cut off).
  2.57  L times out, is elected leader of term 2 by G (both logs empty).   2.65 partition healed.
  2.79  L's heartbeat AppendEntries(term 2, prev_log_index=0, entries=[]) -> at 2.80 F steps down, keeps its
        log [Y1,Y2], answers success with match_index = 2 (its own last index); the answer needs 50 ms.
  2.82  client submits X1, X2 to L (log of L: [X1,X2], term 2; nothing has been sent to anybody yet).
  2.85  F's answer reaches L: match_index[F] = 2 -> _try_advance_commit: 1 + 1 >= 2 -> L commits and applies
        X1, X2 and resolves both client futures. No other node stores X1 or X2.
  2.90  partition {L} | {F,G}.
  3.80  F times out, is elected leader of term 3 by G (F's log is the more up-to-date one); 3.90 a client
        submits Z; F replicates [Y1,Y2,Z] to G and commits: F and G apply Y1, Y2, Z.
  => index 1: L applied X1, F and G applied Y1.  The later leader F does not hold the committed X1/X2.

Run: /venv/bin/python /verif/repro/c11_7_raft_match_index.py      (exit 1 = defect present, 0 = absent)
     HS_ROOT=/path/to/worktree to run against another checkout.
"""
import os
import random
import sys

sys.path.insert(0, os.environ.get("HS_ROOT", "/repo"))

from happysimulator.components.consensus.raft import RaftNode  # noqa: E402
from happysimulator.components.network.link import NetworkLink  # noqa: E402
from happysimulator.components.network.network import Network  # noqa: E402
from happysimulator.core.event import Event  # noqa: E402
from happysimulator.core.simulation import Simulation  # noqa: E402
from happysimulator.core.temporal import Instant  # noqa: E402
from happysimulator.distributions.constant import ConstantLatency  # noqa: E402

random.seed(0)


class RecordingSM:
    """StateMachine protocol implementation that remembers what was applied, in order."""

    def __init__(self):
        self.applied = []

    def apply(self, command):
        self.applied.append(command)
        return f"applied:{command}"

    def snapshot(self):
        return list(self.applied)

    def restore(self, snapshot):
        self.applied = list(snapshot)


net = Network(name="net")


def node(name, timeout):
    return RaftNode(name, net, state_machine=RecordingSM(), election_timeout_min=timeout,
                    election_timeout_max=timeout, heartbeat_interval=0.2)


F, L, G = node("F", 1.0), node("L", 1.5), node("G", 5.0)
nodes = [F, L, G]
for n in nodes:
    n.set_peers(nodes)
for a in nodes:
    for b in nodes:
        if a is not b:
            d = 0.05 if (a.name, b.name) == ("F", "L") else 0.01
            net.add_link(a, b, NetworkLink(name=f"{a.name}->{b.name}", latency=ConstantLatency(d)))

sim = Simulation(end_time=Instant.from_seconds(5.0), entities=[net, *nodes])
for n in nodes:
    for e in n.start():
        sim.schedule(e)

trace = []
futures = {}
parts = {}


def at(t, fn):
    sim.schedule(Event.once(time=Instant.from_seconds(t), event_type=f"script@{t}", fn=lambda e: fn()))


def submit(n, cmd):
    assert n.is_leader, f"{n.name} is not leader at {n.now}"
    futures[cmd] = n.submit(cmd)


def snap(label):
    trace.append((label, {n.name: (n.state.name, n.current_term, [e.command for e in n.log.entries_after(0)],
                                   n.log.commit_index) for n in nodes}))


at(1.05, lambda: parts.__setitem__("p1", net.partition([F], [L, G])))
at(1.06, lambda: (submit(F, "Y1"), submit(F, "Y2")))
at(2.65, lambda: parts["p1"].heal())
at(2.82, lambda: (submit(L, "X1"), submit(L, "X2")))
at(2.84, lambda: snap("t=2.84 before F's answer reaches L"))
at(2.86, lambda: snap("t=2.86 after F's answer reached L"))
at(2.90, lambda: parts.__setitem__("p2", net.partition([L], [F, G])))
at(3.90, lambda: submit(F, "Z"))
at(4.90, lambda: snap("t=4.9 end"))
sim.run()

for label, s in trace:
    print(label)
    for k, v in s.items():
        print("   ", k, v)
print("client futures:", {c: (f.value if f.is_resolved else "<pending>") for c, f in futures.items()})
applied = {n.name: n._state_machine.applied for n in nodes}
print("applied sequences:", applied)

bad = []
# (a) commit acknowledged to a client while the entry is stored on a minority
after = dict(trace)["t=2.86 after F's answer reached L"]
holders_x1 = [k for k, v in after.items() if "X1" in v[2]]
if futures["X1"].is_resolved and len(holders_x1) < 2:
    bad.append(f"X1 committed/acknowledged at t<=2.86 while stored only on {holders_x1}")
# (b) different commands applied at the same index
for i in range(max(len(a) for a in applied.values())):
    at_i = {name: a[i] for name, a in applied.items() if len(a) > i}
    if len(set(at_i.values())) > 1:
        bad.append(f"index {i + 1}: different commands applied: {at_i}")
# (c) committed entry missing from a later leader's log
if F.is_leader and F.current_term > 2 and "X1" in applied["L"] and "X1" not in [e.command for e in F.log.entries_after(0)]:
    bad.append(f"X1 was committed in term 2 but leader F of term {F.current_term} does not hold it")
for b in bad:
    print("DEFECT:", b)
sys.exit(1 if bad else 0)
