"""Repro: MultiTierCache.delete() invalidates the tiers BEFORE the backing-store
delete lands; a get() inside that window re-caches the doomed value in L1, and
reads issued after the delete has completed keep returning the deleted value.

Property: a read issued after a write (or delete) to the same key has completed
returns that write's value or a later one.

Schedule (store read 1ms / write+delete 10ms, tier latency 0.1ms):
  t=0.000  put(k, v1)      -> backing lands t=0.010, L1 write-through done t=0.020
  t=0.030  delete(k)       -> tiers invalidated NOW, backing delete lands t=0.040
  t=0.031  get(k)          -> misses L1/L2, backing read at t=0.032 -> v1 (still there),
                              _cache_value() puts v1 into L1     (concurrent read: v1 is fine)
  t=0.040  delete(k) COMPLETED: backing[k] gone, but L1 still holds v1
  t=0.050  get(k)          -> L1 hit -> v1   (delete completed 10ms ago: STALE)

Exit 1 if the defect manifests, 0 otherwise.
"""

import os
import sys

sys.path.insert(0, os.environ.get("HS_ROOT", "/repo"))

from happysimulator.components.datastore import (  # noqa: E402
    CachedStore,
    KVStore,
    LRUEviction,
    MultiTierCache,
)
from happysimulator.core.entity import Entity  # noqa: E402
from happysimulator.core.event import Event  # noqa: E402
from happysimulator.core.simulation import Simulation  # noqa: E402
from happysimulator.core.temporal import Instant  # noqa: E402

KEY = "k"


class Driver(Entity):
    def __init__(self, name, mtc, backing, log):
        super().__init__(name)
        self.mtc = mtc
        self.backing = backing
        self.log = log
        self.reads = []  # (issue_time, done_time, value)
        self.writes_done = []  # (done_time, value)  (delete == write of None)

    def _t(self):
        return self.now.to_seconds()

    def _rec(self, msg):
        tiers = [t.contains_cached(KEY) for t in self.mtc.tiers]
        self.log.append(
            f"  t={self._t():.4f}  {msg:<34} backing[{KEY}]={self.backing.get_sync(KEY)!r} "
            f"in_L1={tiers[0]} in_L2={tiers[1]}"
        )

    def handle_event(self, event):
        ctx = event.context
        op = ctx["op"]
        if op == "put":
            self._rec(f"put({KEY!r}, {ctx['value']!r}) issued")
            yield from self.mtc.put(KEY, ctx["value"])
            self.writes_done.append((self._t(), ctx["value"]))
            self._rec(f"put({KEY!r}, {ctx['value']!r}) COMPLETED")
        elif op == "delete":
            self._rec(f"delete({KEY!r}) issued")
            existed = yield from self.mtc.delete(KEY)
            self.writes_done.append((self._t(), None))
            self._rec(f"delete({KEY!r}) COMPLETED -> {existed}")
        elif op == "get":
            t0 = self._t()
            self._rec(f"get({KEY!r}) issued")
            v = yield from self.mtc.get(KEY)
            self.reads.append((t0, self._t(), v))
            self._rec(f"get({KEY!r}) -> {v!r}")
        return []


def run_scenario(title, steps):
    backing = KVStore(name="db", read_latency=0.001, write_latency=0.010)
    l1 = CachedStore(
        name="l1",
        backing_store=backing,
        cache_capacity=4,
        eviction_policy=LRUEviction(),
        cache_read_latency=0.0001,
    )
    l2 = CachedStore(
        name="l2",
        backing_store=backing,
        cache_capacity=16,
        eviction_policy=LRUEviction(),
        cache_read_latency=0.0005,
    )
    mtc = MultiTierCache(name="mtc", tiers=[l1, l2], backing_store=backing)
    log = []
    drivers = {n: Driver(n, mtc, backing, log) for n in ("writer", "reader1", "reader2")}
    sim = Simulation(entities=[backing, l1, l2, mtc, *drivers.values()])
    for t, who, ctx in steps:
        sim.schedule(
            Event(time=Instant.from_seconds(t), event_type="Op", target=drivers[who], context=ctx)
        )
    sim.run()

    print(f"== {title}")
    print("\n".join(log))
    writes = [w for d in drivers.values() for w in d.writes_done]
    bad = False
    for d in drivers.values():
        for t0, t1, val in d.reads:
            done_before = [w for w in writes if w[0] <= t0]
            latest = max(done_before, key=lambda w: w[0])
            # acceptable: the last write completed before the read was issued, or any
            # write that completed later / was still in flight (concurrent with the read)
            acceptable = {w[1] for w in writes if w[0] >= latest[0]}
            ok = val in acceptable
            print(
                f"  check: read issued t={t0:.4f} (done t={t1:.4f}) returned {val!r}; last write "
                f"completed before issue = {latest[1]!r} (done t={latest[0]:.4f}) -> "
                f"{'ok' if ok else 'STALE: deleted value served after the delete completed'}"
            )
            bad |= not ok
    print(
        f"  final: backing={dict(backing._data)} L1={l1.get_cached_keys()} L2={l2.get_cached_keys()}"
    )
    return bad


def main():
    bad = run_scenario(
        "get(k) inside the delete window re-caches the deleted value",
        [
            (0.000, "writer", {"op": "put", "value": "v1"}),
            (0.030, "writer", {"op": "delete"}),
            (0.031, "reader1", {"op": "get"}),
            (0.050, "reader2", {"op": "get"}),
            (0.060, "reader2", {"op": "get"}),
        ],
    )
    ctrl = run_scenario(
        "control: no get inside the delete window",
        [
            (0.000, "writer", {"op": "put", "value": "v1"}),
            (0.030, "writer", {"op": "delete"}),
            (0.050, "reader2", {"op": "get"}),
        ],
    )
    if ctrl:
        print("UNEXPECTED: control scenario failed")
    if bad or ctrl:
        print("DEFECT REPRODUCED: get() after a completed delete() returns the deleted value")
        return 1
    print("OK: reads after the completed delete return None")
    return 0


if __name__ == "__main__":
    sys.exit(main())
