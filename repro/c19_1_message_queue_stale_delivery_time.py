"""C19-1 / C07-1: MessageQueue delivery events are stamped in the past and discarded by the engine; the
message stays "in flight" forever and never reaches the subscribed consumer.

Property clauses: C07 "each event a component emits carries a timestamp no earlier than the instant at which it
is emitted, so the engine never has to discard it"; C19 "every delivery and every requested redelivery reaches a
subscribed consumer at the delivery instant".

`MessageQueue._deliver_message`: `now = self._clock.now` is captured, the message is moved to in-flight, then
`yield self._delivery_latency` suspends, then `Event(time=now, event_type="message_delivery", ...)` is returned
- stamped `delivery_latency` before the clock at emission.  Any delivery_latency > 0 (default 0.001) triggers it,
through both entry points of `handle_event` ("poll" and "message_redelivery").

Schedule (real engine): a producer entity publishes 3 messages (at 1.0, 2.0, 3.0 s) with
`yield from queue.publish(...)` and sends the queue a "poll" event each time; one subscribed consumer
acknowledges whatever it receives.  Then a redelivery is requested for the first message
(`queue.schedule_redelivery`, redelivery_delay=1 s) to exercise the second entry point.
Expected: consumer receives 3 deliveries (+1 redelivery).  Observed: consumer receives nothing, the engine logs
"Time travel detected" for every delivery, queue reports in_flight=3 / acknowledged=0.

Run: /venv/bin/python /verif/repro/c19_1_message_queue_stale_delivery_time.py     (exit 1 = defect present)
     HS_ROOT=/path/to/tree to test another checkout.
"""
import logging
import os
import sys

sys.path.insert(0, os.environ.get("HS_ROOT", "/repo"))
from happysimulator.components.messaging.message_queue import MessageQueue
from happysimulator.core.entity import Entity
from happysimulator.core.event import Event
from happysimulator.core.simulation import Simulation
from happysimulator.core.temporal import Instant


class Capture(logging.Handler):
    def __init__(self):
        super().__init__(level=logging.WARNING)
        self.msgs = []

    def emit(self, record):
        msg = record.getMessage()
        if "Time travel" in msg:
            self.msgs.append(msg)


cap = Capture()
sim_logger = logging.getLogger("happysimulator.core.simulation")
sim_logger.addHandler(cap)
sim_logger.setLevel(logging.WARNING)
sim_logger.propagate = False

queue = MessageQueue("mq", delivery_latency=0.001, redelivery_delay=1.0, max_redeliveries=3)


class Consumer(Entity):
    def __init__(self, name):
        super().__init__(name)
        self.got = []

    def handle_event(self, event):
        self.got.append((round(self.now.to_seconds(), 6), event.context["payload"].context["n"],
                         event.context["delivery_count"]))
        if event.context["delivery_count"] > 1 or event.context["payload"].context["n"] != 1:
            queue.acknowledge(event.context["message_id"])
        # message n=1 is left un-acked on first delivery so that a redelivery can be requested
        return None


class Producer(Entity):
    def __init__(self, name):
        super().__init__(name)
        self.ids = []

    def handle_event(self, event):
        if event.event_type == "produce":
            payload = Event(time=self.now, event_type="job", target=consumer, context={"n": event.context["n"]})
            mid = yield from queue.publish(payload)
            self.ids.append(mid)
            return [Event(time=self.now, event_type="poll", target=queue)]
        if event.event_type == "timeout_first":
            # consumer did not ack message 1 -> ask the queue to redeliver it
            ev = queue.schedule_redelivery(self.ids[0])
            return [ev] if ev is not None else []
        return None


consumer = Consumer("consumer")
producer = Producer("producer")
queue.subscribe(consumer)
sim = Simulation(end_time=Instant.from_seconds(10), entities=[queue, consumer, producer])
for n, t in enumerate((1.0, 2.0, 3.0), start=1):
    sim.schedule(Event(time=Instant.from_seconds(t), event_type="produce", target=producer, context={"n": n}))
sim.schedule(Event(time=Instant.from_seconds(5.0), event_type="timeout_first", target=producer))
sim.run()

print("consumer received (t, n, delivery_count):", consumer.got)
print("queue stats: published=%d delivered=%d redelivered=%d acknowledged=%d" % (
    queue.stats.messages_published, queue.stats.messages_delivered, queue.stats.messages_redelivered,
    queue.stats.messages_acknowledged))
print("queue pending=%d in_flight=%d" % (queue.pending_count, queue.in_flight_count))
print("time-travel drops:", len(cap.msgs))
for m in cap.msgs[:1]:
    print("   ", m)
expected = [(1.0011, 1, 1), (2.0011, 2, 1), (3.0011, 3, 1), (6.001, 1, 2)]
bad = len(cap.msgs) > 0 or len(consumer.got) != 4 or queue.in_flight_count != 0
print("DEFECT PRESENT: deliveries stamped in the past and lost" if bad else "ok: all deliveries reached the consumer")
sys.exit(1 if bad else 0)
