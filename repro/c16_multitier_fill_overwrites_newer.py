import os, sys
sys.path.insert(0, os.environ.get("HS_ROOT", "/repo"))
"""C16_2: MultiTierCache.get() that missed every tier copies whatever the backing
store returned into L1 with `l1._cache_put(key, value)` - unconditionally, even if
L1 meanwhile holds a *newer* value put there by MultiTierCache.put().  The value
read from the backing store can be older than L1's because put() re-writes the
backing store a second time through L1.put() (write-through L1), or writes L1's
previous dirty value back over the new one when it invalidates L1 (write-back L1).
The miss-fill then replaces the new value in L1 by the old one: the completed
write is lost (write-back L1) or hidden until L1 evicts the key (write-through)."""
from happysimulator.components.datastore.cached_store import CachedStore
from happysimulator.components.datastore.eviction_policies import LRUEviction
from happysimulator.components.datastore.kv_store import KVStore
from happysimulator.components.datastore.multi_tier_cache import MultiTierCache
from happysimulator.core.entity import Entity
from happysimulator.core.event import Event
from happysimulator.core.simulation import Simulation
from happysimulator.core.temporal import Instant


class Client(Entity):
    def __init__(self, cache):
        super().__init__("client")
        self.cache = cache
        self.log = []

    def handle_event(self, event):
        op, key, val = event.context["op"]
        t0 = self.now.to_seconds()
        res = None
        if op == "put":
            yield from self.cache.put(key, val)
        elif op == "get":
            res = yield from self.cache.get(key)
        elif op == "invalidate_all":  # cache-only operation
            self.cache.invalidate_all()
        self.log.append((op, key, val, t0, self.now.to_seconds(), res))


def build(l1_write_through):
    # latencies of the example in the MultiTierCache module docstring: read 10 ms, write 5 ms (default)
    backing = KVStore("db", read_latency=0.010)
    l1 = CachedStore("l1", backing, cache_capacity=2, eviction_policy=LRUEviction(),
                     cache_read_latency=0.0001, write_through=l1_write_through)
    l2 = CachedStore("l2", backing, cache_capacity=8, eviction_policy=LRUEviction(),
                     cache_read_latency=0.001)
    mt = MultiTierCache("mt", tiers=[l1, l2], backing_store=backing)
    client = Client(mt)
    sim = Simulation(start_time=Instant.Epoch, end_time=Instant.from_seconds(2.0),
                     entities=[client, mt, l1, l2, backing])
    return sim, client, backing, l1


def run(title, l1_write_through, plan):
    sim, client, backing, l1 = build(l1_write_through)
    for t, op in plan:
        sim.schedule(Event(time=Instant.from_seconds(t), event_type="op", target=client,
                           context={"op": op}))
    sim.run()
    print("==", title)
    for rec in sorted(client.log, key=lambda r: r[3]):
        print("  %-14s key=%s val=%s issued=%.4f done=%.4f -> %r" % rec)
    return client, backing, l1


# (a) L1 in write-back mode; the two puts do NOT overlap each other.
client, backing, l1 = run(
    "L1 write-back: sequential puts v1, v2 + one overlapping miss-fill", False,
    [
        (0.000, ("put", "k", "v1")),   # completes at 5.1 ms
        (0.004, ("get", "k", None)),   # misses all tiers, backing read returns at 14 ms
        (0.008, ("put", "k", "v2")),   # issued after v1 completed; completes at 13.1 ms
        (0.100, ("get", "k", None)),   # long after everything has completed
        (0.200, ("invalidate_all", None, None)),
        (0.300, ("get", "k", None)),
    ],
)
late = [r[5] for r in client.log if r[0] == "get" and r[3] >= 0.05]
print("  reads after put v2 completed:", late, " backing store:", backing.get_sync("k"))
print("  property requires: 'v2' (the last completed write) everywhere")
bad_a = any(v != "v2" for v in late)
if bad_a:
    print("  VIOLATION: completed write 'v2' is lost, reads return the older 'v1'")

# (b) L1 in (default) write-through mode; two overlapping puts + one overlapping miss-fill.
client, backing, l1 = run(
    "L1 write-through: overlapping puts v1, v2 + one overlapping miss-fill", True,
    [
        (0.000, ("put", "k", "v1")),   # db<-v1 at 5 ms, L1.put re-writes db<-v1 at 10 ms
        (0.001, ("get", "k", None)),   # misses all tiers, backing read returns at 11 ms
        (0.004, ("put", "k", "v2")),   # db<-v2 at 9 ms, L1<-v2, db<-v2 again at 14 ms
        (0.100, ("get", "k", None)),
        (0.200, ("invalidate_all", None, None)),
        (0.300, ("get", "k", None)),
    ],
)
late = [r[5] for r in client.log if r[0] == "get" and r[3] >= 0.05]
print("  reads after both puts completed:", late, " backing store:", backing.get_sync("k"))
print("  property requires: the same value before and after the cache-only invalidate_all()")
bad_b = len(set(late)) != 1
if bad_b:
    print("  VIOLATION: L1 serves 'v1' although the backing store (and every read that")
    print("  bypasses L1) says 'v2' - the stale miss-fill overwrote the newer L1 entry")
sys.exit(1 if (bad_a or bad_b) else 0)
