"""C07: ShiftedServer spins forever at a frozen clock when a shift boundary is not a whole-ns float.

Property clause violated
  C07: "no component ... spins at a frozen clock: a finite workload never causes an unbounded
        number of deliveries at a single simulated instant".

Mechanism (happysimulator/components/industrial/shift_schedule.py, ShiftedServer._schedule_next_shift)
  next_t = schedule.next_transition_after(self.now.to_seconds())      # strictly-after, in FLOAT seconds
  Event(time=Instant.from_seconds(next_t), "_ShiftChange", target=self)
  Instant.from_seconds truncates to integer ns.  For a boundary such as 1.001 s the event is stamped
  at 1_000_999_999 ns.  When it is delivered, now.to_seconds() == 1.000999999 < 1.001, so the
  "strictly after now" search returns the SAME boundary 1.001 again, which is stamped at the same
  1_000_999_999 ns == now.  The entity re-delivers _ShiftChange to itself at one instant forever and
  the clock never reaches any later event (jobs, other entities, end_time).

Schedule
  ShiftSchedule([Shift(0.0, 1.001, capacity=2), Shift(1.001, 5.0, capacity=1)])
  one job at t=0.5 (initialises the self-perpetuating shift-change chain), one job at t=2.0,
  a bystander entity event at t=3.0, end_time = 10 s.
  expected: ~17 deliveries, both jobs processed, bystander fires at 3.0 and sees capacity 1
            (second shift in force), run completes.
  observed: the run is paused by the EventCountBreakpoint watchdog after CAP deliveries with the
            clock still at 1.000999999 s; job 2 and the bystander are never reached.
  Control: the same schedule with the boundary at 1.0 s (exactly representable) completes normally.

Run: /venv/bin/python /verif/repro/c07_shift_schedule_float_boundary_spin.py
     HS_ROOT=/path/to/checkout overrides the library root (default /repo)
Exit 1 = defect present, 0 = absent.
"""
import os
import sys

sys.path.insert(0, os.environ.get("HS_ROOT", "/repo"))

from happysimulator.components.industrial.shift_schedule import (  # noqa: E402
    Shift,
    ShiftedServer,
    ShiftSchedule,
)
from happysimulator.core.control.breakpoints import EventCountBreakpoint  # noqa: E402
from happysimulator.core.entity import Entity  # noqa: E402
from happysimulator.core.event import Event  # noqa: E402
from happysimulator.core.simulation import Simulation  # noqa: E402
from happysimulator.core.temporal import Instant  # noqa: E402

CAP = 5000  # watchdog; a correct run needs a few dozen deliveries


class Bystander(Entity):
    def __init__(self):
        super().__init__("bystander")
        self.fired_at = []
        self.server = None
        self.capacity_seen = None

    def handle_event(self, event):
        self.fired_at.append(self.now.to_seconds())
        self.capacity_seen = self.server.current_capacity
        return None


def run(boundary):
    sched = ShiftSchedule(
        [Shift(0.0, boundary, capacity=2), Shift(boundary, 5.0, capacity=1)], default_capacity=0
    )
    server = ShiftedServer("line", sched, service_time=0.1)
    by = Bystander()
    by.server = server
    sim = Simulation(end_time=Instant.from_seconds(10), entities=[server, by])
    sim.schedule(Event(time=Instant.from_seconds(0.5), event_type="job", target=server))
    sim.schedule(Event(time=Instant.from_seconds(2.0), event_type="job", target=server))
    sim.schedule(Event(time=Instant.from_seconds(3.0), event_type="tick", target=by))
    sim.control.add_breakpoint(EventCountBreakpoint(count=CAP))
    sim.run()
    st = sim.control.get_state()
    spinning = st.is_paused and st.events_processed >= CAP
    # at t=3.0 the second shift (capacity 1) must be in force
    ok = (not spinning) and server.processed == 2 and by.fired_at == [3.0] and by.capacity_seen == 1
    print(
        f"boundary={boundary!r:6} stamped_ns={Instant.from_seconds(boundary).nanoseconds} "
        f"events={st.events_processed} clock={st.current_time.nanoseconds}ns "
        f"processed={server.processed}/2 capacity_now={server.current_capacity} "
        f"bystander_fired={by.fired_at} capacity_at_3s={by.capacity_seen} (want 1) -> "
        f"{'ok' if ok else 'DEFECT: ' + ('spins at frozen clock' if spinning else 'wrong outcome')}"
    )
    return ok


def main():
    control_ok = run(1.0)
    defect_ok = run(1.001)
    if not control_ok:
        print("control case (boundary 1.0) misbehaved: unexpected")
    sys.exit(0 if (control_ok and defect_ok) else 1)


if __name__ == "__main__":
    main()
