"""C14-4 (LSM part): LSMTree.scan() iterates the live per-level SSTable lists across its own suspensions
while LSMTree._compact() removes/appends SSTables in those same lists -> a scan that overlaps the end
of a compaction silently skips an SSTable and misses keys that were written (and flushed) long before
the scan began.

Property clause (C14): "every read returns the value of the latest write to that key that completed
before the read began" (here: a range read omits such keys altogether).

Code: lsm_tree.py `scan`: `for level in self._levels: for sstable in reversed(level): ... yield ...`
 - `reversed(level)` is an index-based iterator over the live list.  `_compact`, after its own
 suspension, does `self._levels[target].remove(old)` + `.append(new)`; the merged SSTable lands at an
 index the reversed iterator has already passed, and the SSTable it replaced is gone.
 (`get` has the same loop shape, but only continues iterating after a suspension on a bloom-filter
 false positive, so it is much harder to hit; the scan needs no luck.)

State (built only through the public sync API, SizeTieredCompaction(min_sstables=4), memtable_size=2):
  L1 = [P{p2,p3}, Q{q1,q2}]   (two disjoint SSTables), L0 = [A, B, C], each {o1,p25}.
Schedule:
  t=0.097  reader: scan("p2", "r").  L0 pass over reversed([A,B,C]): 2 ms per table -> until 0.103.
           Then L1: reversed([P, Q]) -> Q first, suspended 0.103 .. 0.105.
  t=0.100  writer: put(o1), put(p25) -> 4th L0 flush (0.10002 .. 0.10202) -> compaction L0 -> L1
           starts at 0.10202; it merges the four L0 tables with the overlapping P (Q does not
           overlap), suspends 2 ms and at t=0.10402 removes P from L1 and appends the merged table N:
           L1 = [Q, N].
  t=0.105  the scan resumes; its reversed-iterator moves to index 0, which is now Q again, and stops.
           P is gone and N sits at an index already passed: p2 and p3 are never seen, although they
           were written before the simulation even started and nobody touched them since.

Run: /venv/bin/python /verif/repro/c14_4_scan_vs_compaction.py   (exit 1 = defect present)
     HS_ROOT=/path/to/worktree /venv/bin/python ...               (to test another checkout)
"""
import os
import sys

sys.path.insert(0, os.environ.get("HS_ROOT", "/repo"))

from happysimulator.components.storage.lsm_tree import LSMTree, SizeTieredCompaction
from happysimulator.core.entity import Entity
from happysimulator.core.event import Event
from happysimulator.core.simulation import Simulation
from happysimulator.core.temporal import Instant

lsm = LSMTree("db", memtable_size=2, compaction_strategy=SizeTieredCompaction(min_sstables=4))
model = {}


def put_sync(k, v):
    lsm.put_sync(k, v)
    model[k] = v


for rnd in range(4):  # 4 flushes {p2,p3} -> compaction -> L1 = [P]
    put_sync("p2", f"P2.{rnd}")
    put_sync("p3", f"P3.{rnd}")
for rnd in range(4):  # 4 flushes {q1,q2} -> compaction -> L1 = [P, Q]
    put_sync("q1", f"Q1.{rnd}")
    put_sync("q2", f"Q2.{rnd}")
for rnd in range(3):  # 3 flushes {o1,p25} stay in L0
    put_sync("o1", f"O1.{rnd}")
    put_sync("p25", f"P25.{rnd}")
print("initial levels:", [[repr(s) for s in lvl] for lvl in lsm._levels if lvl])
assert len(lsm._levels[0]) == 3 and len(lsm._levels[1]) == 2, "unexpected initial shape"

result = {}


class Writer(Entity):
    def handle_event(self, event):
        yield from lsm.put("o1", "O1.3")
        yield from lsm.put("p25", "P25.3")
        print(f"t={self.now.to_seconds():.5f} writer done; levels:",
              [[repr(s) for s in lvl] for lvl in lsm._levels if lvl])


class Reader(Entity):
    def handle_event(self, event):
        t0 = self.now.to_seconds()
        result["t0"] = t0
        result["before"] = [(k, lsm.get_sync(k)) for k in ("p2", "p3", "q1", "q2")]
        result["scan"] = yield from lsm.scan("p2", "r")
        result["t1"] = self.now.to_seconds()


w, r = Writer("writer"), Reader("reader")
sim = Simulation(end_time=Instant.from_seconds(1.0), entities=[lsm, w, r])
sim.schedule(Event(time=Instant.from_seconds(0.100), event_type="go", target=w))
sim.schedule(Event(time=Instant.from_seconds(0.097), event_type="go", target=r))
sim.run()

# p25 is being rewritten concurrently (either value is fine); p2,p3,q1,q2 are not written during the run
expected = sorted((k, v) for k, v in model.items() if k in ("p2", "p3", "q1", "q2"))
print(f"point reads at scan begin (t={result['t0']:.5f}):", result["before"])
print(f"scan('p2','r') [{result['t0']:.5f} .. {result['t1']:.5f}] ->", result["scan"])
print("must contain (none of these keys was written during the run) ->", expected)
bad = any(kv not in result["scan"] for kv in expected)
print("DEFECT PRESENT: scan missed " + str([k for k, _ in expected if k not in dict(result["scan"])])
      if bad else "defect absent")
sys.exit(1 if bad else 0)
