"""C19-1 / C07-1: Topic.publish stamps its delivery events with the time captured at entry, before the
per-subscriber latency yields; the engine discards them all, so no subscriber ever receives a message.

Property clauses: C07 "each event a component emits carries a timestamp no earlier than the instant at which it
is emitted, so the engine never has to discard it"; C19 "Topic: every published message reaches every
subscriber active at publish time exactly once."

`Topic.publish`: `now = self._clock.now` at entry; `for subscription in active: yield self._delivery_latency;
... Event(time=now, ...)`; the list is returned (= emitted) after N latencies, at clock `now + N*latency`.
Any delivery_latency > 0 (default 0.001) with >= 1 subscriber triggers it.

Schedule (real engine): Topic(delivery_latency=1 ms) with 3 subscribers; "publish" events (context payload)
sent to the topic entity at 1.0 s and 2.0 s.  Expected: each subscriber receives 2 messages.  Observed: 0
received, 6 "Time travel detected" warnings, while topic.stats claims messages_delivered=6.

Run: /venv/bin/python /verif/repro/c19_1_topic_stale_delivery_time.py     (exit 1 = defect present)
     HS_ROOT=/path/to/tree to test another checkout.
"""
import logging
import os
import sys

sys.path.insert(0, os.environ.get("HS_ROOT", "/repo"))
from happysimulator.components.messaging.topic import Topic
from happysimulator.core.entity import Entity
from happysimulator.core.event import Event
from happysimulator.core.simulation import Simulation
from happysimulator.core.temporal import Instant


class Capture(logging.Handler):
    def __init__(self):
        super().__init__(level=logging.WARNING)
        self.msgs = []

    def emit(self, record):
        msg = record.getMessage()
        if "Time travel" in msg:
            self.msgs.append(msg)


cap = Capture()
sim_logger = logging.getLogger("happysimulator.core.simulation")
sim_logger.addHandler(cap)
sim_logger.setLevel(logging.WARNING)
sim_logger.propagate = False


class Subscriber(Entity):
    def __init__(self, name):
        super().__init__(name)
        self.got = []

    def handle_event(self, event):
        self.got.append((round(self.now.to_seconds(), 6), event.context["payload"].context["n"]))
        return None


topic = Topic("news", delivery_latency=0.001)
subs = [Subscriber(f"sub{i}") for i in range(3)]
for s in subs:
    topic.subscribe(s)
sim = Simulation(end_time=Instant.from_seconds(5), entities=[topic, *subs])
for n, t in enumerate((1.0, 2.0), start=1):
    payload = Event(time=Instant.from_seconds(t), event_type="news_item", target=subs[0], context={"n": n})
    sim.schedule(Event(time=Instant.from_seconds(t), event_type="publish", target=topic, context={"payload": payload}))
sim.run()

for s in subs:
    print(f"{s.name} received (t, n): {s.got}")
print("topic stats: published=%d delivered=%d" % (topic.stats.messages_published, topic.stats.messages_delivered))
print("time-travel drops:", len(cap.msgs))
for m in cap.msgs[:1]:
    print("   ", m)
bad = len(cap.msgs) > 0 or any([n for _, n in s.got] != [1, 2] for s in subs)
print("DEFECT PRESENT: topic deliveries stamped in the past and lost" if bad
      else "ok: every subscriber received every message exactly once")
sys.exit(1 if bad else 0)
