"""Repro: single-decree PaxosNode decides None — a value nobody proposed — when Accepted messages of a ballot it has already retried arrive late.

_handle_retry moves the proposed value to the new ballot and deletes the old ballot's entry, but the old ballot's accept tally stays.
Late Accepted messages for the old ballot complete its quorum and _handle_accepted decides `self._proposed_values.get(old)` = None,
although a quorum of acceptors accepted the real value under that ballot.  The proposer then broadcasts None as the decision.

Schedule (5 nodes, constant per-link latencies, no loss): A proposes "v" (ballot (1,A)); fast acceptor C promises, then promises the competing
proposer D's ballot (1,D) and therefore rejects A's Accept → A retries with ballot 2 at t≈1.77.  The slow acceptors B1, B2 (0.3 s links)
accept (1,A,"v"); their Accepted messages reach A at t=2.20, after the retry and before ballot 2 gathers its promises (t=2.37).

Exit 1 if any node reports a decided value that no client proposed.
"""
from __future__ import annotations

import os
import random
import sys

sys.path.insert(0, os.environ.get("HS_ROOT", "/repo"))

from happysimulator.components.consensus.paxos import PaxosNode  # noqa: E402
from happysimulator.components.network.link import NetworkLink  # noqa: E402
from happysimulator.components.network.network import Network  # noqa: E402
from happysimulator.core.event import Event  # noqa: E402
from happysimulator.core.simulation import Simulation  # noqa: E402
from happysimulator.core.temporal import Instant  # noqa: E402
from happysimulator.distributions.constant import ConstantLatency  # noqa: E402

LAT = {("A", "C"): 0.01, ("A", "B1"): 0.30, ("A", "B2"): 0.30, ("D", "C"): 0.01, ("D", "B1"): 5.0, ("D", "B2"): 5.0, ("A", "D"): 0.01,
       ("B1", "B2"): 0.01, ("B1", "C"): 0.01, ("B2", "C"): 0.01}


def main() -> int:
    random.seed(1)
    net = Network(name="net")
    nodes = {n: PaxosNode(name=n, network=net, retry_delay=0.1) for n in ("A", "B1", "B2", "C", "D")}
    for n in nodes.values():
        n.set_peers(list(nodes.values()))
    for (a, b), lat in LAT.items():
        net.add_bidirectional_link(nodes[a], nodes[b], NetworkLink(name=f"{a}-{b}", latency=ConstantLatency(lat), bandwidth_bps=None, packet_loss_rate=0.0, jitter=None))
    net.partition([nodes["A"]], [nodes["D"]])  # the two proposers never hear each other
    sim = Simulation(start_time=Instant.Epoch, duration=20.0, entities=[net, *nodes.values()])
    futs = {}

    def propose(who, value):
        def go(_e):
            futs[who] = nodes[who].propose(value)
            return nodes[who].start_phase1()
        return go
    sim.schedule(Event.once(time=Instant.from_seconds(1.00), event_type="ProposeA", fn=propose("A", "v")))
    sim.schedule(Event.once(time=Instant.from_seconds(1.50), event_type="ProposeD", fn=propose("D", "w")))
    sim.run()
    proposed = {"v", "w"}
    bad = False
    for name, n in nodes.items():
        dv = n.decided_value if n.is_decided else "<undecided>"
        flag = n.is_decided and dv not in proposed
        bad |= flag
        print(f"  {name}: decided={n.is_decided} value={dv!r} accepted={n._accepted_value!r} {'<-- never proposed' if flag else ''}")
    for who, f in futs.items():
        print(f"  future of {who}: {'resolved ' + repr(f.value) if f.is_resolved else 'unresolved'}")
        bad |= f.is_resolved and f.value not in proposed
    print("RESULT:", "DEFECT: a value nobody proposed was decided" if bad else "ok")
    return 1 if bad else 0


if __name__ == "__main__":
    sys.exit(main())
