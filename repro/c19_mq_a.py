"""(a) consumer is chosen BEFORE the delivery latency, event is built AFTER it:
a consumer that unsubscribes during the latency still receives the delivery,
although another subscribed consumer exists (variant 1), or although nobody is
subscribed (variant 2: message is then in flight at a departed consumer)."""
import os, sys
sys.path.insert(0, os.environ.get("HS_ROOT", "/repo"))
sys.path.insert(1, os.path.dirname(os.path.abspath(__file__)))
from mq2_common import World

bad = []

print("== variant 1: C1 leaves during latency, C2 stays subscribed ==")
w = World(
    [
        (0.0, "publish", ("m1",)),
        (1.0, "poll", ()),            # picks C1 (round robin index 0), suspends 0.01
        (1.005, "unsubscribe", ("C1",)),
        (2.0, "note", ("end",)),
    ],
    delivery_latency=0.01,
).run()
for t, cname, label, dc, subscribed, acked in w.all_deliveries():
    if not subscribed:
        bad.append(f"v1: {label} delivered to {cname} at t={t} but {cname} is not subscribed then")
if not w.all_deliveries():
    bad.append("v1: m1 never delivered although C2 is subscribed")

print("== variant 2: the only consumer leaves during latency ==")
w = World(
    [
        (0.0, "publish", ("m1",)),
        (1.0, "poll", ()),
        (1.005, "unsubscribe", ("C1",)),
        (2.0, "note", ("after-leave",)),
        (3.0, "subscribe", ("C1",)),
        (4.0, "poll", ()),            # a correct queue still has m1 pending and delivers it now
        (5.0, "note", ("end",)),
    ],
    consumers=("C1",),
    delivery_latency=0.01,
).run()
for t, cname, label, dc, subscribed, acked in w.all_deliveries():
    if not subscribed:
        bad.append(f"v2: {label} delivered to {cname} at t={t} but {cname} is not subscribed then")
ok_deliveries = [d for d in w.all_deliveries() if d[4]]
if not ok_deliveries:
    bad.append("v2: m1 never reached a subscribed consumer (stuck in flight at departed consumer)")
elif ok_deliveries[0][3] != 1:
    bad.append(f"v2: first real delivery carries delivery_count={ok_deliveries[0][3]} (aborted attempt was counted)")

print()
if bad:
    print("DEFECT (a) manifests:")
    for b in bad:
        print("  -", b)
    sys.exit(1)
print("OK: every delivery reached a consumer subscribed at the delivery instant")
sys.exit(0)
