"""Shared driver harness for the MessageQueue repro scripts (mq2).

Runs the REAL MessageQueue under the REAL Simulation engine.  All driver
events are created at run time from a single kick handler (avoids the
pre-run / run-time tie-break counter mismatch), and all scheduled actions
use distinct instants, so the schedules are fully deterministic.
"""
import os
import sys

sys.path.insert(0, os.environ.get("HS_ROOT", "/repo"))

from happysimulator.components.messaging import DeadLetterQueue, MessageQueue  # noqa: E402
from happysimulator.core.entity import Entity  # noqa: E402
from happysimulator.core.event import Event  # noqa: E402
from happysimulator.core.simulation import Simulation  # noqa: E402
from happysimulator.core.temporal import Instant  # noqa: E402

HISTORY: list[str] = []


def log(ent, text):
    line = f"t={ent.now.to_seconds():.6f}  {text}"
    HISTORY.append(line)
    print(line)


class Consumer(Entity):
    """Records every delivery and whether it is subscribed at that instant."""

    def __init__(self, name, queue):
        super().__init__(name)
        self.queue = queue
        self.deliveries = []  # (time_s, label, delivery_count, subscribed_now, acked_before)
        self.acked_labels = None  # shared set, installed by World

    def handle_event(self, event):
        if event.event_type != "message_delivery":
            return []
        label = event.context["payload"].event_type
        subscribed = self in self.queue._consumers
        acked_before = label in self.acked_labels
        self.deliveries.append(
            (self.now.to_seconds(), label, event.context["delivery_count"], subscribed, acked_before)
        )
        log(
            self,
            f"{self.name} RECEIVES {label} (delivery_count={event.context['delivery_count']}) "
            f"subscribed_now={subscribed} others_subscribed={[c.name for c in self.queue._consumers if c is not self]} "
            f"already_acked={acked_before}",
        )
        return []


class Driver(Entity):
    """Executes scripted actions; generator handler so it can `yield from queue.publish`."""

    def __init__(self, world):
        super().__init__("driver")
        self.w = world

    def handle_event(self, event):
        kind = event.event_type
        w = self.w
        q = w.queue
        if kind == "kick":
            out = []
            for t, k, args in w.script:
                tgt = q if k == "poll" else self
                out.append(Event(time=Instant.from_seconds(t), event_type=k, target=tgt, context={"args": args}))
            return out
        args = event.context["args"]
        if kind == "publish":
            (label,) = args
            payload = Event(time=self.now, event_type=label, target=w.null)
            mid = yield from q.publish(payload)
            w.ids[label] = mid
            w.labels[mid] = label
            log(self, f"PUBLISHED {label}")
            return []
        if kind == "ack":
            (label,) = args
            q.acknowledge(w.ids[label])
            w.acked.add(label)
            log(self, f"ACK {label}  -> {w.where(label)}")
            return []
        if kind == "reject":
            label, requeue = args
            q.reject(w.ids[label], requeue=requeue)
            log(self, f"REJECT {label} requeue={requeue}  -> {w.where(label)}")
            return []
        if kind == "timeout":
            (label,) = args
            ev = q.schedule_redelivery(w.ids[label])
            log(
                self,
                f"TIMEOUT {label}: schedule_redelivery -> "
                f"{'message_redelivery @' + format(ev.time.to_seconds(), '.3f') if ev else None}  -> {w.where(label)}",
            )
            return [ev] if ev else []
        if kind == "subscribe":
            (name,) = args
            q.subscribe(w.consumers[name])
            log(self, f"SUBSCRIBE {name}")
            return []
        if kind == "unsubscribe":
            (name,) = args
            q.unsubscribe(w.consumers[name])
            log(self, f"UNSUBSCRIBE {name}; subscribed={[c.name for c in q._consumers]}")
            return []
        if kind == "note":
            log(self, f"STATE {args[0]}: " + "; ".join(f"{lb} -> {w.where(lb)}" for lb in w.ids))
            return []
        raise AssertionError(kind)


class World:
    def __init__(self, script, consumers=("C1", "C2"), dlq=True, subscribed=None, **qkw):
        from happysimulator.core.callback_entity import NullEntity

        HISTORY.clear()
        self.null = NullEntity()
        self.dlq = DeadLetterQueue(name="dlq") if dlq else None
        self.queue = MessageQueue(name="q", dead_letter_queue=self.dlq, **qkw)
        self.consumers = {n: Consumer(n, self.queue) for n in consumers}
        for n in (consumers if subscribed is None else subscribed):
            self.queue.subscribe(self.consumers[n])
        self.acked = set()
        for c in self.consumers.values():
            c.acked_labels = self.acked
        self.ids = {}
        self.labels = {}
        self.script = script
        self.driver = Driver(self)

    def where(self, label):
        """Multiset of places where the message id currently lives."""
        q = self.queue
        mid = self.ids[label]
        places = []
        n = list(q._pending_queue).count(mid)
        places += ["pending"] * n
        if mid in q._in_flight:
            places.append("in_flight")
        if label in self.acked:
            places.append("acked")
        if self.dlq is not None and any(m.id == mid for m in self.dlq.messages):
            places.append("dlq")
        return places or ["NOWHERE"]

    def run(self, end=100.0):
        ents = [self.queue, self.driver, *self.consumers.values()]
        if self.dlq is not None:
            ents.append(self.dlq)
        sim = Simulation(end_time=Instant.from_seconds(end), entities=ents)
        sim.schedule(Event(time=Instant.Epoch, event_type="kick", target=self.driver))
        sim.run()
        return self

    def all_deliveries(self):
        out = []
        for c in self.consumers.values():
            for d in c.deliveries:
                out.append((d[0], c.name, *d[1:]))
        return sorted(out)
