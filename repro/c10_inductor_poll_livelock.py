import os
import sys

sys.path.insert(0, os.environ.get("HS_ROOT", "/repo"))

"""C10_2: Inductor drain livelocks (simulation never advances) when the smoothed
interval is positive but shorter than one nanosecond.

`Inductor._ensure_poll_scheduled` schedules the drain poll at
`now + Duration.from_seconds(smoothed_interval)`. Duration.from_seconds truncates,
so for 0 < smoothed_interval < 1 ns the poll is scheduled for the *same* instant.
At that instant `_can_forward` still says no (elapsed 0 < smoothed_interval), the
poll reschedules itself for `now` again, and the engine spins forever at one
timestamp.

Arrivals: two at t=0 (seeds the EWMA with interval 0), two at t=10 us.  tau = 1 s.
The third arrival makes smoothed_interval = alpha*dt ~ 1e-5 * 1e-5 = 1e-10 s.
The fourth arrival (same instant as the third) has to be buffered -> poll -> livelock.
"""

import signal

from happysimulator.components.rate_limiter import Inductor
from happysimulator.core.entity import Entity
from happysimulator.core.event import Event
from happysimulator.core.simulation import Simulation
from happysimulator.core.temporal import Instant


class Sink(Entity):
    def __init__(self, name):
        super().__init__(name)
        self.got = []

    def handle_event(self, event):
        self.got.append((event.time.nanoseconds, event.context.get("rid")))


class CountingInductor(Inductor):
    """Only counts poll events; behaviour is entirely the library's."""

    polls = 0

    def _handle_poll(self, event):
        CountingInductor.polls += 1
        return super()._handle_poll(event)


sink = Sink("sink")
ind = CountingInductor("ind", downstream=sink, time_constant=1.0)
sim = Simulation(
    start_time=Instant.Epoch,
    end_time=Instant.from_seconds(1.0),
    entities=[ind, sink],
)
arrivals_ns = [0, 0, 10_000, 10_000]
for rid, ns in enumerate(arrivals_ns):
    ev = Event(time=Instant(ns), event_type="req", target=ind)
    ev.context["rid"] = rid
    sim.schedule(ev)


def on_alarm(*_):
    print("arrivals (ns):", arrivals_ns, " time_constant=1.0 s, end_time=1.0 s")
    print(
        f"after 3 s wall clock the run loop is still spinning: {CountingInductor.polls} poll events "
        f"processed, all at t={ind.forwarded_times[-1].nanoseconds} ns; "
        f"smoothed_interval={ind._smoothed_interval!r} s; stats={ind.stats}; queue_depth={ind.queue_depth}"
    )
    print("property requires: the drain never stalls; every buffered request is eventually forwarded")
    print("VIOLATION: Simulation.run() never returns (poll rescheduled at the same instant forever)")
    sys.stdout.flush()
    os._exit(1)


signal.signal(signal.SIGALRM, on_alarm)
signal.alarm(3)
sim.run()
signal.alarm(0)

print("arrivals (ns):", arrivals_ns)
print("forwarded (ns, rid):", sink.got, " polls:", CountingInductor.polls, " stats:", ind.stats)
if ind.queue_depth != 0 or [rid for _, rid in sink.got] != [0, 1, 2, 3]:
    print("VIOLATION: buffered request not forwarded / wrong order")
    sys.exit(1)
print("OK: run terminated and every request was forwarded in arrival order")
sys.exit(0)
