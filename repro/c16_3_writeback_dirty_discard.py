"""C16-3: write-back data is discarded before it reaches the backing store.

Property clause (C16): "Write-back data is never discarded before it reaches the backing store."

`CachedStore` in write-back mode (`write_through=False`) keeps un-flushed writes only in
`_cache` + `_dirty_keys`.  Three paths drop a dirty entry without writing it back:
  * `_cache_put` capacity eviction (`self._dirty_keys.discard(evict_key)`),
  * `invalidate(key)` (via `_cache_remove`),
  * `invalidate_all()` (`self._dirty_keys.clear()`).
After that `flush()` has nothing left to write, so the acknowledged write is lost for good.
A fourth path is a race inside `flush()` itself: it captures `self._cache[key]`, suspends for the
backing-store write, and then unconditionally does `self._dirty_keys.discard(key)` - a `put` of a
newer value to the same key during that suspension loses its dirty mark.

Schedules (all driven under the real engine, one client process):
  A. capacity=1:  put(a,1); put(b,2); flush()      -> backing store lacks `a`
  B. capacity=4:  put(a,1); invalidate(a); flush() -> backing store lacks `a`
  C. capacity=4:  put(a,1); put(b,2); invalidate_all(); flush() -> backing store lacks a, b
  D. capacity=4, two processes: P1: put(a,1) then flush() at t=1.0001 (backing write lands 1.0051);
     P2: put(a,2) at t=1.002; P1 flush() again at t=2 -> backing store still holds a=1

Run: /venv/bin/python /verif/repro/c16_3_writeback_dirty_discard.py   (exit 1 = defect present)
     HS_ROOT=/path/to/checkout to run against another tree.
"""
import os
import sys

sys.path.insert(0, os.environ.get("HS_ROOT", "/repo"))

from happysimulator.components.datastore import CachedStore, KVStore, LRUEviction
from happysimulator.core.entity import Entity
from happysimulator.core.event import Event
from happysimulator.core.simulation import Simulation
from happysimulator.core.temporal import Instant


class Client(Entity):
    """Runs the generator function stored in the event context as one process."""

    def handle_event(self, event):
        return event.context["script"]()


def run_case(label, capacity, script_factory, expected, second=None):
    backing = KVStore(name="backing")
    cache = CachedStore(
        name="cache",
        backing_store=backing,
        cache_capacity=capacity,
        eviction_policy=LRUEviction(),
        write_through=False,
    )
    client = Client("client")
    sim = Simulation(end_time=Instant.from_seconds(10), entities=[client, cache, backing])
    ev = Event(time=Instant.from_seconds(1), event_type="go", target=client)
    ev.context["script"] = lambda: script_factory(cache)
    sim.schedule(ev)
    if second is not None:
        at, factory = second
        ev2 = Event(time=Instant.from_seconds(at), event_type="go2", target=client)
        ev2.context["script"] = lambda: factory(cache)
        sim.schedule(ev2)
    sim.run()
    got = {k: backing.get_sync(k) for k in expected}
    lost = {k: v for k, v in expected.items() if got[k] != v}
    print(f"[{label}] backing store after flush: {got}  expected: {expected}  "
          f"dirty left: {cache.get_dirty_keys()}  -> {'LOST ' + str(sorted(lost)) if lost else 'ok'}")
    return bool(lost)


def case_evict(cache):
    yield from cache.put("a", 1)
    yield from cache.put("b", 2)  # evicts dirty "a"
    yield from cache.flush()


def case_invalidate(cache):
    yield from cache.put("a", 1)
    cache.invalidate("a")
    yield from cache.flush()


def case_invalidate_all(cache):
    yield from cache.put("a", 1)
    yield from cache.put("b", 2)
    cache.invalidate_all()
    yield from cache.flush()


def case_flush_p1(cache):
    yield from cache.put("a", 1)   # t=1.0 .. 1.0001
    yield from cache.flush()       # captures a=1, backing write lands at 1.0051
    yield 1.0
    yield from cache.flush()       # t~2.005: nothing dirty any more


def case_flush_p2(cache):
    yield from cache.put("a", 2)   # t=1.002, while P1's flush is suspended


bad = False
bad |= run_case("A evict       ", 1, case_evict, {"a": 1, "b": 2})
bad |= run_case("B invalidate  ", 4, case_invalidate, {"a": 1})
bad |= run_case("C invalidate_all", 4, case_invalidate_all, {"a": 1, "b": 2})
bad |= run_case("D put during flush", 4, case_flush_p1, {"a": 2}, second=(1.002, case_flush_p2))
print("DEFECT PRESENT: acknowledged write-back data never reached the backing store" if bad
      else "ok: every write-back value reached the backing store")
sys.exit(1 if bad else 0)
