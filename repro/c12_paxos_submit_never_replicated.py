"""Repro: MultiPaxosNode / FlexiblePaxosNode.submit() on an established leader
never replicates the slot, so the returned future never resolves and no node
applies the command -- on a loss-free, constant-latency network.

Scenarios (3 nodes, 10 ms constant latency, no loss, run to t=20):
  * public-API   : node-0.start() at t=0.1; a client entity calls ONLY
                   leader.submit(cmd) at t=1,2,3.               (property under test)
  * control      : same, but the client uses the by-hand idiom from
                   examples/distributed/flexible_paxos_quorums.py:
                   leader.submit(cmd); return leader._replicate_slot(slot)
                   (shows the harness itself is sound).
  * follower-info: (informational, not part of the exit code) submit to a
                   follower that already knows the leader.

Exit 1 if, in a public-API scenario, any future is unresolved or any node has
not applied every command (or if a control scenario fails); else 0.
"""

from __future__ import annotations

import os
import sys

sys.path.insert(0, os.environ.get("HS_ROOT", "/repo"))

from happysimulator.components.consensus.flexible_paxos import FlexiblePaxosNode  # noqa: E402
from happysimulator.components.consensus.multi_paxos import MultiPaxosNode  # noqa: E402
from happysimulator.components.network.link import NetworkLink  # noqa: E402
from happysimulator.components.network.network import Network  # noqa: E402
from happysimulator.core.entity import Entity  # noqa: E402
from happysimulator.core.event import Event  # noqa: E402
from happysimulator.core.simulation import Simulation  # noqa: E402
from happysimulator.core.temporal import Instant  # noqa: E402
from happysimulator.distributions.constant import ConstantLatency  # noqa: E402

LATENCY_S = 0.010
END_S = 20.0
SUBMIT_TIMES = (1.0, 2.0, 3.0)


class RecordingSM:
    """State machine that records every applied command, in order."""

    def __init__(self) -> None:
        self.applied: list = []

    def apply(self, command):
        self.applied.append(command)
        return command


class Client(Entity):
    """Client that submits one command per ClientSubmit event.

    by_hand=False: public API only  -> target.submit(cmd)
    by_hand=True : example's idiom  -> target.submit(cmd); target._replicate_slot(slot)
    """

    def __init__(self, name: str, target, by_hand: bool) -> None:
        super().__init__(name)
        self.target = target
        self.by_hand = by_hand
        self.futures: list = []  # (time, cmd, was_leader_at_submit, future)

    def handle_event(self, event: Event):
        cmd = event.context["metadata"]["cmd"]
        was_leader = self.target.is_leader
        fut = self.target.submit(cmd)
        self.futures.append((self.now.to_seconds(), cmd, was_leader, fut))
        if self.by_hand:
            return self.target._replicate_slot(self.target.log.last_index)
        return None


def run_scenario(label: str, node_cls, *, by_hand: bool, target_idx: int = 0) -> dict:
    network = Network(name=f"{label}-net")
    sms = [RecordingSM() for _ in range(3)]
    # FlexiblePaxosNode derives default quorums from the peers known at construction
    # time (none yet), so give it the majority quorums for N=3 explicitly.
    extra = {"phase1_quorum": 2, "phase2_quorum": 2} if node_cls is FlexiblePaxosNode else {}
    nodes = [
        node_cls(
            name=f"node-{i}",
            network=network,
            state_machine=sms[i],
            heartbeat_interval=1.0,
            **extra,
        )
        for i in range(3)
    ]
    for n in nodes:
        n.set_peers(nodes)
    for i, a in enumerate(nodes):
        for b in nodes[i + 1 :]:
            network.add_bidirectional_link(
                a,
                b,
                NetworkLink(
                    name=f"{a.name}-{b.name}",
                    latency=ConstantLatency(LATENCY_S),
                    bandwidth_bps=None,
                    packet_loss_rate=0.0,
                    jitter=None,
                ),
            )

    client = Client("client", nodes[target_idx], by_hand)

    sim = Simulation(
        start_time=Instant.Epoch,
        duration=END_S,
        entities=[network, *nodes, client],
    )
    sim.schedule(
        Event.once(
            time=Instant.from_seconds(0.1),
            event_type="StartLeader",
            fn=lambda e: nodes[0].start(),
        )
    )
    cmds = []
    for k, t in enumerate(SUBMIT_TIMES):
        cmd = {"op": "set", "key": f"k{k}", "value": k}
        cmds.append(cmd)
        sim.schedule(
            Event(
                time=Instant.from_seconds(t),
                event_type="ClientSubmit",
                target=client,
                context={"metadata": {"cmd": cmd}},
            )
        )
    sim.run()

    print(f"--- {label} ({node_cls.__name__}, by_hand={by_hand}, submit to node-{target_idx}) ---")
    print(f"  leader flags at end: {[(n.name, n.is_leader, n.leader) for n in nodes]}")
    ok = True
    for t, cmd, was_leader, fut in client.futures:
        state = f"RESOLVED {fut.value!r}" if fut.is_resolved else "UNRESOLVED"
        print(f"  future t={t:.1f} cmd={cmd['key']} target_was_leader={was_leader}: {state}")
        ok &= fut.is_resolved
    if len(client.futures) != len(cmds):
        print(f"  only {len(client.futures)} of {len(cmds)} submits ran")
        ok = False
    for n, sm in zip(nodes, sms, strict=True):
        keys = [c["key"] for c in sm.applied]
        s = n.stats
        print(
            f"  {n.name}: log_len={s.log_length} commit_index={s.commit_index} "
            f"applied={keys} pending={len(n._pending_commands)}"
        )
        ok &= sm.applied == cmds
    print(f"  => {'OK' if ok else 'FAIL'}")
    return {"label": label, "ok": ok}


def main() -> int:
    results = {}
    for cls, short in ((MultiPaxosNode, "multi"), (FlexiblePaxosNode, "flex")):
        results[f"{short}-public"] = run_scenario(f"{short}-public-API", cls, by_hand=False)
        results[f"{short}-control"] = run_scenario(f"{short}-control", cls, by_hand=True)
        # informational: submit to a follower (node-1) that knows node-0 leads
        results[f"{short}-follower"] = run_scenario(
            f"{short}-follower-info", cls, by_hand=False, target_idx=1
        )

    print("\n=== summary ===")
    for k, r in results.items():
        tag = " (informational, not in exit code)" if k.endswith("follower") else ""
        print(f"  {k}: {'OK' if r['ok'] else 'FAIL'}{tag}")

    controls_ok = all(results[k]["ok"] for k in results if k.endswith("control"))
    public_ok = all(results[k]["ok"] for k in results if k.endswith("public"))
    if not controls_ok:
        print("HARNESS PROBLEM: control scenario failed")
        return 1
    if not public_ok:
        print("REPRODUCED: submit() on an established leader is never decided/applied")
        return 1
    print("NOT REPRODUCED: every submitted command was decided and applied everywhere")
    return 0


if __name__ == "__main__":
    sys.exit(main())
