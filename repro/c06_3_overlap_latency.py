"""C06-3 (latency): overlapping InjectLatency windows on the same link do not compose.

Property clause (C06): "added latency ... is in effect for its target exactly while at least one fault
window covering that target is active, whatever other faults overlap it, and once every window has ended
the system is back to its configured state."

`InjectLatency.generate_events` (happysimulator/faults/network_faults.py) captures `link.latency` when the
schedule is built and its deactivate closure assigns that captured original back unconditionally; the
activate closure also builds on the captured original, not on what is currently installed.

Link a->b with ConstantLatency(10 ms).  Probe messages are sent a->b through the Network at
t = 5, 15, 25, 35, 45 s and the transit time is measured at b.
  1. staggered: +100 ms on [10,30) and +200 ms on [20,40)
  2. nested   : +100 ms on [10,40) and +200 ms on [20,30)
Expected: transit > 10 ms at 15, 25, 35 and == 10 ms at 5, 45.
Observed: at t=35 the transit is the plain 10 ms although a window is still active (the window ending at
30 restored the original).  Also reported, but not counted for the exit code: at t=25 only the later
fault's extra is applied (the two "additional" latencies do not add up).

Run: /venv/bin/python /verif/repro/c06_3_overlap_latency.py   (exit 1 = defect present, 0 = absent)
     HS_ROOT=/path/to/tree selects another source tree.
"""
import os
import sys

sys.path.insert(0, os.environ.get("HS_ROOT", "/repo"))
from happysimulator.components.network.link import NetworkLink
from happysimulator.components.network.network import Network
from happysimulator.core.entity import Entity
from happysimulator.core.event import Event
from happysimulator.core.simulation import Simulation
from happysimulator.core.temporal import Instant
from happysimulator.distributions.constant import ConstantLatency
from happysimulator.faults import FaultSchedule, InjectLatency


class Node(Entity):
    def __init__(self, name):
        super().__init__(name)
        self.transit_ms = {}

    def handle_event(self, event):
        sent = event.context["metadata"]["sent_at"]
        self.transit_ms[sent] = round((self.now.to_seconds() - sent) * 1000.0, 6)


def scenario(label, windows):
    a, b = Node("a"), Node("b")
    net = Network(name="net")
    base = ConstantLatency(0.010)
    link = NetworkLink(name="ab", latency=base)
    net.add_link(a, b, link)
    schedule = FaultSchedule()
    for extra, start, end in windows:
        schedule.add(InjectLatency("a", "b", extra_ms=extra, start=start, end=end))
    sim = Simulation(end_time=Instant.from_seconds(60.0), entities=[a, b, net], fault_schedule=schedule)

    def send(e):
        return [net.send(a, b, "probe", payload={"sent_at": e.time.to_seconds()})]

    for t in (5.0, 15.0, 25.0, 35.0, 45.0):
        sim.schedule(Event.once(time=Instant.from_seconds(t), event_type="send", fn=send))
    sim.run()

    bad = 0
    for t in (5.0, 15.0, 25.0, 35.0, 45.0):
        additive = 10.0 + sum(x for x, s, e in windows if s <= t < e)
        got = b.transit_ms.get(t)
        active = [f"+{x:g}ms[{s:g},{e:g})" for x, s, e in windows if s <= t < e]
        # hard criterion (property text): extra latency is in effect iff some window is active
        ok = got is not None and (got > 10.0 + 1e-6) == bool(active)
        note = "" if got is not None and abs(got - additive) < 1e-6 else f" (note: additive composition would be {additive} ms)"
        print(f"{label} t={t:>4}: transit={got} ms active={active} {'ok' if ok else 'WRONG: fault not in effect'}{note}")
        bad += not ok
    restored = link.latency is base
    print(f"{label} after all windows: link.latency is the configured object: {restored}")
    return bad + (not restored)


bad = 0
bad += scenario("staggered", [(100.0, 10.0, 30.0), (200.0, 20.0, 40.0)])
bad += scenario("nested   ", [(100.0, 10.0, 40.0), (200.0, 20.0, 30.0)])
print("DEFECT PRESENT" if bad else "defect absent")
sys.exit(1 if bad else 0)
