#!/usr/bin/env python
"""Deterministic repro: RaftNode accepts a stale-term AppendEntries success ack.

RaftNode._handle_append_entries_response steps down on term > current_term but
does not discard replies whose term is LOWER than the leader's current term.
A success ack produced during an earlier leadership stint of the same node
(term 1) and delivered while that node is leader again (term 3) is written
straight into _match_index[follower].  Because the leader's own log was
rewritten in between (by a term-2 leader), the acked index now designates a
DIFFERENT entry, which the follower never stored.  The term-3 leader then
commits and applies an entry held by a minority; a later leader legitimately
commits another command at the same index => State Machine Safety violated.

Runs on the real engine (Simulation + Network + NetworkLink + RaftNode).
  - natural election / heartbeat-jitter is removed: election timeouts are huge and
    elections are triggered by explicitly scheduled RaftElectionTimeout events
  - connectivity phases use the real Network.partition()/heal_partition()
  - one message (B's term-1 ack) is delayed by a NetworkLink subclass

Exit status: 1 = defect manifested, 0 = not manifested.
Usage: HS_ROOT=/path/to/checkout python repro.py
"""

from __future__ import annotations

import os
import sys

sys.path.insert(0, os.environ.get("HS_ROOT", "/repo"))

from dataclasses import dataclass  # noqa: E402

from happysimulator.components.consensus.raft import RaftNode, RaftState  # noqa: E402
from happysimulator.components.network.link import NetworkLink  # noqa: E402
from happysimulator.components.network.network import Network  # noqa: E402
from happysimulator.core.entity import Entity  # noqa: E402
from happysimulator.core.event import Event  # noqa: E402
from happysimulator.core.simulation import Simulation  # noqa: E402
from happysimulator.core.temporal import Instant  # noqa: E402
from happysimulator.distributions.constant import ConstantLatency  # noqa: E402

LINK_LATENCY = 0.010
STALE_ACK_ARRIVAL = 20.0  # absolute sim time at which the delayed ack lands
HUGE = 1.0e6


# --------------------------------------------------------------------------- #
# infrastructure
# --------------------------------------------------------------------------- #
class RecordingSM:
    """StateMachine that records every applied command in order."""

    def __init__(self) -> None:
        self.applied: list[object] = []

    def apply(self, command):
        self.applied.append(command)
        return command

    def snapshot(self):
        return list(self.applied)

    def restore(self, snapshot) -> None:
        self.applied = list(snapshot)


DELAYED: list[str] = []  # log of messages that got the scripted delay


@dataclass
class ScriptedLink(NetworkLink):
    """NetworkLink whose delay for ONE specific message is scripted.

    Everything else (loss check, forwarding, stats) is the stock NetworkLink.
    The scripted message: the first successful AppendEntriesResponse B -> A
    carrying term == 1 and match_index == 2.
    """

    def _calculate_delay(self, event: Event) -> float:
        md = event.context.get("metadata", {})
        if (
            not DELAYED
            and event.event_type == "RaftAppendEntriesResponse"
            and md.get("source") == "B"
            and md.get("destination") == "A"
            and md.get("term") == 1
            and md.get("success") is True
            and md.get("match_index") == 2
        ):
            now = self.now.to_seconds()
            DELAYED.append(
                f"t={now:.3f} link B->A: delaying ack(term=1, success, match_index=2) "
                f"until t={STALE_ACK_ARRIVAL:.3f}"
            )
            return STALE_ACK_ARRIVAL - now
        return super()._calculate_delay(event)


class Driver(Entity):
    """Runs scripted steps (callables) at scheduled times."""

    def __init__(self) -> None:
        super().__init__("driver")
        self.steps: list = []

    def at(self, t: float, fn) -> Event:
        self.steps.append(fn)
        return Event(
            time=Instant.from_seconds(t),
            event_type="DriverStep",
            target=self,
            context={"metadata": {"step": len(self.steps) - 1}},
        )

    def handle_event(self, event: Event):
        return self.steps[event.context["metadata"]["step"]]()


# --------------------------------------------------------------------------- #
# cluster
# --------------------------------------------------------------------------- #
network = Network(name="net")
names = ["A", "B", "C", "D", "E"]
sms = {n: RecordingSM() for n in names}
nodes = {
    n: RaftNode(
        name=n,
        network=network,
        state_machine=sms[n],
        election_timeout_min=HUGE,
        election_timeout_max=HUGE + 1,
        heartbeat_interval=0.5,
    )
    for n in names
}
for nd in nodes.values():
    nd.set_peers(list(nodes.values()))
for s in names:
    for d in names:
        if s != d:
            network.add_link(
                nodes[s],
                nodes[d],
                ScriptedLink(name=f"{s}->{d}", latency=ConstantLatency(LINK_LATENCY)),
            )

driver = Driver()
A, B, C, D, E = (nodes[n] for n in names)
QUORUM = A.quorum_size  # 3 of 5


def connect(*groups: str) -> None:
    """Only nodes within the same group can talk; unlisted nodes are isolated."""
    network.heal_partition()
    group_of = {}
    for gi, g in enumerate(groups):
        for n in g:
            group_of[n] = gi
    for i, a in enumerate(names):
        for b in names[i + 1 :]:
            if a not in group_of or b not in group_of or group_of[a] != group_of[b]:
                network.partition([nodes[a]], [nodes[b]])


def fmt_log(nd: RaftNode) -> str:
    return "[" + ", ".join(f"{e.index}:t{e.term}:{e.command}" for e in nd.log.entries_after(0)) + "]"


def snap(title: str) -> None:
    print(f"--- t={driver.now.to_seconds():.3f}  {title}")
    for n in names:
        nd = nodes[n]
        extra = ""
        if nd.state == RaftState.LEADER:
            extra = f" match_index={dict(sorted(nd._match_index.items()))}"
        print(
            f"    {n}: {nd.state.name:<9} term={nd.current_term} log={fmt_log(nd)} "
            f"commit={nd.log.commit_index} applied={sms[n].applied}{extra}"
        )


def holders(index: int, term: int) -> list[str]:
    out = []
    for n in names:
        e = nodes[n].log.get(index)
        if e is not None and e.term == term:
            out.append(n)
    return out


def election_timeout(nd: RaftNode):
    def fire():
        print(f"--- t={driver.now.to_seconds():.3f}  election timeout fires on {nd.name}")
        return [Event(time=driver.now, event_type="RaftElectionTimeout", target=nd, daemon=True)]

    return fire


def submit(nd: RaftNode, *cmds: str):
    def do():
        for c in cmds:
            nd.submit(c)
        print(f"--- t={driver.now.to_seconds():.3f}  client submits {list(cmds)} to {nd.name} "
              f"({nd.state.name}, term {nd.current_term})")

    return do


def phase(desc: str, *groups: str):
    def do():
        connect(*groups)
        print(f"--- t={driver.now.to_seconds():.3f}  connectivity: {desc}")

    return do


findings: list[str] = []


def check_commit_quorum(label: str):
    """Leader-side check: every committed index must be held by a majority."""

    def do():
        snap(label)
        for n in names:
            nd = nodes[n]
            if nd.state != RaftState.LEADER:
                continue
            for idx in range(1, nd.log.commit_index + 1):
                e = nd.log.get(idx)
                h = holders(idx, e.term)
                if len(h) < QUORUM:
                    msg = (
                        f"leader {n} (term {nd.current_term}) has commit_index={nd.log.commit_index} "
                        f"but entry {idx}:t{e.term}:{e.command} is stored only on {h} "
                        f"({len(h)} < quorum {QUORUM}); match_index={dict(sorted(nd._match_index.items()))}"
                    )
                    print("    !!! " + msg)
                    findings.append(msg)
            for peer, mi in sorted(nd._match_index.items()):
                real = 0
                for idx in range(1, nd.log.last_index + 1):
                    pe, le = nodes[peer].log.get(idx), nd.log.get(idx)
                    if pe is None or pe.term != le.term or pe.command != le.command:
                        break
                    real = idx
                if mi > real:
                    print(
                        f"    !!! leader {n}: match_index[{peer}]={mi} but {peer}'s log matches "
                        f"the leader's only up to index {real}  ({peer} log={fmt_log(nodes[peer])})"
                    )

    return do


# --------------------------------------------------------------------------- #
# script
# --------------------------------------------------------------------------- #
script = [
    # term 1: A leads, replicates x1,x2 to B only; B's ack is stuck in the network
    (0.50, phase("full mesh", "ABCDE")),
    (1.00, election_timeout(A)),
    (1.20, lambda: snap("A elected for term 1")),
    (1.25, phase("{A,B} | C D E isolated", "AB")),
    (1.30, submit(A, "x1", "x2")),
    (1.60, lambda: snap("A's heartbeat replicated x1,x2 to B; B's ack (term 1, match 2) is in flight")),
    # term 2: C leads (votes D,E), overwrites A's log with y at index 1
    (1.65, phase("{C,D,E} | A isolated | B isolated", "CDE")),
    (1.70, election_timeout(C)),
    (1.80, submit(C, "y")),
    (1.85, phase("{A,C} | B D E isolated", "AC")),
    (2.40, lambda: snap("C (term 2) overwrote A's log: x1,x2 truncated, y at index 1")),
    # term 3: A leads again (votes D,E), appends z at index 2, replicates to D only
    (2.45, phase("{A,D,E} | B isolated | C isolated", "ADE")),
    (2.50, election_timeout(A)),
    (2.60, submit(A, "z")),
    (2.65, phase("{A,D} | B C E isolated", "AD")),
    (3.20, check_commit_quorum("A leader again (term 3); z at index 2 is on A,D only -> NOT committed")),
    (3.25, phase("everyone isolated", )),
    (19.9, check_commit_quorum("just before the stale term-1 ack from B reaches A")),
    # t=20.0: the stale ack is delivered by the B->A link
    (20.1, check_commit_quorum("just after the stale term-1 ack from B reached A")),
    # term 4: E leads (votes B,C), commits w at index 2 on B,C,E
    (21.0, phase("{B,C,E} | A isolated | D isolated", "BCE")),
    (21.1, election_timeout(E)),
    (21.3, submit(E, "w")),
    (23.0, lambda: snap("E (term 4) committed w at index 2 on a real majority {B,C,E}")),
    (23.1, phase("full mesh (healed)", "ABCDE")),
    (25.0, lambda: snap("final state after heal")),
]

sim = Simulation(duration=30.0, entities=[network, driver, *nodes.values()])
for t, fn in script:
    sim.schedule(driver.at(t, fn))
sim.run()

for line in DELAYED:
    print("note: " + line)
if not DELAYED:
    print("note: the scripted ack was never seen (scenario did not unfold as intended)")

# --------------------------------------------------------------------------- #
# verdict: State Machine Safety
# --------------------------------------------------------------------------- #
print("=== applied commands per node (index: command)")
maxlen = max(len(sm.applied) for sm in sms.values())
for n in names:
    print(f"    {n}: " + ", ".join(f"{i + 1}:{c}" for i, c in enumerate(sms[n].applied)))
for i in range(maxlen):
    seen = {}
    for n in names:
        if i < len(sms[n].applied):
            seen.setdefault(sms[n].applied[i], []).append(n)
    if len(seen) > 1:
        msg = f"STATE MACHINE SAFETY VIOLATED at index {i + 1}: " + "; ".join(
            f"{v} applied {k!r}" for k, v in seen.items()
        )
        findings.append(msg)

if findings:
    print("=== DEFECT MANIFESTED")
    for f in dict.fromkeys(findings):
        print("  * " + f)
    sys.exit(1)
print("=== OK: every committed index was on a majority and all state machines agree")
sys.exit(0)
