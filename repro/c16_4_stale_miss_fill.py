"""C16-4: a cache-miss fill re-installs a stale value over a newer completed write.

Property clause (C16): "a read issued after a write to the same key has completed returns that
write's value or a later one."

`CachedStore.get` on a miss does `value = yield from self._backing_store.get(key)` and then stores
`value` into the cache unconditionally (`self._cache_put(key, value)`), without looking at what
happened to `key` in the cache while it was suspended.  A write-through `put(k, v2)` that starts
during the miss fetch updates the cache to v2 at once but reaches the backing store only after
its write latency; the miss fetch that reads the backing store in between returns v1 and
overwrites the cached v2 with v1.  From then on every read hits the cache and returns v1 although
the write of v2 completed (and the backing store holds v2).

Schedule (backing read latency 0.5 s, write latency 0.5 s, key k=v1 pre-loaded in the backing
store, cache empty, write-through):
   t=1.0  reader A: get(k)        miss, fetch in flight until 1.5
   t=1.2  writer  : put(k, v2)    cache[k]=v2 now, backing store written at 1.7 (put completes)
   t=1.5  reader A's fetch reads v1 from the backing store and fills cache[k]=v1
   t=3.0  reader B: get(k)        issued 1.3 s after the write completed -> returns v1

Run: /venv/bin/python /verif/repro/c16_4_stale_miss_fill.py   (exit 1 = defect present)
     HS_ROOT=/path/to/checkout to run against another tree.
"""
import os
import sys

sys.path.insert(0, os.environ.get("HS_ROOT", "/repo"))

from happysimulator.components.datastore import CachedStore, KVStore, LRUEviction
from happysimulator.core.entity import Entity
from happysimulator.core.event import Event
from happysimulator.core.simulation import Simulation
from happysimulator.core.temporal import Instant

log = []


class Client(Entity):
    def __init__(self, name, cache):
        super().__init__(name)
        self.cache = cache

    def handle_event(self, event):
        if event.event_type == "get":
            return self._get(event.context["tag"])
        return self._put(event.context["value"])

    def _get(self, tag):
        t0 = self.now.to_seconds()
        v = yield from self.cache.get("k")
        log.append((tag, t0, self.now.to_seconds(), v))
        print(f"  {tag}: get(k) issued t={t0:.3f} returned {v!r} at t={self.now.to_seconds():.3f}")

    def _put(self, value):
        t0 = self.now.to_seconds()
        yield from self.cache.put("k", value)
        log.append(("put", t0, self.now.to_seconds(), value))
        print(f"  writer: put(k,{value!r}) issued t={t0:.3f} completed t={self.now.to_seconds():.3f}")


backing = KVStore(name="backing", read_latency=0.5, write_latency=0.5)
backing.put_sync("k", "v1")
cache = CachedStore(name="cache", backing_store=backing, cache_capacity=8,
                    eviction_policy=LRUEviction(), write_through=True)
client = Client("client", cache)
sim = Simulation(end_time=Instant.from_seconds(10), entities=[client, cache, backing])


def at(t, etype, **ctx):
    ev = Event(time=Instant.from_seconds(t), event_type=etype, target=client)
    ev.context.update(ctx)
    sim.schedule(ev)


at(1.0, "get", tag="reader A")
at(1.2, "put", value="v2")
at(3.0, "get", tag="reader B")
sim.run()

put_done = next(e for e in log if e[0] == "put")[2]
reader_b = next(e for e in log if e[0] == "reader B")
print(f"backing store holds k={backing.get_sync('k')!r}; cache holds k={cache._cache.get('k')!r}")
stale = reader_b[1] > put_done and reader_b[3] != "v2"
if stale:
    print(f"DEFECT PRESENT: read issued at t={reader_b[1]} (write completed at t={put_done}) returned "
          f"{reader_b[3]!r}, older than the completed write 'v2'")
else:
    print("ok: the read after the completed write returned the written value")
sys.exit(1 if stale else 0)
