"""C18-2: ORSet.remove() clears the element's local tag set and ORSet.merge() is a plain union of tag
sets, so a remove is undone by merging any replica that still carries the (already observed and
removed) tag: the removed element comes back although no add happened after / concurrently with the
remove.

Property clause that fails: "an OR-set contains an element exactly when some add of it was not
observed by a remove" (and the mutator `remove` is not an inflation of the merge semilattice, so
replicas converge to the wrong value).

Schedule 1 (direct API, 2 replicas):  a.add(x); b.merge(a); a.remove(x); a.merge(b)  ->  x in a.
Schedule 2 (real engine): two CRDTStore nodes (crdt_factory=ORSet) gossiping over a Network with a
constant 10 ms link.  t=0.5 Write add "x" on node-a; t=1.0 gossip round (node-b learns x);
t=1.5 Write remove "x" on node-a (the remove has observed the only add); t=2.0, 3.0 gossip rounds.
Expected: "x" absent on both nodes at the end.  Observed: present on both.

Run: /venv/bin/python /verif/repro/c18_2_orset_remove_resurrect.py   (exit 1 = defect present)
     HS_ROOT=/path/to/tree to test another checkout.
"""
import os
import random
import sys

sys.path.insert(0, os.environ.get("HS_ROOT", "/repo"))

from happysimulator.components.crdt.crdt_store import CRDTStore  # noqa: E402
from happysimulator.components.crdt.or_set import ORSet  # noqa: E402
from happysimulator.components.network.link import NetworkLink  # noqa: E402
from happysimulator.components.network.network import Network  # noqa: E402
from happysimulator.core.event import Event  # noqa: E402
from happysimulator.core.simulation import Simulation  # noqa: E402
from happysimulator.core.temporal import Instant  # noqa: E402
from happysimulator.distributions.constant import ConstantLatency  # noqa: E402

bad = False

# --- schedule 1: direct
a, b = ORSet("a"), ORSet("b")
a.add("x")
b.merge(a)
a.remove("x")
a.merge(b)
print("direct : a.add(x); b.merge(a); a.remove(x); a.merge(b)  ->  a.elements =", set(a.elements),
      "(expected: empty)")
bad |= "x" in a
# also through serialisation, and the other direction
b2 = ORSet.from_dict(b.to_dict())
a2 = ORSet("a")
a2.add("x")
a2.remove("x")  # a2 == state of a right after its remove
b2.merge(a2)
print("direct : replica b after merging the remover's state     ->  b.elements =", set(b2.elements),
      "(expected: empty)")
bad |= "x" in b2

# --- schedule 2: engine + gossip
random.seed(1)
net = Network(name="net")
na = CRDTStore("node-a", network=net, crdt_factory=lambda nid: ORSet(nid), gossip_interval=1.0)
nb = CRDTStore("node-b", network=net, crdt_factory=lambda nid: ORSet(nid), gossip_interval=1.0)
na.add_peers([nb])
nb.add_peers([na])
net.add_bidirectional_link(na, nb, NetworkLink(name="link", latency=ConstantLatency(0.010)))
sim = Simulation(end_time=Instant.from_seconds(4.0), entities=[na, nb, net])


def write(t, node, op, value):
    return Event(time=Instant.from_seconds(t), event_type="Write", target=node,
                 context={"metadata": {"key": "cart", "operation": op, "value": value}})


sim.schedule(write(0.5, na, "add", "x"))
sim.schedule(write(1.5, na, "remove", "x"))
for t in (1.0, 2.0, 3.0):
    for node in (na, nb):
        sim.schedule(Event(time=Instant.from_seconds(t), event_type="GossipTick", target=node))
sim.run()
va, vb = set(na.crdts["cart"].value), set(nb.crdts["cart"].value)
print(f"engine : node-a cart = {va}, node-b cart = {vb}  (expected: both empty; the only add of x "
      f"was observed by the remove)")
bad |= bool(va) or bool(vb)

print("DEFECT PRESENT: removed element resurrected by merge" if bad else "ok")
sys.exit(1 if bad else 0)
