"""C07: ConnectionPool._handle_warmup stamps each warmed connection's idle-timeout check `now + idle_timeout` when the connection is created
but hands all of them to the engine only when the whole warm-up has finished.  When establishing the remaining connections takes longer than
the idle timeout, the early checks are stamped in the past: "Time travel detected", dropped, and those connections are never closed for idleness.
Exits 1 when an emitted event is discarded for lying in the past, 0 otherwise."""
import logging, os, sys
sys.path.insert(0, os.environ.get("HS_ROOT", "/repo"))
from happysimulator import Simulation, Instant, Entity
from happysimulator.components.client.connection_pool import ConnectionPool
from happysimulator.distributions.constant import ConstantLatency


class Srv(Entity):
    def handle_event(self, event):
        return None


class Grab(logging.Handler):
    def __init__(self):
        super().__init__(); self.msgs = []
    def emit(self, r):
        self.msgs.append(r.getMessage())


g = Grab()
lg = logging.getLogger("happysimulator.core.simulation"); lg.addHandler(g); lg.setLevel(logging.DEBUG)
srv = Srv("server")
pool = ConnectionPool("pool", target=srv, min_connections=3, max_connections=4, idle_timeout=1.0, connection_latency=ConstantLatency(2.0))
sim = Simulation(start_time=Instant.Epoch, end_time=Instant.from_seconds(60.0), entities=[srv, pool])
sim.schedule(pool.warmup())
sim.run()
tt = [m for m in g.msgs if "ime travel" in m]
print("time-travel drops:", len(tt), tt[:1])
print("idle connections left at t=60 (idle timeout 1 s):", len(pool._idle_connections))
sys.exit(1 if tt else 0)
