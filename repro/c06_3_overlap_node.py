"""C06-3 (node faults): overlapping CrashNode / PauseNode windows on the same entity do not compose.

Property clause (C06): an entity is down "exactly while at least one fault window covering that target is
active, whatever other faults overlap it"; "While an entity is crashed or paused by a fault it executes
nothing".

`CrashNode` / `PauseNode` (happysimulator/faults/node_faults.py) set `entity._crashed = True` on
activation and `entity._crashed = False` on deactivation -- a plain boolean, so the first window that
ends brings the entity back although another window is still open.

Schedules (one request per second, t = 0.5, 1.5, ... to "server"):
  1. staggered: PauseNode[10,30) + PauseNode[20,40)            -> expected down on [10,40)
  2. nested   : CrashNode(at=10, restart_at=40) + PauseNode[20,30) -> expected down on [10,40)
  3. permanent: CrashNode(at=10) (no restart) + PauseNode[20,30)   -> expected down on [10,inf)
Observed on the defective code: requests are handled on [30,40) (1, 2) and from t=30 on (3).

Run: /venv/bin/python /verif/repro/c06_3_overlap_node.py   (exit 1 = defect present, 0 = absent)
     HS_ROOT=/path/to/tree selects another source tree.
"""
import os
import sys

sys.path.insert(0, os.environ.get("HS_ROOT", "/repo"))
from happysimulator.core.entity import Entity
from happysimulator.core.event import Event
from happysimulator.core.simulation import Simulation
from happysimulator.core.temporal import Instant
from happysimulator.faults import CrashNode, FaultSchedule, PauseNode


class Server(Entity):
    def __init__(self, name):
        super().__init__(name)
        self.handled = []

    def handle_event(self, event):
        self.handled.append(event.time.to_seconds())


def scenario(label, faults, down_from, down_to):
    server = Server("server")
    bystander = Server("bystander")
    schedule = FaultSchedule()
    for f in faults:
        schedule.add(f)
    sim = Simulation(
        end_time=Instant.from_seconds(50.0), entities=[server, bystander], fault_schedule=schedule
    )
    for i in range(50):
        for tgt in (server, bystander):
            sim.schedule(Event(time=Instant.from_seconds(i + 0.5), event_type="Request", target=tgt))
    sim.run()
    while_down = [t for t in server.handled if down_from <= t < down_to]
    missing_up = [i + 0.5 for i in range(50) if not (down_from <= i + 0.5 < down_to) and (i + 0.5) not in server.handled]
    print(f"{label}: handled while some window is active: {while_down}")
    print(f"   not handled although no window is active: {missing_up}; bystander handled {len(bystander.handled)}/50")
    return len(while_down) + len(missing_up) + (50 - len(bystander.handled))


bad = 0
bad += scenario("staggered Pause[10,30)+Pause[20,40)", [PauseNode("server", 10.0, 30.0), PauseNode("server", 20.0, 40.0)], 10.0, 40.0)
bad += scenario("nested Crash[10,40)+Pause[20,30)   ", [CrashNode("server", at=10.0, restart_at=40.0), PauseNode("server", 20.0, 30.0)], 10.0, 40.0)
bad += scenario("permanent Crash[10,inf)+Pause[20,30)", [CrashNode("server", at=10.0), PauseNode("server", 20.0, 30.0)], 10.0, 1e9)
print("DEFECT PRESENT" if bad else "defect absent")
sys.exit(1 if bad else 0)
