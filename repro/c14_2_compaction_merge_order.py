"""C14-2: compaction merges the overlapping SSTables of the TARGET level oldest-first with
first-writer-wins, so an older value overwrites a newer one - a deleted key comes back to life
(and an overwritten key rolls back) permanently.

Property clause (C14): "every read returns the value of the latest write to that key that completed
before the read began ...; deleted keys stay deleted".

Code: lsm_tree.py `_compact` (and identically `_compact_sync`):

    merged_data = {k: v for sst in sstables for k, v in sst.scan()}      # source level, oldest->newest, last wins: OK
    for sst in self._levels[target_level]:                                # target level, oldest->newest ...
        if any(sst.overlaps(s) for s in sstables):
            for k, v in sst.scan():
                if k not in merged_data:                                  # ... FIRST wins: the OLDEST target table wins
                    merged_data[k] = v

  Level lists are append-ordered (oldest first; `get` reads them `reversed`).  As long as the tables
  of a level >= 1 are disjoint the direction does not matter, and purely sequential use (sync API)
  keeps them disjoint - a 400-seed differential fuzz of put_sync/delete/get/scan against a dict found
  nothing for any strategy.  But `_compact` is a generator that suspends between choosing its inputs
  and installing its output, and a flush that completes during that suspension starts a second,
  overlapping compaction (`_flush_memtable` -> `should_compact` -> `_compact`); both outputs are
  appended to the target level, which now holds two tables with the same key range, the older one
  first.  The next compaction into that level then lets the older one win.

Schedule (no WAL, memtable_size=2, LeveledCompaction(level_0_max=2) so that L1 itself is not compacted
further; put = 10 us, flush = 2 ms, compaction = 2 ms), two writer entities sharing the tree:
  W1 0.10000 put(m,"old") put(a1)       -> flush F1 .. 0.10202        L0=[A{a1,m=old}]
  W1 0.10202 put(a2) put(a3)            -> flush F2 .. 0.10404        L0=[A,B] -> compaction C1 {A,B} 0.10404 .. 0.10604
  W2 0.10300 delete(m) put(b1)          -> flush F3 .. 0.10502        L0=[A,B,D{b1,m=TOMBSTONE}] -> compaction C2 {A,B,D} 0.10502 .. 0.10702
     0.10604 C1 installs N1{.., m=old}; 0.10702 C2 installs N2{.., m=TOMBSTONE}:  L1=[N1, N2]
  R  0.10900 get(m) -> None  (correct: N2 is consulted first)
  W1 0.10604 put(c1) put(c2) -> F4; put(d1) put(d2) -> F5 -> compaction C3 {E,F} + overlapping L1 [N1, N2]
             (0.11008 .. 0.11208): N1 is merged before N2 and wins -> L1=[N3{.., m="old"}]
  R  0.12000 get(m) -> "old"   : the key deleted at t=0.103 is back.

Variant with max_levels=2 (same schedule): L1 is the deepest level, so C2 (whose merged value for m is
the tombstone) DROPS the tombstone and its output N2 has no entry for m at all, while C1's output N1
(chosen before the delete was flushed) still has m="old":  L1=[N1{m=old}, N2{}] and already the read at
t=0.109 returns "old".  Reversing the merge order alone does not cure this one; the two compactions
must not overlap in time (each picks its inputs before its suspension and installs after it).

Run: /venv/bin/python /verif/repro/c14_2_compaction_merge_order.py   (exit 1 = defect present)
     HS_ROOT=/path/to/worktree /venv/bin/python ...                   (to test another checkout)
"""
import os
import sys

sys.path.insert(0, os.environ.get("HS_ROOT", "/repo"))

from happysimulator.components.storage.lsm_tree import _TOMBSTONE, LeveledCompaction, LSMTree
from happysimulator.core.entity import Entity
from happysimulator.core.event import Event
from happysimulator.core.simulation import Simulation
from happysimulator.core.temporal import Instant

def run(max_levels):
    lsm = LSMTree("db", memtable_size=2, compaction_strategy=LeveledCompaction(level_0_max=2),
                  max_levels=max_levels)
    log = []

    def show(t, what):
        lv = {i: [[(k, "TOMB" if v is _TOMBSTONE else v) for k, v in s.scan() if k == "m"] for s in lvl]
              for i, lvl in enumerate(lsm._levels) if lvl}
        log.append(f"t={t:.5f} {what:<28} entries for 'm' per level/table: {lv}")

    class W1(Entity):
        def handle_event(self, event):
            for k, v in [("m", "old"), ("a1", 1), ("a2", 2), ("a3", 3), ("c1", 4), ("c2", 5), ("d1", 6), ("d2", 7)]:
                yield from lsm.put(k, v)
                show(self.now.to_seconds(), f"W1 put({k}) done")

    class W2(Entity):
        def handle_event(self, event):
            yield from lsm.delete("m")
            self.deleted_at = self.now.to_seconds()
            show(self.now.to_seconds(), "W2 delete(m) done")
            yield from lsm.put("b1", 8)
            show(self.now.to_seconds(), "W2 put(b1) done")

    reads = []

    class Reader(Entity):
        def handle_event(self, event):
            t0 = self.now.to_seconds()
            v = yield from lsm.get("m")
            reads.append((t0, v))
            show(t0, f"R  get(m) -> {v!r}")

    w1, w2, r = W1("w1"), W2("w2"), Reader("reader")
    sim = Simulation(end_time=Instant.from_seconds(1.0), entities=[lsm, w1, w2, r])
    sim.schedule(Event(time=Instant.from_seconds(0.100), event_type="go", target=w1))
    sim.schedule(Event(time=Instant.from_seconds(0.103), event_type="go", target=w2))
    sim.schedule(Event(time=Instant.from_seconds(0.109), event_type="go", target=r))
    sim.schedule(Event(time=Instant.from_seconds(0.120), event_type="go", target=r))
    sim.run()

    print(f"--- max_levels={max_levels} ---")
    print("\n".join(sorted(log)))
    print(f"compactions={lsm.stats.compactions}, reads of 'm' = {reads}, final get_sync('m') = {lsm.get_sync('m')!r}")
    bad = any(v is not None for t0, v in reads if t0 > w2.deleted_at) or lsm.get_sync("m") is not None
    if bad:
        print("VIOLATION: 'm' was deleted at t=%.5f and never written again, yet it is readable" % w2.deleted_at)
    return bad


results = [run(7), run(2)]
print("DEFECT PRESENT" if any(results) else "defect absent")
sys.exit(1 if any(results) else 0)
