"""C03: CachedStore (write-back mode) keeps its dirty keys in a set[str]; flush() iterates
`list(self._dirty_keys)` to drive the backing-store writes, and get_dirty_keys() returns the same
list.  The order of the writes therefore depends on the per-process string hash seed.

Property clause that fails: same model + same seeds => identical deliveries / component statistics
"regardless of ... the interpreter's hash randomisation".

Model (real engine): KVStore "db" with capacity=4 (FIFO eviction of oldest inserted key), CachedStore
with write_through=False, LRUEviction, capacity 16.  A client entity puts 8 string keys (k0..k7, in
that order) and then calls flush().  Because the flush order is the set order, (a) the sequence in
which keys reach the db differs, (b) *which* 4 keys survive in the bounded db differs.
The script runs the model in fresh interpreters differing only in PYTHONHASHSEED and compares digests.

Run: /venv/bin/python /verif/repro/c03_cachedstore_flush_set_order.py   (exit 1 = defect present)
     HS_ROOT=/path/to/tree to test another checkout.
"""
import hashlib
import json
import os
import subprocess
import sys

ROOT = os.environ.get("HS_ROOT", "/repo")


def child() -> None:
    sys.path.insert(0, ROOT)
    import random

    from happysimulator.components.datastore import CachedStore, KVStore, LRUEviction
    from happysimulator.core.entity import Entity
    from happysimulator.core.event import Event
    from happysimulator.core.simulation import Simulation
    from happysimulator.core.temporal import Instant

    random.seed(42)
    db = KVStore("db", read_latency=0.001, write_latency=0.005, capacity=4)
    cache = CachedStore("cache", backing_store=db, cache_capacity=16,
                        eviction_policy=LRUEviction(), write_through=False)
    seen = {}

    class Client(Entity):
        def handle_event(self, event):
            for i in range(8):
                yield from cache.put(f"k{i}", i)
            seen["dirty_listing"] = cache.get_dirty_keys()
            n = yield from cache.flush()
            seen["flushed"] = n

    client = Client("client")
    sim = Simulation(end_time=Instant.from_seconds(10), entities=[db, cache, client])
    sim.schedule(Event(time=Instant.from_seconds(1), event_type="go", target=client))
    sim.run()
    out = {"dirty_listing": seen["dirty_listing"], "db_keys_in_write_order": db.keys(),
           "db_evictions": db.stats.evictions, "writebacks": cache.stats.writebacks}
    out["digest"] = hashlib.sha256(json.dumps(out).encode()).hexdigest()[:16]
    print(json.dumps(out))


def main() -> int:
    results = {}
    procs = {
        hs: subprocess.Popen([sys.executable, os.path.abspath(__file__), "--child"],
                             env=dict(os.environ, PYTHONHASHSEED=hs, HS_ROOT=ROOT),
                             stdout=subprocess.PIPE, stderr=subprocess.PIPE, text=True)
        for hs in ("1", "2", "3")
    }  # fresh interpreters, started concurrently
    for hs, p in procs.items():
        out, err = p.communicate()
        if p.returncode != 0:
            print(err)
            return 2
        results[hs] = json.loads(out.strip().splitlines()[-1])
        print(f"PYTHONHASHSEED={hs}: {results[hs]}")
    same = len({r["digest"] for r in results.values()}) == 1
    print("ok: identical run in every interpreter" if same
          else "DEFECT PRESENT: write-back flush order / surviving db keys differ with PYTHONHASHSEED")
    return 0 if same else 1


if __name__ == "__main__":
    if "--child" in sys.argv:
        child()
    else:
        sys.exit(main())
