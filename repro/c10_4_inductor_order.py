"""C10-4 (sibling of RateLimitedEntity): Inductor forwards an arriving request directly even when older requests are
still buffered, so requests leave in an order different from their arrival order.

Schedule (time_constant 10 s): arrivals at 0.0 (r1, forwarded), 1.0 (r2, forwarded; smoothed interval 1.0),
1.1 (r3, too early -> buffered, drain poll at ~2.09), 2.05 (r4: elapsed since last output 1.05 >= smoothed interval
-> forwarded directly, overtaking r3).

Run: /venv/bin/python /verif/repro/c10_4_inductor_order.py   (exit 1 = defect present)
"""
import os
import sys

sys.path.insert(0, os.environ.get("HS_ROOT", "/repo"))
from happysimulator.components.rate_limiter.inductor import Inductor
from happysimulator.core.entity import Entity
from happysimulator.core.event import Event
from happysimulator.core.simulation import Simulation
from happysimulator.core.temporal import Instant


class Sink(Entity):
    def __init__(self):
        super().__init__("sink")
        self.seen = []

    def handle_event(self, event):
        self.seen.append((event.context["metadata"]["rid"], round(event.time.to_seconds(), 4)))
        return None


sink = Sink()
ind = Inductor("ind", downstream=sink, time_constant=10.0)
sim = Simulation(end_time=Instant.from_seconds(20), entities=[ind, sink])
for rid, t in (("r1", 0.0), ("r2", 1.0), ("r3", 1.1), ("r4", 2.05)):
    sim.schedule(Event(time=Instant.from_seconds(t), event_type="req", target=ind, context={"metadata": {"rid": rid}}))
sim.run()
order = [r for r, _ in sink.seen]
print("forwarded:", sink.seen)
print("arrival order r1,r2,r3,r4 ->", order)
sys.exit(0 if order == ["r1", "r2", "r3", "r4"] else 1)
