import os, sys
sys.path.insert(0, os.environ.get("HS_ROOT", "/repo"))
"""C16_1: write-back CachedStore.delete() throws the dirty value away at once and
only then starts the (slow) backing-store delete.  While that delete is in flight
a get() misses the cache and is served the *pre-write* value still sitting in the
backing store - a value older than an already completed write."""
from happysimulator.components.datastore.cached_store import CachedStore
from happysimulator.components.datastore.eviction_policies import LRUEviction
from happysimulator.components.datastore.kv_store import KVStore
from happysimulator.core.entity import Entity
from happysimulator.core.event import Event
from happysimulator.core.simulation import Simulation
from happysimulator.core.temporal import Instant


class Client(Entity):
    def __init__(self, cache):
        super().__init__("client")
        self.cache = cache
        self.log = []

    def handle_event(self, event):
        op, key, val = event.context["op"]
        t0 = self.now.to_seconds()
        res = None
        if op == "put":
            yield from self.cache.put(key, val)
        elif op == "get":
            res = yield from self.cache.get(key)
        elif op == "delete":
            res = yield from self.cache.delete(key)
        elif op == "flush":
            res = yield from self.cache.flush()
        self.log.append((op, key, val, t0, self.now.to_seconds(), res))


backing = KVStore("db")  # defaults: read 1 ms, write 5 ms, delete 5 ms
cache = CachedStore("cache", backing, cache_capacity=4, eviction_policy=LRUEviction(),
                    write_through=False)  # write-back
client = Client(cache)
sim = Simulation(start_time=Instant.Epoch, end_time=Instant.from_seconds(1.0),
                 entities=[client, cache, backing])
plan = [
    (0.000, ("put", "k", "v0")),     # old value ...
    (0.010, ("flush", None, None)),  # ... reaches the backing store (done at 15 ms)
    (0.020, ("put", "k", "v1")),     # new value: completed at 20.1 ms, dirty in cache
    (0.030, ("delete", "k", None)),  # lands in the backing store at 35 ms
    (0.031, ("get", "k", None)),     # issued while the delete is in flight
    (0.050, ("get", "k", None)),     # after the delete completed
]
for t, op in plan:
    sim.schedule(Event(time=Instant.from_seconds(t), event_type="op", target=client,
                       context={"op": op}))
sim.run()

for rec in client.log:
    print("%-6s key=%s val=%s issued=%.4f done=%.4f -> %r" % rec)
gets = [r for r in client.log if r[0] == "get"]
during, after = gets[0][5], gets[1][5]
print()
print("get issued at 31 ms (put v1 completed at 20.1 ms, delete in flight) returned:", repr(during))
print("property requires: 'v1' (the last completed write) or None (the concurrent delete)")
print("get after the delete returned:", repr(after), "(must be None)")
bad = during not in ("v1", None) or after is not None
if bad:
    print("VIOLATION: a read returned 'v0', a value older than the completed write 'v1'")
sys.exit(1 if bad else 0)
