import os, sys
sys.path.insert(0, os.environ.get("HS_ROOT", "/repo"))
"""C16_4: SoftTTLCache.get() on a hard miss while a background refresh of the key is
in flight ("request coalescing") sleeps a fixed `read_latency` and then looks into
the cache.  If the refreshed entry is no longer there at that moment - evicted by
capacity pressure, invalidate()d, or already past a short hard TTL - it returns
None, i.e. "key does not exist", although the key exists in the backing store and
was never deleted."""
from happysimulator.components.datastore.kv_store import KVStore
from happysimulator.components.datastore.soft_ttl_cache import SoftTTLCache
from happysimulator.core.entity import Entity
from happysimulator.core.event import Event
from happysimulator.core.simulation import Simulation
from happysimulator.core.temporal import Instant


class Client(Entity):
    def __init__(self, cache):
        super().__init__("client")
        self.cache = cache
        self.log = []

    def handle_event(self, event):
        op, key, val = event.context["op"]
        t0 = self.now.to_seconds()
        res = None
        if op == "put":
            yield from self.cache.put(key, val)
        elif op == "get":
            res = yield from self.cache.get(key)
        self.log.append((op, key, val, t0, self.now.to_seconds(), res))


backing = KVStore("db", read_latency=0.010)            # write latency: default 5 ms
cache = SoftTTLCache("swr", backing, soft_ttl=0.010, hard_ttl=1.0, cache_capacity=1)
client = Client(cache)
sim = Simulation(start_time=Instant.Epoch, end_time=Instant.from_seconds(2.0),
                 entities=[client, cache, backing])
plan = [
    (0.000, ("put", "a", "A")),   # a cached at 5 ms; never deleted afterwards
    (0.020, ("get", "a", None)),  # stale hit (age 15 ms) -> background refresh 20..30 ms
    (0.021, ("put", "b", "B1")),  # lands 26 ms, capacity 1: evicts a
    (0.027, ("get", "a", None)),  # a not cached, refresh in flight -> coalesced, waits until 37 ms
    (0.029, ("put", "b", "B2")),  # lands 34 ms: evicts the a that the refresh stored at 30 ms
    (0.100, ("get", "a", None)),  # control read
]
for t, op in plan:
    sim.schedule(Event(time=Instant.from_seconds(t), event_type="op", target=client,
                       context={"op": op}))
sim.run()
for rec in sorted(client.log, key=lambda r: r[3]):
    print("%-4s key=%s val=%s issued=%.4f done=%.4f -> %r" % rec)
gets = [r for r in sorted(client.log, key=lambda r: r[3]) if r[0] == "get"]
coalesced = gets[1][5]
print()
print("coalesced requests:", cache.stats.coalesced_requests, " backing store a =", backing.get_sync("a"))
print("get('a') issued at 27 ms returned:", repr(coalesced))
print("property requires: 'A' - put('a','A') completed at 5 ms and 'a' was never deleted")
bad = any(r[5] != "A" for r in gets)
if bad:
    print("VIOLATION: a read of an existing key returned None (no write ever produced that)")
sys.exit(1 if bad else 0)
