"""C10-2: FixedWindowPolicy.time_until_available returns Duration.ZERO while try_acquire at the same
instant denies, so a RateLimitedEntity drain stalls (unbounded polls at one frozen instant; also C07).

Property clause (C10): "If time_until_available returns zero an immediate acquire succeeds; ... repeatedly
waiting the returned duration reaches an admitting instant within a few steps, so a drain never stalls."

Mechanism: the window start is computed with float floor-division (`(now_s // w) * w`, truncated to ns) and
the next window as `start + w` (truncated again). For window sizes that are not exactly representable
(0.3 s, 0.7 s, ...) `start + w` lands 1 ns *before* the instant at which `now_s // w` actually flips.  At that
instant `remaining <= 0` -> ZERO is returned, but `_maybe_reset` has not rolled the window, the count is
still full and `try_acquire` denies.

Part A (policy only, seeded): random walk over FixedWindowPolicy instances; every time
    time_until_available(t) == ZERO the immediate try_acquire(t) must succeed.
Part B (real engine): RateLimitedEntity(FixedWindowPolicy(1 request / 0.3 s)) receives 6 requests at
    0.00..0.05 s.  The drain poll scheduled for 1.199999999 s gets ZERO back, re-polls at the same instant,
    forever.  A delegating spy policy (no library patching) aborts the run after 1000 polls at one instant.

Run: /venv/bin/python /verif/repro/c10_2_fixed_window_zero_wait.py     (exit 1 = defect present)
     HS_ROOT=/path/to/tree to test another checkout.
"""
import os
import random
import sys

sys.path.insert(0, os.environ.get("HS_ROOT", "/repo"))
from happysimulator.components.rate_limiter.policy import FixedWindowPolicy
from happysimulator.components.rate_limiter.rate_limited_entity import RateLimitedEntity
from happysimulator.core.entity import Entity
from happysimulator.core.event import Event
from happysimulator.core.simulation import Simulation
from happysimulator.core.temporal import Duration, Instant

# ---------------------------------------------------------------- Part A
rng = random.Random(1)
zero_then_deny = 0
first = None
probes = 0
for _ in range(200):
    pol = FixedWindowPolicy(rng.randint(1, 5), rng.choice([0.05, 0.1, 0.3, 0.7, 1.0, rng.uniform(0.05, 1.0)]))
    t = Instant(rng.randrange(0, 10**9))
    for _ in range(100):
        t = t + Duration(rng.randrange(0, 300_000_000))
        for _step in range(6):  # follow the returned waits, as a drain does
            probes += 1
            w = pol.time_until_available(t)
            if w == Duration.ZERO:
                if not pol.try_acquire(t):
                    zero_then_deny += 1
                    if first is None:
                        first = (pol.window_size, pol.requests_per_window, t.nanoseconds)
                break
            t = t + w
print(f"Part A: {probes} probes, ZERO-then-denied = {zero_then_deny}; first (window, limit, t_ns) = {first}")


# ---------------------------------------------------------------- Part B
class Sink(Entity):
    def __init__(self, name):
        super().__init__(name)
        self.got = []

    def handle_event(self, event):
        self.got.append(self.now.nanoseconds)
        return None


class Livelock(RuntimeError):
    pass


class SpyPolicy:
    """Delegates to the real policy; counts 'ZERO wait, then denied at the same instant'."""

    def __init__(self, inner):
        self.inner = inner
        self.zero_at = None
        self.violations = []

    def try_acquire(self, now):
        ok = self.inner.try_acquire(now)
        if not ok and self.zero_at == now:
            self.violations.append(now.nanoseconds)
            if len(self.violations) >= 1000:
                raise Livelock(f"1000 polls at t={now.nanoseconds} ns, clock frozen")
        return ok

    def time_until_available(self, now):
        w = self.inner.time_until_available(now)
        self.zero_at = now if w == Duration.ZERO else None
        return w


sink = Sink("sink")
spy = SpyPolicy(FixedWindowPolicy(requests_per_window=1, window_size=0.3))
limiter = RateLimitedEntity("rl", downstream=sink, policy=spy)
sim = Simulation(end_time=Instant.from_seconds(5), entities=[limiter, sink])
for i in range(6):
    sim.schedule(Event(time=Instant.from_seconds(0.01 * i), event_type="req", target=limiter))
stalled = None
try:
    sim.run()
except Livelock as exc:
    stalled = str(exc)
print(f"Part B: forwarded at ns {sink.got}; queue_depth left = {limiter.queue_depth}")
print(f"        stall: {stalled}")

bad = zero_then_deny > 0 or stalled is not None or len(sink.got) != 6
print("DEFECT PRESENT" if bad else "ok: zero wait always admits, drain completed")
sys.exit(1 if bad else 0)
