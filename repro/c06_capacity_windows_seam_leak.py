import os
import sys

sys.path.insert(0, os.environ.get("HS_ROOT", "/repo"))

"""C06_3: back-to-back ReduceCapacity windows leak the FULL capacity at the seam.

A degradation ramp on a resource of capacity 8:
    ReduceCapacity(factor=0.5,  start=1, end=5)     -> capacity 4 during [1, 5)
    ReduceCapacity(factor=0.25, start=5, end=9)     -> capacity 2 during [5, 9)
At every instant of [1, 9) at least one window covers the resource, so no more
than 4 units (resp. 2 units) may be handed out in that interval.

Six 1-unit jobs arrive at t=2 and hold their unit for 20 s.  Four are granted
(capacity 4), two wait.  At t=5 the first window's restore event runs before the
second window's reduce event (both at t=5, creation order); the restore puts the
capacity back to 8 for a moment and immediately wakes the waiters, so the two
waiting jobs are granted at t=5.0 - in the middle of the degraded interval,
while the effective capacity is 2 and 4 units are already held.
"""

from happysimulator.components.resource import Resource
from happysimulator.core.entity import Entity
from happysimulator.core.event import Event
from happysimulator.core.simulation import Simulation
from happysimulator.core.temporal import Instant
from happysimulator.faults.resource_faults import ReduceCapacity
from happysimulator.faults.schedule import FaultSchedule

HOLD = 20.0


class Worker(Entity):
    def __init__(self, name, resource):
        super().__init__(name)
        self.resource = resource
        self.grants = []  # (job id, grant time, units held by all jobs after the grant)
        self.held = 0

    def handle_event(self, event):
        jid = event.context["metadata"]["jid"]
        grant = yield self.resource.acquire(1)
        self.held += 1
        self.grants.append((jid, self.now.to_seconds(), self.held))
        yield HOLD
        self.held -= 1
        grant.release()


def effective_capacity(t: float) -> float:
    cap = 8.0
    if 1.0 <= t < 5.0:
        cap *= 0.5
    if 5.0 <= t < 9.0:
        cap *= 0.25
    return cap


def main() -> int:
    pool = Resource("pool", capacity=8)
    w = Worker("w", pool)
    faults = FaultSchedule()
    faults.add(ReduceCapacity("pool", factor=0.5, start=1.0, end=5.0))
    faults.add(ReduceCapacity("pool", factor=0.25, start=5.0, end=9.0))
    sim = Simulation(
        end_time=Instant.from_seconds(60.0), entities=[pool, w], fault_schedule=faults
    )
    for jid in range(6):
        sim.schedule(
            Event(
                time=Instant.from_seconds(2.0),
                event_type="job",
                target=w,
                context={"metadata": {"jid": jid}},
            )
        )
    sim.run()

    print("observed grants (job, time, units held after grant):")
    violations = []
    for jid, t, held in w.grants:
        cap = effective_capacity(t)
        flag = ""
        if held > cap:
            flag = f"   <-- {held} units out while the effective capacity at t={t} is {cap}"
            violations.append((jid, t, held, cap))
        print(f"  job {jid}: granted at t={t:<5} held={held}{flag}")
    print("required : a grant is only handed out when held + amount <= capacity in effect;")
    print("           jobs 4 and 5 must wait until t=9.0 (all windows over, capacity 8 again)")
    print(f"final    : capacity={pool.capacity} available={pool.available}")
    if violations:
        print(f"VIOLATED : {len(violations)} grant(s) handed out above the reduced capacity")
        return 1
    print("ok")
    return 0


if __name__ == "__main__":
    sys.exit(main())
