"""C10-4: RateLimitedEntity forwards requests out of arrival order.

Property clause (C10): "A rate-limited entity forwards, queues or drops every request exactly once, and
forwards requests in arrival order."

`RateLimitedEntity._handle_request` takes the direct-forward path whenever `policy.try_acquire(now)` admits,
without looking at its FIFO buffer.  A request that arrives at an admitting instant while older requests are
still buffered overtakes them and takes the capacity the buffered head was waiting for.  The drain poll is
scheduled for exactly the first admitting instant, so the trigger is an arrival at that same instant that is
delivered before the poll (arrivals on round timestamps, e.g. a 2/s constant source into a 1/s limiter).

Schedules (real engine, Simulation.run; all request events are created at run time by a kick handler at t=0,
so equal-timestamp tie-breaking is plain creation order):
  case 1: TokenBucketPolicy(capacity=1, refill_rate=1/s); arrivals r1,r2,r3 at 0.0, 0.5, 1.0 s.
          r1 takes the token, r2 is buffered (poll at 1.0 s), r3 arrives at 1.0 s  -> forwarded r1, r3, r2.
  case 2: LeakyBucketPolicy(1/s); arrivals at 0.0, 0.3, 0.6, 2.0 s              -> forwarded r1, r2, r4, r3.

Run: /venv/bin/python /verif/repro/c10_4_rate_limited_entity_order.py     (exit 1 = defect present)
     HS_ROOT=/path/to/tree to test another checkout.
"""
import os
import sys

sys.path.insert(0, os.environ.get("HS_ROOT", "/repo"))
from happysimulator.components.rate_limiter.policy import LeakyBucketPolicy, TokenBucketPolicy
from happysimulator.components.rate_limiter.rate_limited_entity import RateLimitedEntity
from happysimulator.core.entity import Entity
from happysimulator.core.event import Event
from happysimulator.core.simulation import Simulation
from happysimulator.core.temporal import Instant


class Sink(Entity):
    def __init__(self, name):
        super().__init__(name)
        self.got = []

    def handle_event(self, event):
        self.got.append((event.context["rid"], self.now.to_seconds()))
        return None


def run(policy, times):
    sink = Sink("sink")
    limiter = RateLimitedEntity("rl", downstream=sink, policy=policy)

    class Kick(Entity):
        def handle_event(self, event):
            return [
                Event(time=Instant.from_seconds(t), event_type="req", target=limiter, context={"rid": i + 1})
                for i, t in enumerate(times)
            ]

    kick = Kick("kick")
    sim = Simulation(end_time=Instant.from_seconds(30), entities=[limiter, sink, kick])
    sim.schedule(Event(time=Instant.from_seconds(0), event_type="kick", target=kick))
    sim.run()
    return sink.got, limiter.stats


bad = False
for label, policy, times in [
    ("token bucket cap=1 1/s", TokenBucketPolicy(capacity=1, refill_rate=1.0), [0.0, 0.5, 1.0]),
    ("leaky bucket 1/s", LeakyBucketPolicy(leak_rate=1.0), [0.0, 0.3, 0.6, 2.0]),
]:
    got, stats = run(policy, times)
    order = [rid for rid, _ in got]
    print(f"{label}: arrivals {times}")
    print(f"   forwarded (rid, t): {got}")
    print(f"   stats: {stats}")
    exactly_once = sorted(order) == list(range(1, len(times) + 1))
    in_order = order == sorted(order)
    print(f"   every request forwarded exactly once: {exactly_once}; arrival order kept: {in_order}")
    bad = bad or not exactly_once or not in_order

print("DEFECT PRESENT: requests forwarded out of arrival order" if bad else "ok: arrival order kept")
sys.exit(1 if bad else 0)
