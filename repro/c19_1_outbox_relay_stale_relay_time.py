"""C19-1 / C07-1 (additional site found by scanning): OutboxRelay relay events are stamped before the
per-entry relay latency is waited out and are emitted only when the poll generator returns, so the engine
discards them ("Time travel"); entries are marked relayed but never reach the downstream entity.

Property clauses: C07 "each event a component emits carries a timestamp no earlier than the instant at which it
is emitted, so the engine never has to discard it"; C19 (outbox relay is one of its anchors) "every published
message stays accounted for ... and is never lost".

`OutboxRelay._handle_poll`: `for entry in pending: ... relay_events.append(Event(time=self.now, ...));
if self._relay_latency > 0: yield self._relay_latency` and `return relay_events + [next poll]` after the loop.
Every relay event is older than the clock at return by at least one relay latency.  The default
relay_latency=0.001 triggers it (the unit tests all pass relay_latency=0.0).

Schedule (real engine): OutboxRelay(poll_interval=0.1, relay_latency=0.001 (default)); a writer entity writes 3
entries at 1.0 s.  Expected: downstream receives 3 "outbox_relay" events.  Observed: 0 received, 3 time-travel
warnings, stats.entries_relayed == 3, pending_count == 0 (lost).

Run: /venv/bin/python /verif/repro/c19_1_outbox_relay_stale_relay_time.py     (exit 1 = defect present)
     HS_ROOT=/path/to/tree to test another checkout.
"""
import logging
import os
import sys

sys.path.insert(0, os.environ.get("HS_ROOT", "/repo"))
from happysimulator.components.microservice.outbox_relay import OutboxRelay
from happysimulator.core.entity import Entity
from happysimulator.core.event import Event
from happysimulator.core.simulation import Simulation
from happysimulator.core.temporal import Instant


class Capture(logging.Handler):
    def __init__(self):
        super().__init__(level=logging.WARNING)
        self.msgs = []

    def emit(self, record):
        msg = record.getMessage()
        if "Time travel" in msg:
            self.msgs.append(msg)


cap = Capture()
sim_logger = logging.getLogger("happysimulator.core.simulation")
sim_logger.addHandler(cap)
sim_logger.setLevel(logging.WARNING)
sim_logger.propagate = False


class Collector(Entity):
    def __init__(self, name):
        super().__init__(name)
        self.got = []

    def handle_event(self, event):
        self.got.append((round(self.now.to_seconds(), 6), event.context["payload"]["n"]))
        return None


collector = Collector("collector")
outbox = OutboxRelay("outbox", downstream=collector, poll_interval=0.1)  # default relay_latency = 0.001


class Writer(Entity):
    def handle_event(self, event):
        for n in (1, 2, 3):
            outbox.write({"n": n})
        return [outbox.prime_poll()]


writer = Writer("writer")
sim = Simulation(end_time=Instant.from_seconds(3), entities=[outbox, collector, writer])
sim.schedule(Event(time=Instant.from_seconds(1.0), event_type="write", target=writer))
sim.run()

print("collector received (t, n):", collector.got)
print("outbox stats: written=%d relayed=%d pending=%d" % (
    outbox.stats.entries_written, outbox.stats.entries_relayed, outbox.pending_count))
print("time-travel drops:", len(cap.msgs))
for m in cap.msgs[:1]:
    print("   ", m)
bad = len(cap.msgs) > 0 or [n for _, n in collector.got] != [1, 2, 3]
print("DEFECT PRESENT: relayed entries never reach downstream" if bad else "ok: all entries relayed downstream")
sys.exit(1 if bad else 0)
