"""C05: PartitionLink(latency=<LatencyDistribution>) crashes the coordinated parallel run; and a
sampled latency below the declared min_latency is not validated.

Property clause violated
  C05 (parallel execution): a coordinated parallel run delivers every cross-partition event at
  send_time + link latency, exactly as declared by the PartitionLink, and never earlier than
  send_time + min_latency (the bound that makes the barrier window safe).

Part A - crash (demonstrable on the unmodified code)
  happysimulator/parallel/coordinator.py  WindowedCoordinator._exchange_events:
      if link.latency is not None:
          sampled = link.latency.sample()          # <-- LatencyDistribution has no .sample()
          event.time = send_time + sampled
  PartitionLink.latency is typed/documented as a LatencyDistribution
  (happysimulator/distributions/latency_distribution.py), whose only sampling method is
  get_latency(current_time) -> Duration.  So any link with a latency distribution raises
  AttributeError at the first barrier that has a cross-partition event.

  Schedule: partitions A={sender}, B={receiver}; link A->B min_latency=0.1,
  latency=ConstantLatency(0.25).  Kick sender at t=0.05; it emits a cross event for B stamped
  now+0.1.  expected: B receives it at 0.05 + 0.25 = 0.30 s.  observed: AttributeError
  "'ConstantLatency' object has no attribute 'sample'".

Part B - override is not checked against min_latency (only reachable once part A is repaired,
  therefore reported but it can only fail on a tree where part A passes)
  The non-override branch raises RuntimeError when event.time - send_time < min_latency; the
  override branch performs no such check, so latency=ConstantLatency(0.01) with min_latency=0.5
  would inject an event *behind* the destination partition's clock (dropped as "Time travel").
  expected: RuntimeError "violates min_latency" (same as the non-override branch).

Run: /venv/bin/python /verif/repro/c05_partition_link_latency_sample.py
     HS_ROOT=/path/to/checkout overrides the library root (default /repo)
Exit 1 = defect present (A or B), 0 = absent.
"""
import logging
import os
import sys
import warnings

sys.path.insert(0, os.environ.get("HS_ROOT", "/repo"))
warnings.simplefilter("ignore")

from happysimulator.core.entity import Entity  # noqa: E402
from happysimulator.core.event import Event  # noqa: E402
from happysimulator.core.temporal import Instant  # noqa: E402
from happysimulator.distributions.constant import ConstantLatency  # noqa: E402
from happysimulator.parallel.link import PartitionLink  # noqa: E402
from happysimulator.parallel.partition import SimulationPartition  # noqa: E402
from happysimulator.parallel.simulation import ParallelSimulation  # noqa: E402


class Rec(Entity):
    def __init__(self, name):
        super().__init__(name)
        self.seen = []

    def handle_event(self, event):
        self.seen.append((self.now.nanoseconds, event.event_type))
        return None


class Sender(Entity):
    def __init__(self, name, peer, stamp_delay):
        super().__init__(name)
        self.peer = peer
        self.stamp_delay = stamp_delay

    def handle_event(self, event):
        return [Event(time=self.now + self.stamp_delay, event_type="cross", target=self.peer)]


class Catch(logging.Handler):
    def __init__(self):
        super().__init__()
        self.msgs = []

    def emit(self, record):
        if "Time travel" in record.getMessage():
            self.msgs.append(record.getMessage())


def run(min_latency, latency_s, kick_at, local_b_at=None):
    b = Rec("b")
    a = Sender("a", b, stamp_delay=min_latency)
    ps = ParallelSimulation(
        partitions=[
            SimulationPartition(name="A", entities=[a]),
            SimulationPartition(name="B", entities=[b]),
        ],
        links=[
            PartitionLink(
                source_partition="A",
                dest_partition="B",
                min_latency=min_latency,
                latency=ConstantLatency(latency_s),
            )
        ],
        end_time=Instant.from_seconds(3),
    )
    ps.schedule(Event(time=Instant.from_seconds(kick_at), event_type="kick", target=a), partition="A")
    if local_b_at is not None:
        ps.schedule(
            Event(time=Instant.from_seconds(local_b_at), event_type="local", target=b), partition="B"
        )
    ps.run()
    return b.seen


def part_a():
    try:
        seen = run(min_latency=0.1, latency_s=0.25, kick_at=0.05)
    except AttributeError as exc:
        print(f"A: DEFECT: coordinated run crashed: AttributeError: {exc}")
        return False
    want = [(Instant.from_seconds(0.05).nanoseconds + 250_000_000, "cross")]
    ok = seen == want
    print(f"A: deliveries to b = {seen}, want {want} -> {'ok' if ok else 'DEFECT: wrong arrival time'}")
    return ok


def part_b():
    h = Catch()
    lg = logging.getLogger("happysimulator.core.simulation")
    lg.addHandler(h)
    try:
        # window = min_latency = 0.5 s.  B has a local event at 0.4 s, so B's clock is >= 0.4 s
        # at the first barrier; the cross event (sent 0.05 s, latency 0.01 s) would arrive at 0.06 s.
        seen = run(min_latency=0.5, latency_s=0.01, kick_at=0.05, local_b_at=0.4)
    except RuntimeError as exc:
        ok = "min_latency" in str(exc)
        print(f"B: RuntimeError: {exc} -> {'ok (validated)' if ok else 'unexpected error'}")
        return ok
    finally:
        lg.removeHandler(h)
    print(
        f"B: DEFECT: sampled latency 0.01 s < min_latency 0.5 s accepted silently; "
        f"deliveries to b = {seen}; time-travel drops = {len(h.msgs)}"
    )
    return False


def main():
    a_ok = part_a()
    if a_ok:
        b_ok = part_b()
    else:
        b_ok = True
        print("B: not reachable on this tree (part A crashes first)")
    sys.exit(0 if (a_ok and b_ok) else 1)


if __name__ == "__main__":
    main()
