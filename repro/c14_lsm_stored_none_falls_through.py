"""C14_2: LSMTree reads treat a stored value of None as "key not in this
table" and fall through to an OLDER version of the key.

put(k, None) is a legal write (value: Any, no documented restriction; BTree and
KVStore store it and return it).  After it, LSMTree.get / get_sync return the
value of an *earlier* put that still sits in an older SSTable, while
LSMTree.scan -- which does not use the `is not None` test -- returns
(k, None).  The same engine therefore gives two different answers for the
same key, and get() violates "every read returns the latest completed write".
"""
import os
import sys

sys.path.insert(0, os.environ.get("HS_ROOT", "/repo"))

from happysimulator import Event, Instant, Simulation
from happysimulator.components.datastore.kv_store import KVStore
from happysimulator.components.storage.btree import BTree
from happysimulator.components.storage.lsm_tree import (
    FIFOCompaction,
    LeveledCompaction,
    LSMTree,
    SizeTieredCompaction,
)
from happysimulator.core.entity import Entity


class Client(Entity):
    def __init__(self, store):
        super().__init__("client")
        self.store = store
        self.results = {}

    def handle_event(self, event):
        op = event.context["op"]
        if op[0] == "put":
            yield from self.store.put(op[1], op[2])
        elif op[0] == "get":
            self.results[op[2]] = yield from self.store.get(op[1])
            if hasattr(self.store, "get_sync"):
                self.results[op[2] + "_sync"] = self.store.get_sync(op[1])
        elif op[0] == "scan":
            self.results[op[3]] = yield from self.store.scan(op[1], op[2])


def run(store, with_scan=True):
    client = Client(store)
    sim = Simulation(
        start_time=Instant.Epoch, end_time=Instant.from_seconds(10), entities=[store, client]
    )
    plan = [
        (0.0, ("put", "k", "old")),
        (0.1, ("put", "pad", 0)),  # LSM: memtable (size 2) is flushed, "old" now lives in an SSTable
        (0.2, ("put", "k", None)),  # latest write to k
        (0.3, ("get", "k", "get_mem")),  # None still in the memtable
        (0.4, ("put", "pad2", 0)),  # LSM: second flush, None now lives in a newer SSTable
        (0.5, ("get", "k", "get_sst")),
    ]
    if with_scan:
        plan.append((0.6, ("scan", "k", "l", "scan")))
    for t, op in plan:
        sim.schedule(
            Event(time=Instant.from_seconds(t), event_type="op", target=client, context={"op": op})
        )
    sim.run()
    return client.results


def main():
    bad = 0
    ref_bt = run(BTree("bt", order=4))
    ref_kv = run(KVStore("kv"), with_scan=False)
    print(f"BTree   : get -> {ref_bt['get_mem']!r}, {ref_bt['get_sst']!r}; scan -> {ref_bt['scan']!r}")
    print(f"KVStore : get -> {ref_kv['get_mem']!r}, {ref_kv['get_sst']!r}")
    for name, strat in [
        ("SizeTiered", SizeTieredCompaction(min_sstables=4)),
        ("Leveled", LeveledCompaction(level_0_max=4)),
        ("FIFO", FIFOCompaction(max_total_sstables=100)),
    ]:
        r = run(LSMTree("db", memtable_size=2, compaction_strategy=strat))
        print(
            f"LSMTree/{name}: get(k) with None in memtable -> {r['get_mem']!r} "
            f"(get_sync {r['get_mem_sync']!r}); with None in SSTable -> {r['get_sst']!r} "
            f"(get_sync {r['get_sst_sync']!r}); scan -> {r['scan']!r}"
        )
        for key in ("get_mem", "get_mem_sync", "get_sst", "get_sst_sync"):
            if r[key] is not None:
                bad += 1
    print("required: the latest completed write to 'k' is None, so every get must return None "
          "(as BTree / KVStore do, and as LSMTree.scan itself reports)")
    if bad:
        print(f"VIOLATION: {bad} LSMTree reads returned the overwritten value 'old'")
        return 1
    print("OK")
    return 0


if __name__ == "__main__":
    sys.exit(main())
