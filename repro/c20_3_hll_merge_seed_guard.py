"""C20-3: HyperLogLog.merge() only checks that the precisions match, although the register index and
run length of every item are derived from `_hash`, which mixes in `self._seed`.  Two HLLs built with
different seeds are therefore accepted by merge(), and the result is NOT the sketch of the
concatenated streams (BloomFilter.merge and CountMinSketch.merge both reject differing seeds with
ValueError("... seeds differ ...")).

Property clause that fails: "Merging two Bloom, Count-Min or HyperLogLog sketches gives exactly the
sketch of the concatenated streams".

Input: the SAME 2000 distinct string ids are fed (through SketchCollector entities under the real
engine) to h1 = HyperLogLog(precision=10, seed=1) and h2 = HyperLogLog(precision=10, seed=2);
then h1.merge(h2).  The union of the two streams has 2000 distinct items, and the sketch of the
concatenated stream under h1's configuration is h1 itself (registers unchanged, merge idempotent).
Observed: merge is accepted, registers change, estimate jumps to ~2x.

Run: /venv/bin/python /verif/repro/c20_3_hll_merge_seed_guard.py   (exit 1 = defect present)
     HS_ROOT=/path/to/tree to test another checkout.
"""
import os
import sys

sys.path.insert(0, os.environ.get("HS_ROOT", "/repo"))

from happysimulator.components.sketching.sketch_collector import SketchCollector  # noqa: E402
from happysimulator.core.event import Event  # noqa: E402
from happysimulator.core.simulation import Simulation  # noqa: E402
from happysimulator.core.temporal import Instant  # noqa: E402
from happysimulator.sketching.hyperloglog import HyperLogLog  # noqa: E402

h1 = HyperLogLog(precision=10, seed=1)
h2 = HyperLogLog(precision=10, seed=2)
ref = HyperLogLog(precision=10, seed=1)  # sketch of stream+stream under h1's configuration
cols = [SketchCollector(n, h, lambda e: e.context["uid"]) for n, h in (("c1", h1), ("c2", h2), ("ref", ref))]
sim = Simulation(end_time=Instant.from_seconds(100), entities=cols)
for rep, targets in ((0, cols), (1, [cols[2]])):  # ref sees the stream twice (= concatenation)
    for i in range(2000):
        for c in targets:
            sim.schedule(Event(time=Instant.from_seconds(1 + rep * 40 + i * 0.01), event_type="visit",
                               target=c, context={"uid": f"user-{i}"}))
sim.run()

before = h1.cardinality()
try:
    h1.merge(h2)
    rejected = False
except ValueError as exc:
    rejected = True
    print("merge rejected:", exc)

if rejected:
    print("ok: differently seeded HyperLogLogs cannot be merged")
    sys.exit(0)
same_state = h1._registers == ref._registers
print(f"merge of seed=1 and seed=2 sketches was ACCEPTED; true distinct = 2000, h1 before = {before}, "
      f"after merge = {h1.cardinality()}, sketch of concatenated stream = {ref.cardinality()}, "
      f"registers equal to concatenated-stream sketch: {same_state}")
print("DEFECT PRESENT" if not same_state else "ok")
sys.exit(0 if same_state else 1)
