"""C06-5: a fault handle cancelled before the Simulation is constructed still fires.

Property clause (C06): "Cancelling a fault handle before activation prevents the fault entirely."

`FaultSchedule.add()` returns the handle immediately, but the handle's event list is only filled in by
`FaultSchedule.start()` (called from `Simulation.__init__`).  `FaultHandle.cancel()`
(happysimulator/faults/fault.py) called before that finds an empty list, marks the handle cancelled and
cancels nothing; `start()` (happysimulator/faults/schedule.py) then generates and schedules the events of
every fault without looking at `handle.cancelled`.  `schedule.stats.faults_cancelled` nevertheless counts
the fault as cancelled.  (tests/integration/network/test_fault_injection.py::test_fault_stats_tracking
cancels at exactly this point but only checks the counters.)

For every fault type and three cancel instants --
   A: right after schedule.add(), before Simulation(...)        <- defective
   B: after Simulation(...), before run()                       (works)
   C: during the run, from a callback at t=2 s, before the fault's activation at t>=10 s   (works)
-- the model is sampled every 0.5 s for any visible effect of the fault (requests not handled by the
target, link latency / loss changed, pair partitioned, capacity changed).
Expected: no effect at all in A, B and C.  Observed: in A every fault type acts as if never cancelled.

Also printed (observation only, NOT part of the exit code, the property only promises "before
activation"): cancelling a RandomPartition handle after its first fault/heal cycle has no effect, because
the follow-up events it pushes through `_get_active_heap()` are not recorded on the handle.

Run: /venv/bin/python /verif/repro/c06_5_cancel_before_start.py   (exit 1 = defect present, 0 = absent)
     HS_ROOT=/path/to/tree selects another source tree.
"""
import os
import random
import sys

sys.path.insert(0, os.environ.get("HS_ROOT", "/repo"))
from happysimulator.components.network.link import NetworkLink
from happysimulator.components.network.network import Network
from happysimulator.components.resource import Resource
from happysimulator.core.entity import Entity
from happysimulator.core.event import Event
from happysimulator.core.simulation import Simulation
from happysimulator.core.temporal import Instant
from happysimulator.distributions.constant import ConstantLatency
from happysimulator.faults import (
    CrashNode,
    FaultSchedule,
    InjectLatency,
    InjectPacketLoss,
    NetworkPartition,
    PauseNode,
    RandomPartition,
    ReduceCapacity,
)


class Node(Entity):
    def __init__(self, name):
        super().__init__(name)
        self.handled = []

    def handle_event(self, event):
        self.handled.append(event.time.to_seconds())


FAULTS = {
    "CrashNode": lambda: CrashNode("a", at=10.0, restart_at=20.0),
    "PauseNode": lambda: PauseNode("a", start=10.0, end=20.0),
    "InjectLatency": lambda: InjectLatency("a", "b", extra_ms=100.0, start=10.0, end=20.0),
    "InjectPacketLoss": lambda: InjectPacketLoss("a", "b", loss_rate=0.5, start=10.0, end=20.0),
    "NetworkPartition": lambda: NetworkPartition(["a"], ["b"], start=10.0, end=20.0),
    "RandomPartition": lambda: RandomPartition(nodes=["a", "b", "c"], mtbf=10.0, mttr=3.0, seed=3),
    "ReduceCapacity": lambda: ReduceCapacity("cpu", factor=0.5, start=10.0, end=20.0),
}


def run(fault_name, when, cancel_at=None):
    """Returns (list of (time, effect) observed, handle)."""
    random.seed(7)
    a, b, c = Node("a"), Node("b"), Node("c")
    net = Network(name="net")
    base = ConstantLatency(0.001)
    link_ab = NetworkLink(name="ab", latency=base, packet_loss_rate=0.0)
    net.add_link(a, b, link_ab)
    for x, y in ((a, c), (b, c)):
        net.add_bidirectional_link(x, y, NetworkLink(name=f"{x.name}{y.name}", latency=ConstantLatency(0.001)))
    cpu = Resource("cpu", capacity=8)

    schedule = FaultSchedule()
    handle = schedule.add(FAULTS[fault_name]())
    if when == "A":
        handle.cancel()
    sim = Simulation(end_time=Instant.from_seconds(60.0), entities=[a, b, c, net, cpu], fault_schedule=schedule)
    if when == "B":
        handle.cancel()
    if when in ("C", "late"):
        sim.schedule(Event.once(time=Instant.from_seconds(cancel_at), event_type="cancel", fn=lambda e: handle.cancel()))

    effects = []

    def sample(e):
        t = e.time.to_seconds()
        if link_ab.latency is not base:
            effects.append((t, "latency changed"))
        if link_ab.packet_loss_rate != 0.0:
            effects.append((t, f"loss={link_ab.packet_loss_rate}"))
        for x, y in (("a", "b"), ("a", "c"), ("b", "c")):
            if net.is_partitioned(x, y):
                effects.append((t, f"partitioned {x}-{y}"))
        if cpu.capacity != 8:
            effects.append((t, f"capacity={cpu.capacity}"))
        return [Event(time=e.time, event_type="Request", target=a)]  # is 'a' alive?

    n = 0
    t = 0.25
    while t < 60.0:
        sim.schedule(Event.once(time=Instant.from_seconds(t), event_type="sample", fn=sample))
        n += 1
        t += 0.5
    sim.run()
    t = 0.25
    while t < 60.0:
        if t not in a.handled:
            effects.append((t, "request to a not handled"))
        t += 0.5
    effects.sort()
    return effects, handle, schedule


bad = 0
for name in FAULTS:
    for when, label in (("A", "cancel before Simulation()"), ("B", "cancel after Simulation(), before run()"), ("C", "cancel during run at t=2")):
        effects, handle, schedule = run(name, when, cancel_at=2.0)
        verdict = "ok (no effect)" if not effects else f"FAULT STILL ACTED: {len(effects)} observations, first {effects[0]}, last {effects[-1]}"
        print(f"{name:17s} {label:42s} handle.cancelled={handle.cancelled} stats.faults_cancelled={schedule.stats.faults_cancelled} -> {verdict}")
        bad += bool(effects)

# Observation (not counted): RandomPartition cancelled after its first cycle keeps going.
base_effects, _, _ = run("RandomPartition", "none")
first_cycle_end = None
prev = None
for t, what in base_effects:
    if prev is not None and t - prev > 0.5:
        first_cycle_end = prev + 0.5
        break
    prev = t
if first_cycle_end is None and base_effects:
    first_cycle_end = base_effects[-1][0] + 0.5
late_effects, handle, _ = run("RandomPartition", "late", cancel_at=first_cycle_end)
after = [x for x in late_effects if x[0] > first_cycle_end]
print(f"observation: RandomPartition uncancelled is partitioned at {len(base_effects)} samples; first cycle over by t={first_cycle_end};")
print(f"             cancelled at t={first_cycle_end} (handle.cancelled={handle.cancelled}) -> still partitioned at {len(after)} later samples"
      + (f", e.g. {after[0]}" if after else ""))

print("DEFECT PRESENT" if bad else "defect absent")
sys.exit(1 if bad else 0)
