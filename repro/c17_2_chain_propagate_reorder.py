"""C17-2 (second site): chain replication nodes diverge at quiescence under message reordering.

Property clause (C17): "In every scheme, once writes stop and all in-flight messages are delivered,
all replicas hold the same value for every key, under any message reordering."

Same shape as the primary-backup defect, in `ChainNode._handle_propagate`
(`components/replication/chain_replication.py`): every `Propagate` message is applied with
`yield from self._store.put(key, value)` without comparing its `seq` (assigned by the head) with
what the node already applied for that key.  If two Propagate messages for one key are reordered on
a hop, the older value is applied last on that node and on everything downstream of it.

Schedule: chain head -> mid -> tail, links with the library's ExponentialLatency(mean 20 ms)
(global `random` seeded with 0), 20 writes to keys k0..k2 issued 1 ms apart at the head (value =
write index), then silence until t=10 s.  All 20 writes are acknowledged by the tail.
Expected: the three stores are equal.  Observed: mid and tail hold older values than the head.

Run: /venv/bin/python /verif/repro/c17_2_chain_propagate_reorder.py   (exit 1 = defect present)
     HS_ROOT=/path/to/checkout to run against another tree.
"""
import os
import random
import sys

sys.path.insert(0, os.environ.get("HS_ROOT", "/repo"))

from happysimulator import Event, Instant, Network, SimFuture, Simulation
from happysimulator.components.datastore import KVStore
from happysimulator.components.network.link import NetworkLink
from happysimulator.components.replication.chain_replication import build_chain
from happysimulator.distributions.exponential import ExponentialLatency

random.seed(0)
network = Network(name="net")
nodes = build_chain(["head", "mid", "tail"], network,
                    lambda n: KVStore(n, write_latency=0.001, read_latency=0.001))
for a in nodes:
    for b in nodes:
        if a is not b:
            network.add_link(a, b, NetworkLink(name=f"{a.name}->{b.name}",
                                               latency=ExponentialLatency(0.020)))
sim = Simulation(start_time=Instant.Epoch, end_time=Instant.from_seconds(10.0), sources=[],
                 entities=[*nodes, network, *[n.store for n in nodes]])
futures = []
for i in range(20):
    fut = SimFuture()
    futures.append(fut)
    sim.schedule(Event(time=Instant.from_seconds(0.1 + 0.001 * i), event_type="Write",
                       target=nodes[0],
                       context={"metadata": {"key": f"k{i % 3}", "value": i, "reply_future": fut}}))
sim.run()

keys = ["k0", "k1", "k2"]
stores = [{k: n.store.get_sync(k) for k in keys} for n in nodes]
print(f"writes acknowledged: {sum(f.is_resolved for f in futures)}/20")
for n, s in zip(nodes, stores):
    print(f"   {n.name:5s} {s}")
bad = not (stores[0] == stores[1] == stores[2])
print("DEFECT PRESENT: chain nodes differ after quiescence" if bad else "ok: all chain nodes converged")
sys.exit(1 if bad else 0)
