"""C14-6: a SNAPSHOT_ISOLATION transaction does not read from a snapshot: StorageTransaction.read()
always returns the store's latest committed value, so one transaction observes two different
database states, and still commits.

Property clause (C14): "snapshot-isolation transactions read from one consistent snapshot".

Code: components/storage/transaction_manager.py `StorageTransaction.read` - the docstring says
"For SNAPSHOT_ISOLATION and SERIALIZABLE, reads use the snapshot", but the body is
`value = yield from self._manager._store.get(key)` for every isolation level; `_snapshot_version`
is consulted only by `TransactionManager._check_conflict` at commit time, and for
SNAPSHOT_ISOLATION that check only looks at write-write overlap, so the reader below commits.

Schedule (store = LSMTree, invariant maintained by every writer: x == y):
  setup : x=0, y=0 committed.
  T1 (SI): begin; r1 = read(x)                                   -> 0
  T2 (SI): begin; write(x,1); write(y,1); commit  (succeeds)     (while T1 is still open)
  T1     : r2 = read(y)  -> 1 (!)   r3 = read(x) again -> 1 (!)  ; write(z, r1+r2); commit -> True
  T1 saw x=0 and y=1 - a state that never existed - plus a non-repeatable read of x, and committed.
  (Under SERIALIZABLE the same schedule reads the same wrong values, but the commit-time
  read-write check then aborts T1; this is reported for information.)

Run: /venv/bin/python /verif/repro/c14_6_si_reads_two_snapshots.py   (exit 1 = defect present)
     HS_ROOT=/path/to/worktree /venv/bin/python ...                   (to test another checkout)
"""
import os
import sys

sys.path.insert(0, os.environ.get("HS_ROOT", "/repo"))

from happysimulator.components.storage.lsm_tree import LSMTree
from happysimulator.components.storage.transaction_manager import IsolationLevel, TransactionManager
from happysimulator.core.entity import Entity
from happysimulator.core.event import Event
from happysimulator.core.simulation import Simulation
from happysimulator.core.temporal import Instant


def run(level):
    store = LSMTree("store")
    tm = TransactionManager("tm", store=store, isolation=level)
    out = {}

    class Setup(Entity):
        def handle_event(self, event):
            tx = yield from tm.begin()
            yield from tx.write("x", 0)
            yield from tx.write("y", 0)
            out["setup"] = yield from tx.commit()

    class T1(Entity):
        def handle_event(self, event):
            tx = yield from tm.begin()
            out["r1_x"] = yield from tx.read("x")
            yield 0.010  # think time; T2 runs and commits here
            out["r2_y"] = yield from tx.read("y")
            out["r3_x"] = yield from tx.read("x")
            yield from tx.write("z", (out["r1_x"], out["r2_y"]))
            out["t1_commit"] = yield from tx.commit()

    class T2(Entity):
        def handle_event(self, event):
            tx = yield from tm.begin()
            yield from tx.write("x", 1)
            yield from tx.write("y", 1)
            out["t2_commit"] = yield from tx.commit()

    s, t1, t2 = Setup("setup"), T1("t1"), T2("t2")
    sim = Simulation(end_time=Instant.from_seconds(1.0), entities=[store, tm, s, t1, t2])
    sim.schedule(Event(time=Instant.from_seconds(0.010), event_type="go", target=s))
    sim.schedule(Event(time=Instant.from_seconds(0.100), event_type="go", target=t1))
    sim.schedule(Event(time=Instant.from_seconds(0.105), event_type="go", target=t2))
    sim.run()
    out["z"] = store.get_sync("z")
    return out


bad = False
for level in (IsolationLevel.SNAPSHOT_ISOLATION, IsolationLevel.SERIALIZABLE):
    o = run(level)
    print(f"{level.value}: setup committed={o['setup']}, T2 committed={o['t2_commit']}; "
          f"T1 read x={o['r1_x']}, then y={o['r2_y']}, then x again={o['r3_x']}; "
          f"T1 committed={o['t1_commit']}; z in store={o['z']}")
    torn = o["r1_x"] != o["r2_y"] or o["r1_x"] != o["r3_x"]
    if level is IsolationLevel.SNAPSHOT_ISOLATION:
        if torn:
            print("   VIOLATION: T1's reads come from two different snapshots (x==y holds in every committed state)")
            if o["t1_commit"]:
                print("   ... and T1 committed, persisting a value derived from the torn read")
            bad = True
    elif torn:
        print(f"   (info) SERIALIZABLE reads are torn as well; commit-time validation "
              f"{'aborted' if not o['t1_commit'] else 'DID NOT abort'} T1")
        bad = bad or bool(o["t1_commit"])
print("DEFECT PRESENT" if bad else "defect absent")
sys.exit(1 if bad else 0)
