"""C10-2b (found by the seeded probe asked for under C10-2): AdaptivePolicy never admits again once
current_rate * window_size < 1, although time_until_available keeps promising a finite wait.

Property clause (C10): "... otherwise no acquire can succeed before the returned wait has elapsed, and repeatedly
waiting the returned duration reaches an admitting instant within a few steps, so a drain never stalls"
(quantified over all policy parameters and all success/failure feedback sequences for the adaptive policy).

`AdaptivePolicy._refill` caps the bucket at `max_tokens = current_rate * window_size`.  `try_acquire` needs
`tokens >= 1.0`.  When AIMD feedback (or the configuration) brings `current_rate * window_size` below 1 the cap is
below one token: `time_until_available` returns `(1 - tokens) / rate` forever and `try_acquire` never succeeds.
Since nothing is admitted, no success feedback can ever raise the rate again: the limiter is dead.
Reachable with ordinary parameters: initial_rate=2/s, min_rate=0.5/s, window_size=1 s and two failures
(2 -> 1 -> 0.5), or initial_rate=100/s, window_size=0.1 s and four failures (100 -> 6.25).

Part A (policy only): AdaptivePolicy(initial_rate=2, min_rate=0.5, window 1 s); drain the initial tokens, record two
    failures, then follow time_until_available for 50 steps: no step admits.
Part B (real engine): the same policy inside RateLimitedEntity; 4 requests at 1.0 s, two failures reported at
    1.5 s.  Expected: all 4 forwarded (2 at once, then one every 2 s at 0.5/s).  Observed: 2 forwarded, 2 stuck in
    the buffer at t = 60 s while the entity polls every second.

Run: /venv/bin/python /verif/repro/c10_2b_adaptive_policy_starvation.py     (exit 1 = defect present)
     HS_ROOT=/path/to/tree to test another checkout.
"""
import os
import sys

sys.path.insert(0, os.environ.get("HS_ROOT", "/repo"))
from happysimulator.components.rate_limiter.policy import AdaptivePolicy
from happysimulator.components.rate_limiter.rate_limited_entity import RateLimitedEntity
from happysimulator.core.entity import Entity
from happysimulator.core.event import Event
from happysimulator.core.simulation import Simulation
from happysimulator.core.temporal import Duration, Instant

# ---------------------------------------------------------------- Part A
pol = AdaptivePolicy(initial_rate=2.0, min_rate=0.5, max_rate=10.0, window_size=1.0)
t = Instant.from_seconds(1.0)
while pol.try_acquire(t):
    pass
pol.record_failure(t)
pol.record_failure(t)
steps = 0
admitted_after = None
while steps < 50:
    w = pol.time_until_available(t)
    if w == Duration.ZERO:
        if pol.try_acquire(t):
            admitted_after = steps
            break
    t = t + (w if w > Duration.ZERO else Duration(1))
    steps += 1
print(f"Part A: rate={pol.current_rate}/s, tokens={pol.tokens:.3f}; admitted after {admitted_after} waits "
      f"(None = never within 50 waits, t={t.to_seconds():.1f}s)")


# ---------------------------------------------------------------- Part B
class Sink(Entity):
    def __init__(self, name):
        super().__init__(name)
        self.got = []

    def handle_event(self, event):
        self.got.append(round(self.now.to_seconds(), 6))
        return None


sink = Sink("sink")
policy = AdaptivePolicy(initial_rate=2.0, min_rate=0.5, max_rate=10.0, window_size=1.0)
limiter = RateLimitedEntity("rl", downstream=sink, policy=policy)
sim = Simulation(end_time=Instant.from_seconds(60), entities=[limiter, sink])
for _ in range(4):
    sim.schedule(Event(time=Instant.from_seconds(1.0), event_type="req", target=limiter))
for _ in range(2):
    sim.schedule(Event.once(time=Instant.from_seconds(1.5), event_type="feedback",
                            fn=lambda e: policy.record_failure(e.time)))
sim.run()
print(f"Part B: forwarded at {sink.got}; still buffered at t=60s: {limiter.queue_depth}; rate={policy.current_rate}/s")

bad = admitted_after is None or limiter.queue_depth != 0 or len(sink.got) != 4
print("DEFECT PRESENT: adaptive limiter starves forever" if bad else "ok: drain completed")
sys.exit(1 if bad else 0)
