import os, sys
sys.path.insert(0, os.environ.get("HS_ROOT", "/repo"))
"""C16_3: CachedStore.delete() removes the cache entry when it is *issued* but never
looks at the cache again when the backing-store delete finally *lands*.  A put()
issued while the delete is in flight re-creates the entry; if that value reaches
the backing store before the delete lands (write-back: flush(); write-through:
delete_latency > write_latency) the late delete wipes it from the backing store
while the cache keeps serving it as a clean entry.  The acknowledged write is then
silently lost as soon as the entry leaves the cache (eviction / invalidate)."""
from happysimulator.components.datastore.cached_store import CachedStore
from happysimulator.components.datastore.eviction_policies import LRUEviction
from happysimulator.components.datastore.kv_store import KVStore
from happysimulator.core.entity import Entity
from happysimulator.core.event import Event
from happysimulator.core.simulation import Simulation
from happysimulator.core.temporal import Instant


class Client(Entity):
    def __init__(self, cache):
        super().__init__("client")
        self.cache = cache
        self.log = []

    def handle_event(self, event):
        op, key, val = event.context["op"]
        t0 = self.now.to_seconds()
        res = None
        if op == "put":
            yield from self.cache.put(key, val)
        elif op == "get":
            res = yield from self.cache.get(key)
        elif op == "delete":
            res = yield from self.cache.delete(key)
        elif op == "flush":
            res = yield from self.cache.flush()
        elif op == "invalidate":  # cache-only operation, must never change what is stored
            self.cache.invalidate(key)
        self.log.append((op, key, val, t0, self.now.to_seconds(), res))


def scenario(title, backing, write_through, plan):
    cache = CachedStore("cache", backing, cache_capacity=4, eviction_policy=LRUEviction(),
                        write_through=write_through)
    client = Client(cache)
    sim = Simulation(start_time=Instant.Epoch, end_time=Instant.from_seconds(2.0),
                     entities=[client, cache, backing])
    for t, op in plan:
        sim.schedule(Event(time=Instant.from_seconds(t), event_type="op", target=client,
                           context={"op": op}))
    sim.run()
    print("==", title)
    for rec in client.log:
        print("  %-10s key=%s val=%s issued=%.4f done=%.4f -> %r" % rec)
    gets = [r[5] for r in client.log if r[0] == "get"]
    print("  dirty keys at the end:", cache.get_dirty_keys(), " backing store:", backing.get_sync("k"))
    print("  read before invalidate():", repr(gets[0]), "  read after invalidate():", repr(gets[1]))
    print("  property requires: both reads equal (no write/delete was issued in between; the")
    print("  put completed, so once a read has returned 'v2' it may never disappear again)")
    bad = gets[0] != gets[1]
    if bad:
        print("  VIOLATION: completed write 'v2' was served and then lost")
    return bad


# (a) write-back mode, all-default KVStore latencies (write = delete = 5 ms)
bad_a = scenario(
    "write-back, default latencies, flush() running concurrently",
    KVStore("db"), False,
    [
        (0.000, ("put", "k", "v1")),         # dirty
        (0.010, ("flush", None, None)),      # pays 5 ms, writes whatever is cached at 15 ms
        (0.011, ("delete", "k", None)),      # cache entry dropped now; lands in db at 16 ms
        (0.012, ("put", "k", "v2")),         # issued after the delete; completed 12.1 ms; dirty
        (0.100, ("get", "k", None)),
        (0.200, ("invalidate", "k", None)),
        (0.300, ("get", "k", None)),
    ],
)
# (b) write-through mode with a delete that is slower than a write
bad_b = scenario(
    "write-through, delete_latency=9 ms > write_latency=5 ms",
    KVStore("db", delete_latency=0.009), True,
    [
        (0.000, ("put", "k", "v1")),
        (0.010, ("delete", "k", None)),      # lands at 19 ms
        (0.011, ("put", "k", "v2")),         # lands (and completes) at 16 ms
        (0.100, ("get", "k", None)),
        (0.200, ("invalidate", "k", None)),
        (0.300, ("get", "k", None)),
    ],
)
sys.exit(1 if (bad_a or bad_b) else 0)
