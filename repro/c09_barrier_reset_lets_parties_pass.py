import os
import sys

sys.path.insert(0, os.environ.get("HS_ROOT", "/repo"))

"""C09 defect 1: Barrier.reset() / Barrier.abort() let the parked parties THROUGH the
barrier as if it had tripped (wait() returns a normal arrival index), although fewer
than `parties` parties arrived.  The docstrings promise a RuntimeError instead.
"""

from happysimulator.components.sync.barrier import Barrier
from happysimulator.core.entity import Entity
from happysimulator.core.event import Event
from happysimulator.core.simulation import Simulation
from happysimulator.core.temporal import Instant


class Party(Entity):
    def __init__(self, name, barrier, log):
        super().__init__(name)
        self.barrier = barrier
        self.log = log

    def handle_event(self, event):
        try:
            idx = yield from self.barrier.wait()
        except RuntimeError as exc:
            self.log.append((self.name, "error", str(exc), self.now.to_seconds()))
            return
        # Reaching this line means "all `parties` parties have arrived".
        self.log.append((self.name, "passed", idx, self.now.to_seconds()))


class Controller(Entity):
    def __init__(self, name, barrier, mode):
        super().__init__(name)
        self.barrier = barrier
        self.mode = mode

    def handle_event(self, event):
        getattr(self.barrier, self.mode)()


def scenario(mode):
    log = []
    barrier = Barrier("b", parties=3)
    p1, p2 = Party("p1", barrier, log), Party("p2", barrier, log)
    ctl = Controller("ctl", barrier, mode)
    sim = Simulation(
        start_time=Instant.Epoch,
        end_time=Instant.from_seconds(10),
        entities=[barrier, p1, p2, ctl],
    )
    sim.schedule(Event(time=Instant.from_seconds(1), event_type="go", target=p1))
    sim.schedule(Event(time=Instant.from_seconds(2), event_type="go", target=p2))
    # Only 2 of the 3 parties ever arrive; at t=3 the barrier is reset / aborted.
    sim.schedule(Event(time=Instant.from_seconds(3), event_type=mode, target=ctl))
    sim.run()
    return log, barrier


violated = False
for mode in ("reset", "abort"):
    log, barrier = scenario(mode)
    passed = [e for e in log if e[1] == "passed"]
    errors = [e for e in log if e[1] == "error"]
    print(f"--- Barrier(parties=3), 2 parties waiting, then {mode}() at t=3")
    print(f"    observed : {log}")
    print(f"    barrier_breaks={barrier.stats.barrier_breaks} (the barrier never tripped)")
    print(
        "    required : no party may pass a 3-party barrier that only 2 parties reached; "
        f"{mode}() must release the waiters with RuntimeError('... is broken')"
    )
    if passed or len(errors) != 2:
        violated = True
        print(f"    VIOLATION: {len(passed)} parties passed the barrier, {len(errors)} got the error")

if violated:
    print("RESULT: defect observed")
    sys.exit(1)
print("RESULT: ok")
sys.exit(0)
