"""C07-3 / C09-3: blocking waits in components/sync/* poll with `yield 0.0` and freeze the clock.

Property clauses violated
  C07: "no component ... spins at a frozen clock: a finite workload never causes an unbounded
        number of deliveries at a single simulated instant"
  C09: "capacity primitives ... let time pass: waiting consumes no simulated activity, so the clock
        advances to the release and every waiter whose predecessor releases is eventually served"

Six wait sites share the shape `while not <flag>: yield 0.0`:
  Mutex.acquire, Semaphore.acquire, RWLock.acquire_read, RWLock.acquire_write, Barrier.wait,
  Condition.wait.
Under the real engine every `yield 0.0` becomes a ProcessContinuation stamped at the *current*
instant, which always sorts before the holder's continuation at the later release time.  So the
waiter is re-delivered forever at one instant and the release is never reached.

Schedule (same for each site, one fresh Simulation per site):
  t=0.0  "holder" process takes the primitive and holds it via `yield 1.0`, then releases
  t=0.1  "waiter" process blocks on the primitive (yield from <primitive>.<wait>())
  expected: waiter is served at t=1.0 after a handful of events
  observed: the waiter spins at t=0.1; an EventCountBreakpoint (watchdog) pauses the run after
            CAP deliveries with the clock still at t=0.1 and the holder never released.
(Barrier: party A arrives t=0.1, party B at t=1.0.  Condition: consumer waits at t=0.1, producer
 notifies at t=1.0.)

Run: /venv/bin/python /verif/repro/c07_3_sync_zero_delay_spin.py [site ...]
     sites: mutex semaphore rwlock_read rwlock_write barrier condition   (default: all)
     HS_ROOT=/path/to/checkout overrides the library root (default /repo)
Exit 1 = defect present at at least one selected site, 0 = absent.
"""
import os
import sys

sys.path.insert(0, os.environ.get("HS_ROOT", "/repo"))

from happysimulator.components.sync import Barrier, Condition, Mutex, RWLock, Semaphore  # noqa: E402
from happysimulator.core.control.breakpoints import EventCountBreakpoint  # noqa: E402
from happysimulator.core.entity import Entity  # noqa: E402
from happysimulator.core.event import Event  # noqa: E402
from happysimulator.core.simulation import Simulation  # noqa: E402
from happysimulator.core.temporal import Instant  # noqa: E402

CAP = 5000  # watchdog: pause after this many delivered events (a correct run needs < 20)
HOLD_UNTIL = 1.0
WAIT_FROM = 0.1


class Proc(Entity):
    """Runs `body(self)` (a generator function) as one simulated process per event."""

    def __init__(self, name, body):
        super().__init__(name)
        self._body = body

    def handle_event(self, event):
        return self._body(self)


def scenario(site):
    """Return (primitive, holder_body, waiter_body, log)."""
    log = {}

    def t(p):
        return p.now.to_seconds()

    if site == "mutex":
        prim = Mutex("m")

        def holder(p):
            yield from prim.acquire(owner="holder")
            yield HOLD_UNTIL - t(p)
            log["released_at"] = t(p)
            return prim.release()

        def waiter(p):
            yield from prim.acquire(owner="waiter")
            log["served_at"] = t(p)
            return prim.release()

    elif site == "semaphore":
        prim = Semaphore("s", initial_count=1)

        def holder(p):
            yield from prim.acquire()
            yield HOLD_UNTIL - t(p)
            log["released_at"] = t(p)
            return prim.release()

        def waiter(p):
            yield from prim.acquire()
            log["served_at"] = t(p)
            return prim.release()

    elif site == "rwlock_read":
        prim = RWLock("rw")

        def holder(p):  # writer holds, reader waits
            yield from prim.acquire_write()
            yield HOLD_UNTIL - t(p)
            log["released_at"] = t(p)
            return prim.release_write()

        def waiter(p):
            yield from prim.acquire_read()
            log["served_at"] = t(p)
            return prim.release_read()

    elif site == "rwlock_write":
        prim = RWLock("rw")

        def holder(p):  # reader holds, writer waits
            yield from prim.acquire_read()
            yield HOLD_UNTIL - t(p)
            log["released_at"] = t(p)
            return prim.release_read()

        def waiter(p):
            yield from prim.acquire_write()
            log["served_at"] = t(p)
            return prim.release_write()

    elif site == "barrier":
        prim = Barrier("b", parties=2)

        def holder(p):  # the late party: arrives at t=1.0 and trips the barrier
            yield HOLD_UNTIL - t(p)
            log["released_at"] = t(p)
            yield from prim.wait()

        def waiter(p):  # the early party
            yield from prim.wait()
            log["served_at"] = t(p)

    elif site == "condition":
        lock = Mutex("cl")
        prim = Condition("c", lock)

        def holder(p):  # producer: notifies at t=1.0
            yield HOLD_UNTIL - t(p)
            yield from lock.acquire(owner="producer")
            prim.notify()
            log["released_at"] = t(p)
            return lock.release()

        def waiter(p):  # consumer: waits for the signal
            yield from lock.acquire(owner="consumer")
            yield from prim.wait()
            log["served_at"] = t(p)
            return lock.release()

    else:
        raise SystemExit(f"unknown site {site!r}")
    return prim, holder, waiter, log


def run_site(site):
    prim, holder_body, waiter_body, log = scenario(site)
    holder = Proc("holder", holder_body)
    waiter = Proc("waiter", waiter_body)
    entities = [prim, holder, waiter]
    if site == "condition":
        entities.append(prim.lock)
    sim = Simulation(end_time=Instant.from_seconds(10), entities=entities)
    sim.schedule(Event(time=Instant.from_seconds(0.0), event_type="go", target=holder))
    sim.schedule(Event(time=Instant.from_seconds(WAIT_FROM), event_type="go", target=waiter))
    sim.control.add_breakpoint(EventCountBreakpoint(count=CAP))
    sim.run()
    st = sim.control.get_state()
    clock = st.current_time.to_seconds()
    spinning = st.is_paused and st.events_processed >= CAP
    served = log.get("served_at")
    ok = (not spinning) and served is not None and abs(served - HOLD_UNTIL) < 1e-9
    print(
        f"{site:13s} events={st.events_processed:5d} clock={clock:.3f}s "
        f"release_reached={'released_at' in log} waiter_served_at={served} "
        f"-> {'ok' if ok else 'DEFECT: ' + ('spins at frozen clock' if spinning else 'waiter not served at release')}"
    )
    return ok


def main():
    sites = sys.argv[1:] or ["mutex", "semaphore", "rwlock_read", "rwlock_write", "barrier", "condition"]
    results = [run_site(s) for s in sites]
    bad = results.count(False)
    print(f"{bad} of {len(results)} wait sites spin / fail to serve the waiter")
    sys.exit(1 if bad else 0)


if __name__ == "__main__":
    main()
