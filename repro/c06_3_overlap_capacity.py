"""C06-3 (capacity): overlapping ReduceCapacity windows on the same resource do not compose.

Property clause (C06): "reduced capacity is in effect for its target exactly while at least one fault
window covering that target is active, whatever other faults overlap it, and once every window has ended
the system is back to its configured state."

`ReduceCapacity.generate_events` (happysimulator/faults/resource_faults.py) captures
`resource._capacity` when the schedule is built; deactivate assigns that captured value back
unconditionally, so the first window that ends restores the full capacity although another window is
still open (and activate computes from the captured original, ignoring an already active reduction).

Resource("cpu", capacity=8), idle (nothing held, so this is independent of C06-4).
  1. staggered: factor 0.5 on [10,30) and factor 0.25 on [20,40)
  2. nested   : factor 0.5 on [10,40) and factor 0.25 on [20,30)
capacity/available are sampled at t = 5, 15, 25, 35, 45 s and a try_acquire(8) (the full configured
capacity) is attempted at each sample and released at once.
Expected: capacity < 8 (try_acquire(8) refused/raises) at 15, 25, 35; capacity == available == 8 at 5, 45.
Observed: at t=35 the capacity is the full 8 although a window is still active.

Run: /venv/bin/python /verif/repro/c06_3_overlap_capacity.py   (exit 1 = defect present, 0 = absent)
     HS_ROOT=/path/to/tree selects another source tree.
"""
import os
import sys

sys.path.insert(0, os.environ.get("HS_ROOT", "/repo"))
from happysimulator.components.resource import Resource
from happysimulator.core.event import Event
from happysimulator.core.simulation import Simulation
from happysimulator.core.temporal import Instant
from happysimulator.faults import FaultSchedule, ReduceCapacity


def scenario(label, windows):
    cpu = Resource("cpu", capacity=8)
    schedule = FaultSchedule()
    for factor, start, end in windows:
        schedule.add(ReduceCapacity("cpu", factor=factor, start=start, end=end))
    sim = Simulation(end_time=Instant.from_seconds(60.0), entities=[cpu], fault_schedule=schedule)
    samples = {}

    def sample(e):
        try:
            grant = cpu.try_acquire(8)
        except ValueError:  # amount exceeds (reduced) capacity
            grant = None
        full = grant is not None
        if grant is not None:
            grant.release()
        samples[e.time.to_seconds()] = (cpu.capacity, cpu.available, full)

    for t in (5.0, 15.0, 25.0, 35.0, 45.0):
        sim.schedule(Event.once(time=Instant.from_seconds(t), event_type="sample", fn=sample))
    sim.run()

    bad = 0
    for t in (5.0, 15.0, 25.0, 35.0, 45.0):
        cap, avail, full = samples[t]
        active = [f"x{f:g}[{s:g},{e:g})" for f, s, e in windows if s <= t < e]
        ok = (cap < 8 and not full) if active else (cap == 8 and avail == 8 and full)
        print(f"{label} t={t:>4}: capacity={cap} available={avail} try_acquire(8) granted={full} active={active} {'ok' if ok else 'WRONG'}")
        bad += not ok
    final_ok = cpu.capacity == 8 and cpu.available == 8
    print(f"{label} after all windows: capacity={cpu.capacity} available={cpu.available} (configured 8/8)")
    return bad + (not final_ok)


bad = 0
bad += scenario("staggered", [(0.5, 10.0, 30.0), (0.25, 20.0, 40.0)])
bad += scenario("nested   ", [(0.5, 10.0, 40.0), (0.25, 20.0, 30.0)])
print("DEFECT PRESENT" if bad else "defect absent")
sys.exit(1 if bad else 0)
