import os
import sys

sys.path.insert(0, os.environ.get("HS_ROOT", "/repo"))

"""C15_4: LSMTree.crash() does not clear `_wal_in_flight`.

put()/delete() register their WAL sequence in `_wal_in_flight` before suspending in the WAL append
and remove it when the append returns.  When the node that runs the write crashes (CrashNode fault:
the engine drops the node's in-flight processes) together with its storage engine (lsm.crash()),
that process never resumes, so its sequence stays in `_wal_in_flight` for ever.
`_wal_checkpoint_bound()` = min(_wal_in_flight) - 1 is then frozen below every later write and no
flush ever truncates the WAL again.  Consequences after the node is back:
  * the WAL grows without bound, and
  * at the next crash, recovery replays fsynced log entries that are OLDER than values already
    stored in completely flushed SSTables (whose own, newer log entries were not fsynced yet and
    are dropped by the crash).  The replayed memtable shadows the SSTables: an overwritten value is
    resurrected.

Scenario: SyncOnBatch(3), memtable_size=2, defaults otherwise (append 0.1 ms, fsync 1 ms, page 2 ms)
  t=0.00 ms  put(j,"j")      seq 1, suspended in its WAL append
  t=0.05 ms  POWER LOSS #1   CrashNode(db) + lsm.crash();  restart + recover at 2 ms
  t=10 ms    put(k,"v1")     seq 2
  t=11 ms    put(a,"a")      seq 3 -> memtable full, flush #1 {k:v1, a} completes at ~13 ms
  t=20 ms    put(b,"b")      seq 4 -> 3rd write of the batch: fsync, synced_up_to = 4
  t=30 ms    put(k,"v2")     seq 5 (not fsynced) -> memtable full, flush #2 {b, k:v2} completes ~32 ms
  t=40 ms    get(k) -> "v2";  both flushes are complete, the WAL should be empty
  t=50 ms    POWER LOSS #2   restart + recover at 52 ms
  t=60 ms    get(k)          must be "v2" (it is in a completely written SSTable)
The control run is identical except that put(j) and power loss #1 do not happen (put(j) leaves no
trace in the test run either: its log entry was not fsynced and it never reached the memtable).
"""

import logging

from happysimulator.components.storage.lsm_tree import LSMTree
from happysimulator.components.storage.wal import SyncOnBatch, WriteAheadLog
from happysimulator.core.entity import Entity
from happysimulator.core.event import Event
from happysimulator.core.simulation import Simulation
from happysimulator.core.temporal import Instant
from happysimulator.faults.node_faults import CrashNode
from happysimulator.faults.schedule import FaultSchedule

logging.disable(logging.CRITICAL)


class DbNode(Entity):
    """A database server: serves put/get requests from its local LSM tree."""

    def __init__(self, name, lsm, obs):
        super().__init__(name)
        self.lsm = lsm
        self.obs = obs

    def handle_event(self, event):
        if event.event_type == "put":
            yield from self.lsm.put(*event.context["kv"])
        elif event.event_type == "read":
            value = yield from self.lsm.get("k")
            self.obs[event.context["tag"]] = value
            self.obs[event.context["tag"] + "_wal_size"] = self.lsm._wal.size
            self.obs[event.context["tag"] + "_flushes"] = self.lsm.stats.memtable_flushes


class Power(Entity):
    """Storage side of a node outage: the disk loses power with the node and is recovered at restart."""

    def __init__(self, name, lsm, obs):
        super().__init__(name)
        self.lsm = lsm
        self.obs = obs

    def handle_event(self, event):
        if event.event_type == "power_loss":
            self.lsm.crash()
        else:
            info = self.lsm.recover_from_crash()
            self.obs.setdefault("replayed", []).append(info["wal_entries_replayed"])


def run(first_outage: bool) -> dict:
    obs: dict = {}
    wal = WriteAheadLog("wal", sync_policy=SyncOnBatch(batch_size=3))
    lsm = LSMTree("lsm", memtable_size=2, wal=wal)
    db = DbNode("db", lsm, obs)
    power = Power("power", lsm, obs)
    faults = FaultSchedule()
    outages = [(0.050, 0.052)]
    if first_outage:
        outages.insert(0, (0.00005, 0.002))
    for down, up in outages:
        faults.add(CrashNode("db", at=down, restart_at=up))
    sim = Simulation(
        start_time=Instant.Epoch,
        end_time=Instant.from_seconds(1.0),
        entities=[lsm, wal, db, power],
        fault_schedule=faults,
    )

    def at(t, kind, target, **ctx):
        sim.schedule(
            Event(time=Instant.from_seconds(t), event_type=kind, target=target, context=ctx)
        )

    for down, up in outages:
        at(down, "power_loss", power)
        at(up, "power_restored", power)
    if first_outage:
        at(0.000, "put", db, kv=("j", "j"))
    at(0.010, "put", db, kv=("k", "v1"))
    at(0.011, "put", db, kv=("a", "a"))
    at(0.020, "put", db, kv=("b", "b"))
    at(0.030, "put", db, kv=("k", "v2"))
    at(0.040, "read", db, tag="before")
    at(0.060, "read", db, tag="after")
    sim.run()
    obs["in_flight_left"] = sorted(lsm._wal_in_flight)
    return obs


control = run(first_outage=False)
test = run(first_outage=True)

for name, o in (("control (no put(j), no outage #1)", control), ("with outage #1 during put(j)", test)):
    print(name)
    print("   completed flushes at 40 ms          :", o["before_flushes"])
    print("   WAL entries still in the log, 40 ms :", o["before_wal_size"])
    print("   get('k') at 40 ms (before outage #2):", o["before"])
    print("   WAL entries replayed per recovery   :", o["replayed"])
    print("   get('k') at 60 ms (after outage #2) :", o["after"])
    print("   lsm._wal_in_flight at end of run    :", o["in_flight_left"])
print()
print("Required: k='v2' sits in an SSTable whose flush completed 18 ms before outage #2, so it")
print("is durable; after recovery get('k') == 'v2', and the overwritten 'v1' must not come back.")

if test["before"] == "v2" and test["after"] != "v2":
    print(
        f"VIOLATION: get('k') == {test['after']!r} after recovery; the WAL was never truncated "
        f"(sequence {test['in_flight_left']} stuck in _wal_in_flight) and the stale entry was replayed."
    )
    sys.exit(1)
print("OK: k == 'v2' after recovery.")
sys.exit(0)
