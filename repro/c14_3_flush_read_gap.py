"""C14-3: LSMTree loses sight of completed writes while a memtable flush is in flight.

Property clause (C14): "every read returns the value of the latest write to that key that completed
before the read began".

Code: LSMTree._flush_memtable (components/storage/lsm_tree.py) parks the full memtable on
`_immutable_memtables` "for reads during flush", but then calls `Memtable.flush()`, which *clears*
the memtable's dict, BEFORE yielding the SSTable write latency; the SSTable is appended to level 0
only AFTER that suspension.  During the suspension the data is in neither the active memtable, the
(now empty) immutable memtable, nor any level, so `get()` / `get_sync()` / `scan()` return None / [].

Schedule: memtable_size=4; a writer entity puts k0..k3 (the 4th put triggers the flush; the flush
latency is max(1, 4//16) * 0.002 s = 2 ms).  A reader entity reads k0 (whose put completed long
before) 1 ms after the flush started.

Run: /venv/bin/python /verif/repro/c14_3_flush_read_gap.py    (exit 1 = defect present)
     HS_ROOT=/path/to/worktree /venv/bin/python ...            (to test another checkout)
"""
import os
import sys

sys.path.insert(0, os.environ.get("HS_ROOT", "/repo"))

from happysimulator.components.storage.lsm_tree import LSMTree
from happysimulator.core.entity import Entity
from happysimulator.core.event import Event
from happysimulator.core.simulation import Simulation
from happysimulator.core.temporal import Instant

lsm = LSMTree("db", memtable_size=4)
log = []  # (time, what)
reads = []  # (t_begin, key, value, immutable_count_at_begin)
completed = {}  # key -> time the put completed


class Writer(Entity):
    def handle_event(self, event):
        for i in range(4):
            key = f"k{i}"
            if i == 3:
                # wake the reader 1 ms after the 4th put starts: inside the 2 ms flush window
                rd = Event(time=self.now + 0.001, event_type="read", target=reader)
                yield 0.0, [rd]
            yield from lsm.put(key, f"v{i}")
            completed[key] = self.now.to_seconds()
            log.append((self.now.to_seconds(), f"put({key}) completed"))


class Reader(Entity):
    def handle_event(self, event):
        t0 = self.now.to_seconds()
        imm = len(lsm._immutable_memtables)
        for key in ("k0", "k1", "k2"):
            v_sync = lsm.get_sync(key)
            v = yield from lsm.get(key)
            reads.append((t0, key, v, v_sync, imm))
        sc = yield from lsm.scan("k0", "k9")
        reads.append((t0, "scan[k0,k9)", sc, None, imm))


writer = Writer("writer")
reader = Reader("reader")
sim = Simulation(end_time=Instant.from_seconds(1.0), entities=[lsm, writer, reader])
sim.schedule(Event(time=Instant.from_seconds(0.1), event_type="go", target=writer))
sim.run()

for t, what in log:
    print(f"t={t:.6f} {what}")
bad = 0
for t0, key, v, v_sync, imm in reads:
    print(f"t={t0:.6f} read {key}: get -> {v!r}, get_sync -> {v_sync!r}   "
          f"(flush in flight: {imm} immutable memtable(s))")
    if key.startswith("scan"):
        # must contain every completed put; may also contain the put still in progress (k3)
        want = [(k, f"v{k[1:]}") for k in sorted(completed) if completed[k] <= t0]
        if any(kv not in v for kv in want):
            print(f"   VIOLATION: scan should contain {want}")
            bad += 1
    elif completed.get(key, 1e9) <= t0:
        want = f"v{key[1:]}"
        if v != want or v_sync != want:
            print(f"   VIOLATION: put({key}) completed at t={completed[key]:.6f} < read begin, expected {want!r}")
            bad += 1
after = {k: lsm.get_sync(k) for k in ("k0", "k1", "k2", "k3")}
print("after the flush finished:", after)
print("DEFECT PRESENT" if bad else "defect absent")
sys.exit(1 if bad else 0)
