"""repro_1: Multi-Paxos leader demotes itself on its own heartbeat tick.

Fault-free 3-node cluster, constant 1 ms links, no loss, no competing
proposer.  node-0 is started (phase 1) at t=0.1 and becomes leader.  Commands
are submitted to the established leader with the library idiom used in
examples/distributed/flexible_paxos_quorums.py (submit() + _replicate_slot()).

Expected (liveness clause): node-0 stays leader for the whole run, every
submitted command's future resolves, and every node applies every command.

Exit 1 when the defect manifests, 0 otherwise.
"""

import os
import sys

sys.path.insert(0, os.environ.get("HS_ROOT", "/repo"))

from happysimulator.components.consensus.multi_paxos import MultiPaxosNode  # noqa: E402
from happysimulator.components.consensus.raft_state_machine import KVStateMachine  # noqa: E402
from happysimulator.components.network.link import NetworkLink  # noqa: E402
from happysimulator.components.network.network import Network  # noqa: E402
from happysimulator.core.event import Event  # noqa: E402
from happysimulator.core.simulation import Simulation  # noqa: E402
from happysimulator.core.temporal import Instant  # noqa: E402
from happysimulator.distributions.constant import ConstantLatency  # noqa: E402


def main() -> int:
    network = Network(name="net")
    sms = [KVStateMachine() for _ in range(3)]
    nodes = [
        MultiPaxosNode(name=f"node-{i}", network=network, state_machine=sms[i],
                       heartbeat_interval=1.0, leader_lease_timeout=5.0)
        for i in range(3)
    ]
    for n in nodes:
        n.set_peers(nodes)
    for i, a in enumerate(nodes):
        for b in nodes[i + 1:]:
            link = NetworkLink(name=f"l-{a.name}-{b.name}", latency=ConstantLatency(0.001),
                               packet_loss_rate=0.0)
            network.add_bidirectional_link(a, b, link)

    leader = nodes[0]
    history: list[str] = []
    futures: dict[str, object] = {}
    leader_obs: list[tuple[float, list[bool]]] = []

    sim = Simulation(start_time=Instant.Epoch, duration=6.0, entities=[network, *nodes])

    sim.schedule(Event.once(time=Instant.from_seconds(0.1), event_type="StartLeader",
                            fn=lambda e: leader.start()))

    def make_submit(key: str, value: int):
        def fn(e: Event):
            was_leader = leader.is_leader
            fut = leader.submit({"op": "set", "key": key, "value": value})
            futures[key] = fut
            history.append(
                f"t={e.time.to_seconds():.3f} submit {key}={value} to {leader.name} "
                f"(is_leader={was_leader}, pending_queue={len(leader._pending_commands)})"
            )
            if was_leader:
                return leader._replicate_slot(leader.log.last_index)
            return []
        return fn

    # k0 is submitted before the first heartbeat tick (0.1+2ms+1.0), k1..k3 after it.
    for key, value, t in [("k0", 0, 0.5), ("k1", 1, 1.5), ("k2", 2, 2.5), ("k3", 3, 3.5)]:
        sim.schedule(Event.once(time=Instant.from_seconds(t), event_type="Submit",
                                fn=make_submit(key, value)))

    def observe(e: Event):
        leader_obs.append((e.time.to_seconds(), [n.is_leader for n in nodes]))
        return []

    t = 0.25
    while t < 6.0:
        sim.schedule(Event.once(time=Instant.from_seconds(t), event_type="Observe", fn=observe))
        t += 0.25

    sim.run()

    print("=== submissions ===")
    for h in history:
        print(h)
    print("=== leadership observations (node-0,node-1,node-2 is_leader) ===")
    for ts, flags in leader_obs:
        print(f"t={ts:.2f} {flags}")
    print("=== final ===")
    for n, sm in zip(nodes, sms):
        print(f"{n.name}: is_leader={n.is_leader} leader={n.leader} stats={n.stats} kv={sm.data}")
    for key, fut in futures.items():
        print(f"future[{key}]: resolved={fut.is_resolved} value={fut.value if fut.is_resolved else None}")

    bad = []
    established = [ts for ts, flags in leader_obs if flags[0]]
    if established:
        first = established[0]
        lost = [ts for ts, flags in leader_obs if ts > first and not flags[0]]
        if lost:
            bad.append(f"node-0 established leadership by t={first:.2f} but is no longer leader at "
                       f"t={lost[0]:.2f} on a fault-free network with no competing proposer")
    else:
        bad.append("node-0 never became leader")
    for key, fut in futures.items():
        if not fut.is_resolved:
            bad.append(f"future for {key} never resolved")
    expected = {"k0": 0, "k1": 1, "k2": 2, "k3": 3}
    for n, sm in zip(nodes, sms):
        if sm.data != expected:
            bad.append(f"{n.name} applied {sm.data}, expected {expected}")

    if bad:
        print("DEFECT:")
        for b in bad:
            print("  -", b)
        return 1
    print("OK: leader stable, all commands decided and applied everywhere")
    return 0


if __name__ == "__main__":
    sys.exit(main())
