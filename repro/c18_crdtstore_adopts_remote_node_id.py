"""C18: CRDTStore._merge_remote_state(), when it learns a key for the first time from a gossip message,
installs `cls.from_dict(remote_dict)` as its LOCAL replica.  from_dict restores the *sender's*
node_id, so from then on this node's own increments/adds are recorded under the sender's identity.
Two nodes then write to the same per-node slot and element-wise-max merging silently loses updates
(for ORSet the two nodes mint identical tags).

Property clause that fails: "CRDT replicas that have received the same updates are equal ... and their
value is the specified one: counters equal increments minus decrements".

Schedule (real engine, 2 CRDTStore nodes with crdt_factory=GCounter, constant 10 ms link,
gossip every 1 s):
  t=0.5  node-a  increment hits by 5          (node-b has never seen key "hits")
  t=1.0  gossip: node-b creates "hits" from node-a's serialized state
  t=1.5  node-a  increment hits by 2 ; node-b increment hits by 3
  t=2.0, 3.0 gossip
Expected final value on both nodes: 5 + 2 + 3 = 10.  Observed: 8 (node-b's 3 was counted in
node-a's slot and max(7, 8) = 8).

Run: /venv/bin/python /verif/repro/c18_crdtstore_adopts_remote_node_id.py   (exit 1 = defect present)
     HS_ROOT=/path/to/tree to test another checkout.
"""
import os
import random
import sys

sys.path.insert(0, os.environ.get("HS_ROOT", "/repo"))

from happysimulator.components.crdt.crdt_store import CRDTStore  # noqa: E402
from happysimulator.components.crdt.g_counter import GCounter  # noqa: E402
from happysimulator.components.crdt.pn_counter import PNCounter  # noqa: E402
from happysimulator.components.network.link import NetworkLink  # noqa: E402
from happysimulator.components.network.network import Network  # noqa: E402
from happysimulator.core.event import Event  # noqa: E402
from happysimulator.core.simulation import Simulation  # noqa: E402
from happysimulator.core.temporal import Instant  # noqa: E402
from happysimulator.distributions.constant import ConstantLatency  # noqa: E402


def run(factory):
    random.seed(1)
    net = Network(name="net")
    na = CRDTStore("node-a", network=net, crdt_factory=factory, gossip_interval=1.0)
    nb = CRDTStore("node-b", network=net, crdt_factory=factory, gossip_interval=1.0)
    na.add_peers([nb])
    nb.add_peers([na])
    net.add_bidirectional_link(na, nb, NetworkLink(name="link", latency=ConstantLatency(0.010)))
    sim = Simulation(end_time=Instant.from_seconds(4.0), entities=[na, nb, net])

    def write(t, node, value):
        return Event(time=Instant.from_seconds(t), event_type="Write", target=node,
                     context={"metadata": {"key": "hits", "operation": "increment", "value": value}})

    sim.schedule([write(0.5, na, 5), write(1.5, na, 2), write(1.5, nb, 3)])
    for t in (1.0, 2.0, 3.0):
        for node in (na, nb):
            sim.schedule(Event(time=Instant.from_seconds(t), event_type="GossipTick", target=node))
    sim.run()
    return na.crdts["hits"], nb.crdts["hits"]


bad = False
for factory, name in ((lambda nid: GCounter(nid), "GCounter"), (lambda nid: PNCounter(nid), "PNCounter")):
    ca, cb = run(factory)
    print(f"{name}: node-a value={ca.value} node-b value={cb.value} expected=10; "
          f"node-b's local replica has node_id={cb.node_id!r} (expected 'node-b'); state={cb.to_dict()}")
    bad |= ca.value != 10 or cb.value != 10 or cb.node_id != "node-b"
print("DEFECT PRESENT: update lost, receiver adopted the sender's node_id" if bad else "ok")
sys.exit(1 if bad else 0)
