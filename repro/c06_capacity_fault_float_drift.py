import os
import sys

sys.path.insert(0, os.environ.get("HS_ROOT", "/repo"))

"""C06_1: ReduceCapacity does float delta arithmetic on Resource._available.

Part A: a grant that was acquired legitimately is released while a ReduceCapacity
        window is active -> Resource._do_release raises ValueError("releasing 1
        would exceed capacity ...") because  available + 1  is one ulp above the
        scaled capacity.  The whole simulation run aborts.
Part B: after overlapping windows have ALL ended, Resource.available is not
        configured - held any more (2.9999999999999996 instead of 3), so a later
        acquire(3) that fits the configured state exactly is not granted (it waits
        until the unrelated holder releases at t=16.5, or forever if it never does).
"""

from happysimulator.components.resource import Resource
from happysimulator.core.entity import Entity
from happysimulator.core.event import Event
from happysimulator.core.simulation import Simulation
from happysimulator.core.temporal import Instant
from happysimulator.faults.resource_faults import ReduceCapacity
from happysimulator.faults.schedule import FaultSchedule


class Worker(Entity):
    """Acquires `amount` units, holds them for `hold` seconds, releases."""

    def __init__(self, name, resource):
        super().__init__(name)
        self.resource = resource
        self.log = []

    def handle_event(self, event):
        amount = event.context["metadata"]["amount"]
        hold = event.context["metadata"]["hold"]
        self.log.append(("asked", amount, self.now.to_seconds(), self.resource.available))
        grant = yield self.resource.acquire(amount)
        self.log.append(("granted", amount, self.now.to_seconds()))
        yield hold
        grant.release()
        self.log.append(("released", amount, self.now.to_seconds()))


def job(worker, t, amount, hold):
    return Event(
        time=Instant.from_seconds(t),
        event_type="job",
        target=worker,
        context={"metadata": {"amount": amount, "hold": hold}},
    )


def part_a() -> bool:
    cpu = Resource("cpu", capacity=8)
    w = Worker("w", cpu)
    faults = FaultSchedule()
    faults.add(ReduceCapacity("cpu", factor=0.3, start=1.0, end=5.0))
    sim = Simulation(
        end_time=Instant.from_seconds(10.0), entities=[cpu, w], fault_schedule=faults
    )
    sim.schedule(job(w, 0.0, 1, 2.0))  # holds 1 unit during [0, 2]; window is [1, 5)
    try:
        sim.run()
    except ValueError as exc:
        print(f"[A] observed : run aborted with ValueError: {exc}")
        print("[A] required : releasing a validly held grant inside a ReduceCapacity window")
        print("               just returns the unit; the run continues and after t=5 the")
        print("               resource is back to capacity=8, available=8")
        return True
    print(f"[A] observed : log={w.log} capacity={cpu.capacity} available={cpu.available}")
    ok = cpu.capacity == 8 and cpu.available == 8 and ("released", 1, 2.0) in w.log
    print("[A] required : released at t=2, capacity == available == 8 ->", "ok" if ok else "VIOLATED")
    return not ok


def part_b() -> bool:
    pool = Resource("pool", capacity=4)
    holder = Worker("holder", pool)
    late = Worker("late", pool)
    faults = FaultSchedule()
    faults.add(ReduceCapacity("pool", factor=0.7, start=1.0, end=4.0))
    faults.add(ReduceCapacity("pool", factor=0.3, start=2.0, end=7.0))
    faults.add(ReduceCapacity("pool", factor=0.9, start=5.0, end=6.0))
    sim = Simulation(
        end_time=Instant.from_seconds(30.0),
        entities=[pool, holder, late],
        fault_schedule=faults,
    )
    sim.schedule(job(holder, 1.5, 1, 15.0))  # keeps 1 unit during [1.5, 16.5]
    sim.schedule(job(late, 8.0, 3, 1.0))  # every window is over at t=7: 3 units are free
    sim.run()
    print(f"[B] observed : late.log={late.log}  (asked = (amount, time, pool.available when asking))")
    ok = pool.capacity == 4 and ("granted", 3, 8.0) in late.log
    print(
        "[B] required : capacity=4, available=3 at t=8 and acquire(3) granted at t=8.0 ->",
        "ok" if ok else "VIOLATED",
    )
    return not ok


if __name__ == "__main__":
    bad_a = part_a()
    bad_b = part_b()
    sys.exit(1 if (bad_a or bad_b) else 0)
