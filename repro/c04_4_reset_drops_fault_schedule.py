"""C04-4: control.reset() does not re-prime the fault schedule, so reset()+run() is a different run.

Property clause (C04): "reset() followed by run() repeats the original delivery sequence for models
whose entities are stateless."

`SimulationControl.reset()` (happysimulator/core/control/control.py) rebuilds the heap from the sources,
the probes and the events scheduled before the first run(), but not from `Simulation._fault_schedule`
(which `Simulation.__init__` primes right after the probes).  After reset() the heap contains no fault
events, so the second run has no faults at all.  reset() also leaves `Simulation._events_cancelled`
untouched, so the summary of the second run also counts the cancellations of the first.

Scenario 1 (decides the exit code).  Stateless entity "server": on every request it appends to a log and
returns an already-cancelled timeout event (so each handled request adds one to events_cancelled).  One
request per second at t=0.5, 1.5, ... 11.5, scheduled before run(); fault schedule =
CrashNode("server", at=5, restart_at=8); end_time 12.  Run to the end, reset(), run again; deliveries
(time, event_type, target) are recorded with control.on_event.
Expected: identical delivery sequences and identical summary counters.
Observed: run 2 has no fault.crash/fault.restart deliveries, "server" handles the requests at t=5.5,
6.5, 7.5 that were dropped in run 1; events_cancelled is 9 for run 1 and 21 (= 9 + 12) for run 2.

Scenario 2 (printed, NOT part of the exit code): the same with a second fault whose handle was cancelled
before run().  Once reset() re-primes the schedule through FaultSchedule.start(), that cancelled fault
only stays cancelled if start() honours `handle.cancelled` -- which is defect C06-5
(c06_5_cancel_before_start.py); so this scenario passes only with both fixes.

Run: /venv/bin/python /verif/repro/c04_4_reset_drops_fault_schedule.py  (exit 1 = defect present, 0 = absent)
     HS_ROOT=/path/to/tree selects another source tree.
"""
import os
import sys

sys.path.insert(0, os.environ.get("HS_ROOT", "/repo"))
from happysimulator.core.entity import Entity
from happysimulator.core.event import Event
from happysimulator.core.simulation import Simulation
from happysimulator.core.temporal import Instant
from happysimulator.faults import CrashNode, FaultSchedule, PauseNode


class Server(Entity):
    """Stateless apart from its observation log."""

    def __init__(self, name):
        super().__init__(name)
        self.handled = []

    def handle_event(self, event):
        self.handled.append(event.time.to_seconds())
        timeout = Event(time=self.now + 0.1, event_type="Timeout", target=self)
        timeout.cancel()  # request completed: its timeout is cancelled (skipped by the loop, counted)
        return [timeout]


def scenario(label, with_cancelled_fault):
    server = Server("server")
    schedule = FaultSchedule()
    schedule.add(CrashNode("server", at=5.0, restart_at=8.0))
    cancelled = schedule.add(PauseNode("server", start=9.0, end=11.0)) if with_cancelled_fault else None
    sim = Simulation(end_time=Instant.from_seconds(12.0), entities=[server], fault_schedule=schedule)
    for i in range(12):
        sim.schedule(Event(time=Instant.from_seconds(i + 0.5), event_type="Request", target=server))
    if cancelled is not None:
        cancelled.cancel()  # after construction, before run(): works in run 1

    deliveries = []
    sim.control.on_event(
        lambda ev: deliveries.append((ev.time.to_seconds(), ev.event_type, getattr(ev.target, "name", "?")))
    )
    s1 = sim.run()
    run1, handled1 = list(deliveries), list(server.handled)
    deliveries.clear()
    server.handled.clear()

    sim.control.reset()
    s2 = sim.run()
    run2, handled2 = list(deliveries), list(server.handled)

    print(f"--- {label}")
    print("run 1 deliveries:", len(run1), " handled by server:", handled1)
    print("run 2 deliveries:", len(run2), " handled by server:", handled2)
    print("delivered only in run 1:", [d for d in run1 if d not in run2])
    print("delivered only in run 2:", [d for d in run2 if d not in run1])
    print(f"summary run 1: processed={s1.total_events_processed} cancelled={s1.events_cancelled}")
    print(f"summary run 2: processed={s2.total_events_processed} cancelled={s2.events_cancelled}")
    bad = 0
    if run1 != run2 or handled1 != handled2:
        print("DELIVERY SEQUENCE DIFFERS after reset()+run()")
        bad += 1
    if (s1.total_events_processed, s1.events_cancelled) != (s2.total_events_processed, s2.events_cancelled):
        print("SUMMARY COUNTERS DIFFER after reset()+run()")
        bad += 1
    return bad


bad = scenario("scenario 1: crash fault", False)
extra = scenario("scenario 2: crash fault + a fault cancelled before run() [also needs the C06-5 fix]", True)
print("scenario 2:", "differs (not counted)" if extra else "identical")
print("DEFECT PRESENT" if bad else "defect absent")
sys.exit(1 if bad else 0)
