"""C03: TTLEviction defaults `clock_func` to time.time (wall clock), so inside a simulation the TTL is
measured in real seconds spent by the interpreter, not in simulated seconds.

Property clause that fails: same model + same seeds => identical component statistics "regardless of
... wall-clock time".

Model (real engine): CachedStore with TTLEviction(ttl=0.2) constructed the documented way (no
clock_func).  A client entity puts key "a" at t=1, waits 5 *simulated* seconds (25 x ttl), then asks
the policy `is_expired("a")` / `get_expired_keys()` (the public TTL API the examples use to decide
hit vs. miss).  The model is run twice in this process; the second run is the identical model and
schedule but the host is "slower": the handler burns 0.3 s of wall time (time.sleep) while waiting.
Observed: run 1 says not expired after 5 simulated seconds (25 x ttl), run 2 says expired.
Note: TTLEviction.evict() itself is not clock sensitive (with a monotone clock the oldest key is
always the first expired one), so only is_expired()/get_expired_keys() expose the wall clock.

Run: /venv/bin/python /verif/repro/c03_ttl_eviction_wall_clock.py   (exit 1 = defect present)
     HS_ROOT=/path/to/tree to test another checkout.
"""
import os
import sys
import time

ROOT = os.environ.get("HS_ROOT", "/repo")
sys.path.insert(0, ROOT)

from happysimulator.components.datastore import CachedStore, KVStore, TTLEviction  # noqa: E402
from happysimulator.core.entity import Entity  # noqa: E402
from happysimulator.core.event import Event  # noqa: E402
from happysimulator.core.simulation import Simulation  # noqa: E402
from happysimulator.core.temporal import Instant  # noqa: E402


def run(host_delay: float):
    db = KVStore("db")
    policy = TTLEviction(ttl=0.2)
    cache = CachedStore("cache", backing_store=db, cache_capacity=8, eviction_policy=policy)
    seen = {}

    class Client(Entity):
        def handle_event(self, event):
            yield from cache.put("a", 1)
            t0 = self.now.to_seconds()
            yield 5.0
            time.sleep(host_delay)  # wall-clock only; simulated schedule is unchanged
            seen["sim_elapsed"] = round(self.now.to_seconds() - t0, 6)
            seen["is_expired"] = policy.is_expired("a")
            seen["expired_keys"] = policy.get_expired_keys()

    client = Client("client")
    sim = Simulation(end_time=Instant.from_seconds(20), entities=[db, cache, client])
    sim.schedule(Event(time=Instant.from_seconds(1), event_type="go", target=client))
    sim.run()
    return seen


a = run(0.0)
b = run(0.3)
print("fast host :", a)
print("slow host :", b)
expected = {"sim_elapsed": 5.0, "is_expired": True, "expired_keys": ["a"]}
print("expected  :", expected, "(ttl=0.2 simulated seconds, 5.0 simulated seconds elapsed)")
bad = a != b or a != expected
print("DEFECT PRESENT: TTL outcome depends on wall-clock time" if bad else "ok")
sys.exit(1 if bad else 0)
