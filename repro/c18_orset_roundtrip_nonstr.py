"""C18 (serialisation clause): ORSet.to_dict() keys its "entries" by `str(element)`, and from_dict()
uses those strings as the elements.  For any element that is not a str (ORSet elements are typed Any:
ints, tuples ...) the round trip changes the element, so a replica rebuilt from gossip state is not
the replica that was sent, and after the state is gossiped back the origin holds BOTH 1 and "1".
Two distinct elements with the same str() (1 and "1") also collapse into one entry.

Property clause that fails: replicas that have received the same updates are equal / value is the
specified one "... and round trips through to_dict/from_dict".

Schedule 1 (direct): s.add(1); s.add((1, 2)); ORSet.from_dict(s.to_dict()).elements != s.elements.
Schedule 2 (real engine): two CRDTStore nodes (crdt_factory=ORSet), node-a Write add 7 (an int) at
t=0.5, gossip at t=1, 2.  Expected both nodes: {7}.  Observed: node-b {'7'}, node-a {7, '7'}.

Run: /venv/bin/python /verif/repro/c18_orset_roundtrip_nonstr.py   (exit 1 = defect present)
     HS_ROOT=/path/to/tree to test another checkout.
"""
import os
import random
import sys

sys.path.insert(0, os.environ.get("HS_ROOT", "/repo"))

from happysimulator.components.crdt.crdt_store import CRDTStore  # noqa: E402
from happysimulator.components.crdt.or_set import ORSet  # noqa: E402
from happysimulator.components.network.link import NetworkLink  # noqa: E402
from happysimulator.components.network.network import Network  # noqa: E402
from happysimulator.core.event import Event  # noqa: E402
from happysimulator.core.simulation import Simulation  # noqa: E402
from happysimulator.core.temporal import Instant  # noqa: E402
from happysimulator.distributions.constant import ConstantLatency  # noqa: E402

bad = False
s = ORSet("a")
s.add(1)
s.add((1, 2))
s2 = ORSet.from_dict(s.to_dict())
print("direct : original elements", set(s.elements), "-> after to_dict/from_dict", set(s2.elements))
bad |= s2.elements != s.elements or s2 != s

t = ORSet("a")
t.add("1")
t.add(1)
t.remove(1)
t2 = ORSet.from_dict(t.to_dict())
print("direct : add('1'); add(1); remove(1): elements", set(t.elements), "-> after round trip", set(t2.elements))
bad |= t2.elements != t.elements

random.seed(1)
net = Network(name="net")
na = CRDTStore("node-a", network=net, crdt_factory=lambda nid: ORSet(nid), gossip_interval=1.0)
nb = CRDTStore("node-b", network=net, crdt_factory=lambda nid: ORSet(nid), gossip_interval=1.0)
na.add_peers([nb])
nb.add_peers([na])
net.add_bidirectional_link(na, nb, NetworkLink(name="link", latency=ConstantLatency(0.010)))
sim = Simulation(end_time=Instant.from_seconds(3.0), entities=[na, nb, net])
sim.schedule(Event(time=Instant.from_seconds(0.5), event_type="Write", target=na,
                   context={"metadata": {"key": "ids", "operation": "add", "value": 7}}))
for tt in (1.0, 2.0):
    for node in (na, nb):
        sim.schedule(Event(time=Instant.from_seconds(tt), event_type="GossipTick", target=node))
sim.run()
va, vb = set(na.crdts["ids"].value), set(nb.crdts["ids"].value)
print(f"engine : node-a ids = {va!r}, node-b ids = {vb!r}   (expected both {{7}})")
bad |= va != {7} or vb != {7}
print("DEFECT PRESENT: to_dict/from_dict does not preserve non-str elements" if bad else "ok")
sys.exit(1 if bad else 0)
