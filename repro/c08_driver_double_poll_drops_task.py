import os
import sys

sys.path.insert(0, os.environ.get("HS_ROOT", "/repo"))

# C09 defect 2: a ThreadPool / Server with an UNBOUNDED queue silently loses a task.
# When a worker finishes at instant T and two tasks arrive at the same instant T into
# the (empty) queue, the queue driver polls twice for ONE free worker; the second task
# is dequeued, finds no worker, and is thrown away ("Failed to acquire worker").

import logging

from happysimulator.components.server.server import Server
from happysimulator.components.server.thread_pool import ThreadPool
from happysimulator.core.event import Event
from happysimulator.core.simulation import Simulation
from happysimulator.core.temporal import Instant
from happysimulator.distributions.constant import ConstantLatency

logging.disable(logging.CRITICAL)

ARRIVALS = [0.0, 0.0, 2.0, 2.0]  # two tasks every 2 s, each takes 1 s, one worker


def run(kind):
    if kind == "ThreadPool":
        res = ThreadPool("pool", num_workers=1, default_processing_time=1.0)
    else:
        res = Server("server", concurrency=1, service_time=ConstantLatency(1.0))
    sim = Simulation(
        start_time=Instant.Epoch, end_time=Instant.from_seconds(60), entities=[res]
    )
    for i, t in enumerate(ARRIVALS):
        ev = Event(
            time=Instant.from_seconds(t),
            event_type=f"task{i}",
            target=res,
            context={"metadata": {"id": i}},
        )
        sim.schedule(ev)
    sim.run()
    st = res.stats
    completed = st.tasks_completed if kind == "ThreadPool" else st.requests_completed
    rejected = st.tasks_rejected if kind == "ThreadPool" else st.requests_rejected
    return completed, rejected, res.depth, res.stats_dropped


violated = False
for kind in ("ThreadPool", "Server"):
    completed, rejected, depth, q_dropped = run(kind)
    print(f"--- {kind}(1 worker, 1 s per task, unbounded FIFO queue), arrivals at {ARRIVALS}")
    print(
        f"    observed : completed={completed} rejected={rejected} "
        f"still_queued={depth} queue_drops={q_dropped}"
    )
    print(
        f"    required : all {len(ARRIVALS)} tasks are served one after the other "
        f"(completed={len(ARRIVALS)}, rejected=0): a waiter whose predecessor releases "
        "is eventually served; nothing is lost with an unbounded queue"
    )
    if completed != len(ARRIVALS) or rejected != 0:
        violated = True
        print(f"    VIOLATION: {len(ARRIVALS) - completed} task(s) lost")

if violated:
    print("RESULT: defect observed")
    sys.exit(1)
print("RESULT: ok")
sys.exit(0)
