import os
import sys

sys.path.insert(0, os.environ.get("HS_ROOT", "/repo"))

"""C06_2: an acquire() that is valid for the configured capacity raises ValueError
while a ReduceCapacity window is active (instead of waiting for capacity).

Resource capacity 4, every job needs 2 units.  ReduceCapacity(factor=0.25) is
active during [1, 3): capacity is 1.0 in the window.  A job arriving at t=1.5
must simply wait (the fault module's own docstring: "acquirers then wait") and
get its 2 units at t=3 when the window ends.  Instead Resource.acquire() raises
"cannot acquire 2 from resource 'disk' with capacity 1.0" out of the handler and
the whole Simulation.run() aborts - the fault has destroyed the run, not degraded
the resource for its window.
"""

from happysimulator.components.resource import Resource
from happysimulator.core.entity import Entity
from happysimulator.core.event import Event
from happysimulator.core.simulation import Simulation
from happysimulator.core.temporal import Instant
from happysimulator.faults.resource_faults import ReduceCapacity
from happysimulator.faults.schedule import FaultSchedule


class Worker(Entity):
    def __init__(self, name, resource):
        super().__init__(name)
        self.resource = resource
        self.log = []

    def handle_event(self, event):
        self.log.append(("asked", self.now.to_seconds()))
        grant = yield self.resource.acquire(2)
        self.log.append(("granted", self.now.to_seconds()))
        yield 0.5
        grant.release()
        self.log.append(("released", self.now.to_seconds()))


def main() -> int:
    disk = Resource("disk", capacity=4)
    w = Worker("w", disk)
    faults = FaultSchedule()
    faults.add(ReduceCapacity("disk", factor=0.25, start=1.0, end=3.0))
    sim = Simulation(
        end_time=Instant.from_seconds(10.0), entities=[disk, w], fault_schedule=faults
    )
    for t in (0.2, 1.5, 4.0):  # before, inside and after the window
        sim.schedule(Event(time=Instant.from_seconds(t), event_type="job", target=w))
    try:
        sim.run()
    except ValueError as exc:
        print(f"observed : Simulation.run() aborted with ValueError: {exc}")
        print(f"           worker log so far: {w.log}")
        print("required : the job of t=1.5 waits while capacity is reduced and is granted")
        print("           at t=3.0 (window end); the job of t=4.0 runs normally; at the end")
        print("           capacity == available == 4")
        return 1
    print(f"observed : log={w.log} capacity={disk.capacity} available={disk.available}")
    ok = (
        ("granted", 3.0) in w.log
        and ("granted", 4.0) in w.log
        and disk.capacity == 4
        and disk.available == 4
    )
    print("required : job of t=1.5 granted at 3.0, job of t=4.0 granted at 4.0, capacity restored ->",
          "ok" if ok else "VIOLATED")
    return 0 if ok else 1


if __name__ == "__main__":
    sys.exit(main())
