"""Repro: ShiftedServer / RenegingQueuedResource / InspectionStation silently replace a supplied queue policy by FIFO.

Their constructors pass `policy=policy or FIFOQueue()` on; every queue policy defines __len__, so a freshly built (empty) policy object is
falsy and the expression discards it.  Items then leave the queue in FIFO order whatever policy the user configured.

Scenario: ShiftedServer(capacity 1, service 1 s, policy=LIFOQueue()); items a, b, c, d arrive at t = 0, 0.1, 0.2, 0.3 (a enters service, b, c, d wait).
LIFO requires the service order a, d, c, b; observed a, b, c, d.  Exit 1 if the configured policy is not the one in use.
"""
import os
import sys

sys.path.insert(0, os.environ.get("HS_ROOT", "/repo"))

from happysimulator.components.industrial.inspection import InspectionStation  # noqa: E402
from happysimulator.components.industrial.reneging import RenegingQueuedResource  # noqa: E402
from happysimulator.components.industrial.shift_schedule import Shift, ShiftedServer, ShiftSchedule  # noqa: E402
from happysimulator.components.queue_policy import LIFOQueue  # noqa: E402
from happysimulator.core.entity import Entity  # noqa: E402
from happysimulator.core.event import Event  # noqa: E402
from happysimulator.core.simulation import Simulation  # noqa: E402
from happysimulator.core.temporal import Instant  # noqa: E402


class Sink(Entity):
    def __init__(self):
        super().__init__("sink")
        self.order = []

    def handle_event(self, event):
        self.order.append(event.context.get("tag"))


def main():
    ok = True
    sink = Sink()
    srv = ShiftedServer("shifted", ShiftSchedule([Shift(0.0, 100.0, 1)]), service_time=1.0, downstream=sink, policy=LIFOQueue())
    sim = Simulation(start_time=Instant.Epoch, duration=20, entities=[srv, sink])
    for k, tag in enumerate("abcd"):
        sim.schedule(Event(time=Instant.from_seconds(0.1 * k), event_type="item", target=srv, context={"tag": tag}))
    sim.run()
    want = ["a", "d", "c", "b"]
    print(f"ShiftedServer(policy=LIFOQueue()): policy in use = {type(srv.queue.policy).__name__}; service order {sink.order}, LIFO requires {want}")
    ok &= sink.order == want
    for cls, kw in ((InspectionStation, {}), ):
        try:
            st = cls("x", policy=LIFOQueue(), **kw)
            used = type(st.queue.policy).__name__
            print(f"{cls.__name__}(policy=LIFOQueue()): policy in use = {used}")
            ok &= used == "LIFOQueue"
        except TypeError as exc:  # constructor needs more arguments: only the ShiftedServer run counts
            print(f"{cls.__name__}: skipped ({exc})")
    print("RESULT:", "ok" if ok else "DEFECT: the configured queue policy was replaced by FIFOQueue")
    return 0 if ok else 1


sys.exit(main())
