"""C09-1: ConnectionPool opens more than max_connections when acquirers overlap a connection setup.

Property clause violated
  C09: "capacity primitives never over-admit ..." -- a pool configured with max_connections=N must
  never have more than N connections open / handed out at once.

Mechanism (happysimulator/components/client/connection_pool.py)
  ConnectionPool.acquire() checks `self._total_connections < self._max_connections` and then runs
  `yield from self._create_connection()`.  `_create_connection()` first *yields the connection
  latency* and only afterwards does `self._total_connections += 1`.  Every acquirer that arrives while
  a connection is still being established sees the old total and also starts creating one.

Input / schedule
  max_connections=1, connection_latency=0.5 s, three workers call `yield from pool.acquire()` at
  t=0.0, 0.1, 0.2 s, hold the connection for 1 s and release it.
  expected: 1 connection created, never more than 1 open/active; workers 2 and 3 queue and are
            served from releases (t=1.5, 2.5)
  observed: 3 connections created, 3 active simultaneously with max_connections=1.

Run: /venv/bin/python /verif/repro/c09_1_connection_pool_overadmit.py
     HS_ROOT=/path/to/checkout overrides the library root (default /repo)
Exit 1 = defect present, 0 = absent.
"""
import os
import sys

sys.path.insert(0, os.environ.get("HS_ROOT", "/repo"))

from happysimulator.components.client.connection_pool import ConnectionPool  # noqa: E402
from happysimulator.core.entity import Entity  # noqa: E402
from happysimulator.core.event import Event  # noqa: E402
from happysimulator.core.simulation import Simulation  # noqa: E402
from happysimulator.core.temporal import Instant  # noqa: E402
from happysimulator.distributions.constant import ConstantLatency  # noqa: E402

MAX = 1


class Server(Entity):
    def handle_event(self, event):
        return None


peak = {"active": 0, "total": 0}
acquired = []


class Worker(Entity):
    def __init__(self, name, pool):
        super().__init__(name)
        self.pool = pool

    def handle_event(self, event):
        conn = yield from self.pool.acquire()
        acquired.append((self.name, conn.id, self.now.to_seconds()))
        peak["active"] = max(peak["active"], self.pool.active_connections)
        peak["total"] = max(peak["total"], self.pool.total_connections)
        yield 1.0
        return self.pool.release(conn)


server = Server("server")
pool = ConnectionPool(
    name="pool",
    target=server,
    max_connections=MAX,
    connection_timeout=5.0,
    connection_latency=ConstantLatency(0.5),
)
workers = [Worker(f"w{i}", pool) for i in range(3)]
sim = Simulation(end_time=Instant.from_seconds(10.0), entities=[server, pool, *workers])
for i, w in enumerate(workers):
    sim.schedule(Event(time=Instant.from_seconds(0.1 * i), event_type="go", target=w))
sim.run()

print(f"max_connections          = {MAX}")
print(f"acquisitions (who, conn id, t) = {acquired}")
print(f"connections_created      = {pool.stats.connections_created}")
print(f"peak total_connections   = {peak['total']}")
print(f"peak active_connections  = {peak['active']}")
print(f"timeouts                 = {pool.stats.timeouts}")

over = peak["total"] > MAX or peak["active"] > MAX or pool.stats.connections_created > MAX
served = len(acquired) == 3
if over:
    print("DEFECT: pool over-admitted (more connections open than max_connections)")
elif not served:
    print("DEFECT: not every worker was served")
else:
    print("ok: pool never exceeded max_connections and every worker was served")
sys.exit(1 if (over or not served) else 0)
