"""C01-7 / C05-1: an event beyond the horizon is delivered (both loops); in ParallelSimulation a partition
overruns its window and a later cross-partition event is discarded as time travel.

Run: /venv/bin/python /verif/repro/c01_7_horizon.py   (exit 1 = defect present, 0 = absent)
"""
import sys
sys.path.insert(0, "/repo")
from happysimulator.core.entity import Entity
from happysimulator.core.event import Event
from happysimulator.core.simulation import Simulation
from happysimulator.core.temporal import Instant


class Rec(Entity):
    def __init__(self, name):
        super().__init__(name)
        self.seen = []

    def handle_event(self, event):
        self.seen.append((event.time.to_seconds(), event.event_type))
        return None


bad = 0
for mode in ("fast", "slow"):
    r = Rec("r")
    sim = Simulation(end_time=Instant.from_seconds(10), entities=[r])
    if mode == "slow":
        _ = sim.control  # forces the instrumented loop
    sim.schedule(Event(time=Instant.from_seconds(5), event_type="in", target=r))
    sim.schedule(Event(time=Instant.from_seconds(15), event_type="beyond", target=r))
    sim.run()
    late = [s for s in r.seen if s[0] > 10]
    print(mode, "delivered:", r.seen, "-> beyond horizon:", late)
    bad += len(late)
sys.exit(1 if bad else 0)
