"""C10-5a: DistributedRateLimiter admits more than global_limit requests per window (lost update on the
shared counter).

Property clause (C10): "Rate limiters never over-admit" - for the distributed limiter the bound is
`global_limit` admissions per aligned window across all instances sharing the store.

`DistributedRateLimiter.check_and_increment` reads the shared counter (`yield` read latency), and then writes
`read + 1` back (`yield` write latency).  Any other request (on another instance, or on the same one) that
reads between that read and the completed write sees the same value; both write the same `read + 1`.

Schedule (real engine): two limiter instances share one real KVStore (1 ms read, 1 ms write), global_limit=3,
window 1.0 s.  At 0.1, 0.2, 0.3 and 0.4 s one request arrives at each instance (same instant).  Expected: at most
3 admissions in window 0 in total.  Observed: 6 admissions (3 per instance), store counter says 3.
Admissions are counted from the limiter's own stats/forwarded_times (independent of the separate stale
timestamp defect that makes the forward events themselves get discarded, see
c10_5_distributed_stale_forward_time.py).

Run: /venv/bin/python /verif/repro/c10_5_distributed_over_admission.py     (exit 1 = defect present)
     HS_ROOT=/path/to/tree to test another checkout.
"""
import logging
import os
import sys

sys.path.insert(0, os.environ.get("HS_ROOT", "/repo"))
from happysimulator.components.datastore import KVStore
from happysimulator.components.rate_limiter.distributed import DistributedRateLimiter
from happysimulator.core.entity import Entity
from happysimulator.core.event import Event
from happysimulator.core.simulation import Simulation
from happysimulator.core.temporal import Instant

logging.getLogger("happysimulator.core.simulation").setLevel(logging.ERROR)  # silence time-travel noise


class Sink(Entity):
    def handle_event(self, event):
        return None


LIMIT = 3
sink = Sink("sink")
store = KVStore(name="redis", read_latency=0.001, write_latency=0.001)
n1 = DistributedRateLimiter("node1", downstream=sink, backing_store=store, global_limit=LIMIT, window_size=1.0)
n2 = DistributedRateLimiter("node2", downstream=sink, backing_store=store, global_limit=LIMIT, window_size=1.0)
sim = Simulation(end_time=Instant.from_seconds(0.9), entities=[n1, n2, sink, store])
for i in range(4):
    t = 0.1 + 0.1 * i
    sim.schedule(Event(time=Instant.from_seconds(t), event_type="req", target=n1))
    sim.schedule(Event(time=Instant.from_seconds(t), event_type="req", target=n2))
sim.run()

admitted = n1.stats.requests_forwarded + n2.stats.requests_forwarded
print("node1:", n1.stats)
print("node2:", n2.stats)
print("store counter for window 0:", store.get_sync("ratelimit:window:0"))
print(f"admitted in window [0,1): {admitted}  (global_limit = {LIMIT})")
bad = admitted > LIMIT
print("DEFECT PRESENT: global over-admission" if bad else "ok: global limit respected")
sys.exit(1 if bad else 0)
