"""C14_1: LSMTree(max_levels=1) serves stale / resurrected data after a
compaction that overlaps a memtable flush.

With a single level the compaction merges L0 into L0.  It picks its input
tables, suspends for the SSTable write latency and then *appends* the merged
table to L0.  A memtable flushed during that suspension is already in L0, so
the (older) merged table ends up behind it in the list -- and LSMTree.get /
scan treat the last table of a level as the newest one.
"""
import os
import sys

sys.path.insert(0, os.environ.get("HS_ROOT", "/repo"))

from happysimulator import Event, Instant, Simulation
from happysimulator.components.storage.lsm_tree import (
    FIFOCompaction,
    LeveledCompaction,
    LSMTree,
    SizeTieredCompaction,
)
from happysimulator.core.entity import Entity


class Client(Entity):
    def __init__(self, store):
        super().__init__("client")
        self.store = store
        self.trace = []

    def handle_event(self, event):
        op = event.context["op"]
        t0 = self.now.to_seconds()
        if op[0] == "put":
            yield from self.store.put(op[1], op[2])
            res = None
        elif op[0] == "delete":
            yield from self.store.delete(op[1])
            res = None
        elif op[0] == "get":
            res = yield from self.store.get(op[1])
        else:
            res = yield from self.store.scan(op[1], op[2])
        self.trace.append((op, t0, self.now.to_seconds(), res))


def run(strategy, second_write):
    lsm = LSMTree(
        "db",
        memtable_size=1,  # every write flushes
        compaction_strategy=strategy,
        max_levels=1,
        sstable_write_latency=0.010,
        sstable_read_latency=0.001,
    )
    client = Client(lsm)
    sim = Simulation(
        start_time=Instant.Epoch,
        end_time=Instant.from_seconds(10),
        entities=[lsm, client],
    )
    plan = [
        (0.000, ("put", "k", "old")),  # flush -> L0=[S1]
        (0.020, ("put", "x", 1)),  # flush -> L0=[S1,S2]; at 0.030 compaction starts, installs at 0.040
        (0.032, second_write),  # flush S3 lands in L0 while the compaction is suspended
        (0.100, ("get", "k")),  # everything above finished long ago
        (0.200, ("scan", "a", "z")),
    ]
    for t, op in plan:
        sim.schedule(
            Event(time=Instant.from_seconds(t), event_type="op", target=client, context={"op": op})
        )
    sim.run()
    return lsm, client.trace


def main():
    violations = 0
    strategies = [
        ("SizeTieredCompaction(min_sstables=2)", lambda: SizeTieredCompaction(min_sstables=2)),
        ("LeveledCompaction(level_0_max=2)", lambda: LeveledCompaction(level_0_max=2)),
        ("FIFOCompaction(max_total_sstables=1)", lambda: FIFOCompaction(max_total_sstables=1)),
    ]
    for sname, mk in strategies:
        for second, want_get, want_scan in [
            (("put", "k", "new"), "new", [("k", "new"), ("x", 1)]),
            (("delete", "k"), None, [("x", 1)]),
        ]:
            lsm, trace = run(mk(), second)
            by_op = {op[0]: (op, t0, t1, res) for op, t0, t1, res in trace}
            w = [r for r in trace if r[0] == second][0]
            got_get = by_op["get"][3]
            got_scan = by_op["scan"][3]
            print(f"--- {sname}, max_levels=1, second write = {second}")
            print(f"    second write ran {w[1]:.6f}s .. {w[2]:.6f}s; get started {by_op['get'][1]:.3f}s")
            print(f"    compactions={lsm.stats.compactions} L0={lsm._levels[0]}")
            print(f"    get('k')      observed {got_get!r:8} required {want_get!r}")
            print(f"    scan('a','z') observed {got_scan!r} required {want_scan!r}")
            if got_get != want_get or got_scan != want_scan:
                violations += 1
    if violations:
        print(f"VIOLATION in {violations} of 6 runs: a read that began after the latest write "
              "to 'k' had completed returned the previous value (or a deleted key came back)")
        return 1
    print("OK: every read returned the latest completed write")
    return 0


if __name__ == "__main__":
    sys.exit(main())
