"""C06-4 / C09: ReduceCapacity breaks `held + available == capacity` when the resource is in use.

Property clauses: C09 "held plus available always equals capacity, and a release never pushes it above
capacity ... never has more outstanding ... amount than its limit"; C06 "once every window has ended
the system is back to its configured state".

`ReduceCapacity.activate` (happysimulator/faults/resource_faults.py) computes the reduction in a
statement whose value is discarded (`resource._capacity - new_capacity`), then only clamps `_available`
to the new capacity; `deactivate` adds the full capacity increase back to `_available`.  With capacity
in use at activation the two are not inverse and neither keeps the invariant.

Schedule: Resource("cpu", capacity=8).  A worker acquires 6 at t=1 s and releases at t=50 s.
`ReduceCapacity("cpu", factor=0.5, start=10, end=30)`.  A second worker acquires 2 at t=15 s (inside the
window, when capacity is 4 and 6 are already held) and releases at t=50 s.
Expected: held + available == capacity at every sample (available is negative while more is held than
the reduced capacity -- nothing is preempted); the t=15 acquire waits (6 held > capacity 4) and is granted
when the capacity comes back at t=30; all releases succeed; final state 8/8.   Observed: at t=12: held 6 + available 2 = 8 > capacity 4; the t=15 acquire is granted at once
(8 held of capacity 4); after restore at t=30: held 8 + available 4 = 12 > 8; the release at t=50 raises
ValueError("releasing 6 would exceed capacity") out of Simulation.run().

Run: /venv/bin/python /verif/repro/c06_4_reduce_capacity_accounting.py  (exit 1 = defect present, 0 = absent)
     HS_ROOT=/path/to/tree selects another source tree.
"""
import os
import sys

sys.path.insert(0, os.environ.get("HS_ROOT", "/repo"))
from happysimulator.components.resource import Resource
from happysimulator.core.entity import Entity
from happysimulator.core.event import Event
from happysimulator.core.simulation import Simulation
from happysimulator.core.temporal import Instant
from happysimulator.faults import FaultSchedule, ReduceCapacity


class Worker(Entity):
    def __init__(self, name, resource, amount, release_at, log):
        super().__init__(name)
        self.resource, self.amount, self.release_at, self.log = resource, amount, release_at, log

    def handle_event(self, event):
        asked = self.now.to_seconds()
        grant = yield self.resource.acquire(self.amount)
        self.log.append((self.name, "granted", self.amount, "asked", asked, "at", self.now.to_seconds()))
        HELD[self.name] = self.amount
        yield self.release_at - self.now.to_seconds()
        grant.release()
        HELD[self.name] = 0
        self.log.append((self.name, "released", self.amount, "at", self.now.to_seconds()))


HELD = {}
log = []
cpu = Resource("cpu", capacity=8)
w1 = Worker("w1", cpu, 6, 50.0, log)
w2 = Worker("w2", cpu, 2, 50.0, log)
schedule = FaultSchedule()
schedule.add(ReduceCapacity("cpu", factor=0.5, start=10.0, end=30.0))
sim = Simulation(end_time=Instant.from_seconds(60.0), entities=[cpu, w1, w2], fault_schedule=schedule)
sim.schedule(Event(time=Instant.from_seconds(1.0), event_type="go", target=w1))
sim.schedule(Event(time=Instant.from_seconds(15.0), event_type="go", target=w2))

samples = []


def sample(e):
    held = sum(HELD.values())
    samples.append((e.time.to_seconds(), held, cpu.available, cpu.capacity))


for t in (5.0, 12.0, 20.0, 35.0, 55.0):
    sim.schedule(Event.once(time=Instant.from_seconds(t), event_type="sample", fn=sample))

error = None
try:
    sim.run()
except ValueError as exc:  # raised by Resource._do_release
    error = exc

bad = 0
for t, held, avail, cap in samples:
    ok = held + avail == cap  # (held may exceed a freshly reduced capacity: nothing is preempted)
    print(f"t={t:>4}: held={held} available={avail} capacity={cap} held+available={held + avail} {'ok' if ok else 'INVARIANT BROKEN'}")
    bad += not ok
for entry in log:
    print("  ", entry)
w2_grant = [e for e in log if e[0] == "w2" and e[1] == "granted"]
if w2_grant and w2_grant[0][-1] < 30.0:
    print(f"w2 was granted 2 at t={w2_grant[0][-1]} while 6 were held and the capacity was 4 (over-admission)")
    bad += 1
if error is not None:
    print("Simulation.run() raised:", repr(error))
    bad += 1
final_ok = cpu.capacity == 8 and cpu.available == 8
print(f"final: capacity={cpu.capacity} available={cpu.available} (configured 8/8) {'ok' if final_ok else 'NOT RESTORED'}")
bad += not final_ok
print("DEFECT PRESENT" if bad else "defect absent")
sys.exit(1 if bad else 0)
