"""C05-1: a partition overruns its window (the window loop delivers the first event beyond window_end), so a
cross-partition event arriving later for an earlier instant is discarded as "Time travel" — lost in the parallel run
although the sequential run delivers it.

Schedule: links A->B min_latency 1.0 (window 1.0). Partition B has a local event at t=5.0 only; partition A sends to B
at t=0.5 an event for t=1.5. In window [0,1] B's loop pops its 5.0 s event (beyond the window) and moves its clock to 5.0;
at the barrier the cross event for 1.5 s is scheduled into B and later dropped with "Time travel detected".

Run: /venv/bin/python /verif/repro/c05_1_window_overrun.py   (exit 1 = defect present)
"""
import logging
import os
import sys
import warnings

sys.path.insert(0, os.environ.get("HS_ROOT", "/repo"))
warnings.simplefilter("ignore")
from happysimulator.core.entity import Entity
from happysimulator.core.event import Event
from happysimulator.core.simulation import Simulation
from happysimulator.core.temporal import Instant
from happysimulator.parallel.link import PartitionLink
from happysimulator.parallel.partition import SimulationPartition
from happysimulator.parallel.simulation import ParallelSimulation


class Rec(Entity):
    def __init__(self, name):
        super().__init__(name)
        self.seen = []

    def handle_event(self, event):
        self.seen.append((round(event.time.to_seconds(), 6), event.event_type))
        return None


class Sender(Entity):
    def __init__(self, name, peer):
        super().__init__(name)
        self.peer = peer

    def handle_event(self, event):
        return [Event(time=self.now + 1.0, event_type="cross", target=self.peer)]


class Catch(logging.Handler):
    def __init__(self):
        super().__init__()
        self.msgs = []

    def emit(self, record):
        if "Time travel" in record.getMessage():
            self.msgs.append(record.getMessage())


def build():
    b = Rec("b")
    a = Sender("a", b)
    return a, b


# sequential reference
a, b = build()
sim = Simulation(end_time=Instant.from_seconds(10), entities=[a, b])
sim.schedule(Event(time=Instant.from_seconds(0.5), event_type="kick", target=a))
sim.schedule(Event(time=Instant.from_seconds(5.0), event_type="local", target=b))
sim.run()
seq = list(b.seen)

a, b = build()
h = Catch()
logging.getLogger("happysimulator.core.simulation").addHandler(h)
ps = ParallelSimulation(
    partitions=[SimulationPartition(name="A", entities=[a]), SimulationPartition(name="B", entities=[b])],
    links=[PartitionLink(source_partition="A", dest_partition="B", min_latency=1.0)],
    end_time=Instant.from_seconds(10),
)
ps.schedule(Event(time=Instant.from_seconds(0.5), event_type="kick", target=a), partition="A")
ps.schedule(Event(time=Instant.from_seconds(5.0), event_type="local", target=b), partition="B")
ps.run()
par = list(b.seen)
print("sequential deliveries to b:", seq)
print("parallel   deliveries to b:", par)
print("time-travel warnings:", len(h.msgs))
sys.exit(0 if sorted(seq) == sorted(par) and not h.msgs else 1)
