"""C15-6: LSMTree.crash() while a memtable flush is suspended makes the flush blow up afterwards
(ValueError out of Simulation.run()), and - where it does not blow up - lets the half-finished flush
of the *pre-crash* memtable complete after recovery.

Property clause (C15): "durably acknowledged writes survive a crash AT ANY POINT ... nothing is
resurrected".  A crash that lands inside the 2 ms (or longer) window of a flush is an ordinary point
in time: with a small memtable under steady write load the tree spends most of its time there.

Code: lsm_tree.py `crash()` does `self._immutable_memtables.clear()`; the suspended
`_flush_memtable` generator knows nothing about the crash and, when resumed, executes
`self._levels[0].append(sstable)` (an SSTable built from the memtable that the crash just declared
lost - including entries whose WAL records were never synced) and then
`self._immutable_memtables.remove(old_memtable)` -> ValueError: list.remove(x): x not in list.

Schedule (WAL = SyncOnBatch(100): nothing is ever synced, so everything is volatile; memtable_size=2):
  t=0.1000  writer: put(a,1), put(b,2) -> memtable full at 0.10022, flush suspended until 0.10222
  t=0.1010  operator: crash() (reports 2 WAL entries lost), recover_from_crash() -> a, b are gone (correct:
            they were never durable)
  t=0.10222 the flush resumes: installs SSTable{a,b} into L0 (a and b come back from the dead), then
            raises ValueError, which propagates out of Simulation.run().

Run: /venv/bin/python /verif/repro/c15_6_crash_during_flush.py   (exit 1 = defect present)
     HS_ROOT=/path/to/worktree /venv/bin/python ...               (to test another checkout)
"""
import os
import sys

sys.path.insert(0, os.environ.get("HS_ROOT", "/repo"))

from happysimulator.components.storage.lsm_tree import LSMTree
from happysimulator.components.storage.wal import SyncOnBatch, WriteAheadLog
from happysimulator.core.entity import Entity
from happysimulator.core.event import Event
from happysimulator.core.simulation import Simulation
from happysimulator.core.temporal import Instant

wal = WriteAheadLog("wal", sync_policy=SyncOnBatch(100))
lsm = LSMTree("db", memtable_size=2, wal=wal)
obs = {}


class Writer(Entity):
    def handle_event(self, event):
        yield from lsm.put("a", 1)
        yield from lsm.put("b", 2)
        obs["writer_finished"] = self.now.to_seconds()


class Operator(Entity):
    def handle_event(self, event):
        if event.event_type == "crash":
            obs["flush_in_flight"] = len(lsm._immutable_memtables)
            obs["crash"] = lsm.crash()
            obs["recover"] = lsm.recover_from_crash()
            obs["after_recovery"] = {k: lsm.get_sync(k) for k in ("a", "b")}
        else:
            obs["later"] = {k: lsm.get_sync(k) for k in ("a", "b")}


w, op = Writer("writer"), Operator("operator")
sim = Simulation(end_time=Instant.from_seconds(1.0), entities=[lsm, wal, w, op])
sim.schedule(Event(time=Instant.from_seconds(0.100), event_type="go", target=w))
sim.schedule(Event(time=Instant.from_seconds(0.101), event_type="crash", target=op))
sim.schedule(Event(time=Instant.from_seconds(0.200), event_type="check", target=op))
error = None
try:
    sim.run()
except Exception as exc:  # noqa: BLE001 - we want to report whatever the engine lets through
    error = exc

print(f"crash at t=0.101 with {obs.get('flush_in_flight')} flush in flight: {obs.get('crash')}")
print(f"recover_from_crash(): {obs.get('recover')}")
print(f"state right after recovery: {obs.get('after_recovery')}   (a, b were never synced: None is right)")
print(f"Simulation.run() raised: {error!r}")
now = {k: lsm.get_sync(k) for k in ("a", "b")}
print(f"state at t=0.2 / after the run: {obs.get('later', now)}")
later = obs.get("later", now)
reappeared = [k for k in later if obs["after_recovery"][k] is None and later[k] is not None]
bad = error is not None or bool(reappeared)
if error is not None:
    print("VIOLATION: a crash during a flush aborts the whole simulation")
if reappeared:
    print(f"VIOLATION: {reappeared} were lost by the crash (absent after recovery) and re-appeared "
          "without being written again")
print("DEFECT PRESENT" if bad else "defect absent")
sys.exit(1 if bad else 0)
