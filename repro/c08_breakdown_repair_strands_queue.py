"""C08_4: BreakdownScheduler clears `target._broken` on repair but nobody tells the
target's queue driver that capacity is back. Items queued during the outage (and
every later arrival, because the queue only notifies on empty -> non-empty) are
stranded although the machine is up and idle."""
import os
import random
import sys

sys.path.insert(0, os.environ.get("HS_ROOT", "/repo"))

from happysimulator.components.industrial.breakdown import BreakdownScheduler  # noqa: E402
from happysimulator.components.queue_policy import FIFOQueue  # noqa: E402
from happysimulator.components.queued_resource import QueuedResource  # noqa: E402
from happysimulator.core.entity import Entity  # noqa: E402
from happysimulator.core.event import Event  # noqa: E402
from happysimulator.core.simulation import Simulation  # noqa: E402
from happysimulator.core.temporal import Instant  # noqa: E402


class Sink(Entity):
    def __init__(self):
        super().__init__("sink")
        self.got = []

    def handle_event(self, event):
        self.got.append((self.now.to_seconds(), event.event_type))


class Probe(Entity):
    """Samples the machine: is it up and idle while parts are waiting?"""

    def __init__(self, machine):
        super().__init__("probe")
        self.machine = machine
        self.samples = 0
        self.idle_with_backlog = 0

    def handle_event(self, event):
        m = self.machine
        self.samples += 1
        if not m._broken and m.active == 0 and m.depth > 0:
            self.idle_with_backlog += 1


class Machine(QueuedResource):
    """The pattern breakdown.py documents: has_capacity() respects `_broken`."""

    def __init__(self, name, downstream):
        super().__init__(name, policy=FIFOQueue())
        self.downstream = downstream
        self._broken = False
        self.active = 0
        self.started = []

    def has_capacity(self) -> bool:
        return not self._broken and self.active < 1

    def handle_queued_event(self, event):
        self.active += 1
        self.started.append((self.now.to_seconds(), event.event_type, self._broken))
        yield 0.5
        self.active -= 1
        return [self.forward(event, self.downstream)]


def main() -> int:
    random.seed(12345)
    sink = Sink()
    machine = Machine("machine", sink)
    probe = Probe(machine)
    breaker = BreakdownScheduler(
        "breaker", target=machine, mean_time_to_failure=50.0, mean_repair_time=5.0
    )
    sim = Simulation(
        start_time=Instant.Epoch,
        end_time=Instant.from_seconds(2000.0),
        entities=[machine, breaker, sink, probe],
    )
    for k in range(500, 1991, 10):  # long after the last arrival (t=399)
        sim.schedule(Event(time=Instant.from_seconds(float(k)), event_type="probe", target=probe))
    sim.schedule(breaker.start_event())
    n = 400
    for i in range(n):  # one part per second for 400 s, 0.5 s of work each
        sim.schedule(Event(time=Instant.from_seconds(float(i)), event_type=f"p{i}", target=machine))
    sim.run()

    st = breaker.stats
    print(f"breakdowns={st.breakdown_count} availability={st.availability:.3f}")
    print(f"probes in [500,1990]: {probe.samples}, of which machine up + idle + parts waiting: "
          f"{probe.idle_with_backlog}")
    print(f"offered={n} accepted={machine.stats_accepted} dropped={machine.stats_dropped} "
          f"completed={len(sink.got)} still queued={machine.depth}")
    if sink.got:
        print(f"last completion at t={sink.got[-1][0]:.3f} ({sink.got[-1][1]})")
    print("property requires: load 0.5, machine up ~90% of the time and 1600 s of slack "
          "after the last arrival -> all 400 parts completed, nothing left waiting "
          "while the machine is up and idle")
    if len(sink.got) != n or probe.idle_with_backlog > 0:
        print("VIOLATION: parts wait in the queue while the repaired machine is idle")
        return 1
    print("OK")
    return 0


if __name__ == "__main__":
    sys.exit(main())
