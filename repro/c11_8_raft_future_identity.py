"""C11-8: "A client's submit future resolves only with the index at which exactly its command was committed"
fails: RaftNode keeps submit futures in `_pending_futures[log_index]` and never purges them when the entry at
that index is truncated and replaced. A deposed leader that later commits (as a follower) the new leader's
entry at the same index resolves the *old* client's future with the *other* command's result.

Code: raft.py `submit` (`self._pending_futures[entry.index] = future`), `_handle_append_entries`
(`self._log.truncate_from(idx)` without touching `_pending_futures`), `_apply_committed`
(`self._pending_futures.pop(entry.index)` -> `future.resolve((entry.index, result))`).

Schedule (3 nodes F, L, G; election timeouts fixed to 1.0 / 1.5 / 5.0 s, heartbeat 0.2 s; real Network, 10 ms
links; partitions via Network.partition):
  1.00  F elected leader of term 1.   1.05 partition {F} | {L,G}.
  1.06  client A submits command "Y" to F -> F log [Y@1 term 1], future fA stored under index 1; never replicated.
  2.53  L times out, elected leader of term 2 by G.   2.60 client B submits "X" to L (L log [X@1 term 2]).
  2.65  partition healed. L's heartbeats replicate X: F's entry 1 (term 1) conflicts, is truncated and replaced
        by X; L commits index 1 once G/F answered; the next heartbeat carries leader_commit=1.
  ~2.95 F applies X at index 1 and resolves fA with (1, result-of-X).  "Y" was never committed anywhere.

Run: /venv/bin/python /verif/repro/c11_8_raft_future_identity.py      (exit 1 = defect present, 0 = absent)
     HS_ROOT=/path/to/worktree to run against another checkout.
"""
import os
import random
import sys

sys.path.insert(0, os.environ.get("HS_ROOT", "/repo"))

from happysimulator.components.consensus.raft import RaftNode  # noqa: E402
from happysimulator.components.network.link import NetworkLink  # noqa: E402
from happysimulator.components.network.network import Network  # noqa: E402
from happysimulator.core.event import Event  # noqa: E402
from happysimulator.core.simulation import Simulation  # noqa: E402
from happysimulator.core.temporal import Instant  # noqa: E402
from happysimulator.distributions.constant import ConstantLatency  # noqa: E402

random.seed(0)


class RecordingSM:
    def __init__(self):
        self.applied = []

    def apply(self, command):
        self.applied.append(command)
        return f"result-of-{command}"

    def snapshot(self):
        return list(self.applied)

    def restore(self, snapshot):
        self.applied = list(snapshot)


net = Network(name="net")


def node(name, timeout):
    return RaftNode(name, net, state_machine=RecordingSM(), election_timeout_min=timeout,
                    election_timeout_max=timeout, heartbeat_interval=0.2)


F, L, G = node("F", 1.0), node("L", 1.5), node("G", 5.0)
nodes = [F, L, G]
for n in nodes:
    n.set_peers(nodes)
for a in nodes:
    for b in nodes:
        if a is not b:
            net.add_link(a, b, NetworkLink(name=f"{a.name}->{b.name}", latency=ConstantLatency(0.01)))

sim = Simulation(end_time=Instant.from_seconds(4.0), entities=[net, *nodes])
for n in nodes:
    for e in n.start():
        sim.schedule(e)

futures = {}
parts = {}


def at(t, fn):
    sim.schedule(Event.once(time=Instant.from_seconds(t), event_type=f"script@{t}", fn=lambda e: fn()))


def submit(n, cmd):
    assert n.is_leader, f"{n.name} is not leader at {n.now}"
    futures[cmd] = n.submit(cmd)


at(1.05, lambda: parts.__setitem__("p1", net.partition([F], [L, G])))
at(1.06, lambda: submit(F, "Y"))
at(2.60, lambda: submit(L, "X"))
at(2.65, lambda: parts["p1"].heal())
sim.run()

for n in nodes:
    print(n.name, n.state.name, "term", n.current_term, "log", [(e.index, e.term, e.command) for e in n.log.entries_after(0)],
          "commit", n.log.commit_index, "applied", n._state_machine.applied)
print("futures:", {c: (f.value if f.is_resolved else "<pending>") for c, f in futures.items()})

committed_y = any("Y" in n._state_machine.applied for n in nodes)
fy = futures["Y"]
bad = fy.is_resolved and (not committed_y or fy.value[1] != "result-of-Y")
if bad:
    print(f"DEFECT: future of command 'Y' resolved with {fy.value!r} although 'Y' was never committed "
          f"(index 1 holds 'X' everywhere)")
sys.exit(1 if bad else 0)
