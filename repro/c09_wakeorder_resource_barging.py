"""C09 (wake order): Resource.acquire() lets a later request barge past an earlier queued waiter.

Property clause examined
  C09: "... wake in order ... Blocked acquirers are granted in arrival order as soon as capacity
  allows ... every waiter whose predecessor releases is eventually served"
  and the class's own contract (Resource docstring): "Waiter satisfaction is strict FIFO ... If
  [the head-of-line waiter] needs more capacity than is available, no subsequent waiters are served
  (prevents starvation of large requests)."

Mechanism (happysimulator/components/resource.py, Resource.acquire)
  `if self._available >= amount:` grants immediately without looking at `self._waiters`.  Strict FIFO
  is enforced only inside `_wake_waiters()` (on release).  A small request that arrives while a large
  request is queued therefore takes the left-over capacity ahead of it, and a steady trickle of small
  requests can postpone the large one indefinitely.

Schedule (real engine, capacity 4)
  t=0   A acquires 3, holds until t=10
  t=1   B requests 4            -> must queue (only 1 free)
  t=2   C requests 1, holds 18s -> arrives AFTER B
  arrival-order service : B granted at t=10 (A's release frees all 4), C after B releases (t=11)
  observed              : C granted at t=2 ahead of B; B granted only at t=20 when C lets go,
                          although A's release at t=10 would have satisfied it.

Also prints (informational, hand-driven generators, does not affect the exit code) the same barging
shape in sync.Semaphore.acquire(), which calls try_acquire() without checking the wait queue.

Run: /venv/bin/python /verif/repro/c09_wakeorder_resource_barging.py
     HS_ROOT=/path/to/checkout overrides the library root (default /repo)
Exit 1 = later arrival overtakes the queued waiter (barging present), 0 = arrival order respected.
"""
import contextlib
import os
import sys

sys.path.insert(0, os.environ.get("HS_ROOT", "/repo"))

from happysimulator.components.resource import Resource  # noqa: E402
from happysimulator.components.sync import Semaphore  # noqa: E402
from happysimulator.core.entity import Entity  # noqa: E402
from happysimulator.core.event import Event  # noqa: E402
from happysimulator.core.simulation import Simulation  # noqa: E402
from happysimulator.core.temporal import Instant  # noqa: E402

res = Resource("res", capacity=4)
granted = {}


class Worker(Entity):
    def __init__(self, name, amount, hold):
        super().__init__(name)
        self.amount, self.hold = amount, hold

    def handle_event(self, event):
        grant = yield res.acquire(self.amount)
        granted[self.name] = self.now.to_seconds()
        yield self.hold
        grant.release()


a = Worker("A", 3, 10.0)
b = Worker("B", 4, 1.0)
c = Worker("C", 1, 18.0)
sim = Simulation(end_time=Instant.from_seconds(60), entities=[res, a, b, c])
sim.schedule(Event(time=Instant.from_seconds(0), event_type="go", target=a))
sim.schedule(Event(time=Instant.from_seconds(1), event_type="go", target=b))
sim.schedule(Event(time=Instant.from_seconds(2), event_type="go", target=c))
sim.run()

print("Resource(capacity=4): arrivals A(3)@0, B(4)@1, C(1)@2")
print(f"  grant times: {granted}")
order = sorted(granted, key=granted.get)
print(f"  grant order: {order}   (arrival order: ['A', 'B', 'C'])")
barging = granted.get("C", 1e9) < granted.get("B", 1e9)
if barging:
    print(
        f"  BARGING: C (arrived t=2) was granted at t={granted['C']} ahead of B (arrived t=1); "
        f"B waited until t={granted.get('B')} although capacity for it was free at t=10"
    )
else:
    print("  ok: C queued behind B; B served at A's release")

# Informational: same shape in Semaphore (hand-driven; the engine-driven wait loop is C07-3)
sem = Semaphore("sem", initial_count=2)
assert sem.try_acquire(1)  # holder: 1 of 2 permits in use
big = sem.acquire(2)  # arrives first, needs both permits -> queues
next(big)
small = sem.acquire(1)  # arrives second
with contextlib.suppress(StopIteration):
    next(small)
    next(small)
print(
    f"Semaphore(2) [informational]: big(2) queued={sem.waiters == 1}, later small(1) "
    f"{'BARGED past it (available=%d)' % sem.available if sem.available == 0 else 'queued behind it'}"
)

sys.exit(1 if barging else 0)
