import os
import sys

sys.path.insert(0, os.environ.get("HS_ROOT", "/repo"))

"""C15_3: crash in the middle of a memtable flush.  LSMTree._flush_memtable() appends the new
SSTable to L0 *before* it suspends for the SSTable write latency.  crash() does not remove it, and
the resumed flush (which notices the crash and says "the half-written SSTable is gone with the
memtable") does not remove it either.  The half-written file therefore survives the power loss
with everything the lost memtable contained - including writes that were never fsynced to the
WAL.  A never-synced delete (or overwrite) in it permanently masks a durably acknowledged value.

Scenario: SyncOnBatch(3), memtable_size=2 (2 distinct keys), defaults otherwise
(append 0.1 ms, fsync 1 ms, SSTable page write 2 ms).

  t=0 ms    put(k,"v0")  seq 1
  t=1 ms    put(k,"v1")  seq 2
  t=2 ms    put(x,"x")   seq 3  -> batch full: fsync, synced_up_to = 3; memtable full: flush #1
                                   finishes at ~5.1 ms, WAL truncated.  k="v1" is now durable
                                   twice over (fsynced AND in a completely written SSTable).
  t=10 ms   delete(k)    seq 4  -> NOT synced (1 of 3)
  t=11 ms   put(y,"y")   seq 5  -> NOT synced (2 of 3); memtable full: flush #2 starts at 11.11 ms
  t=12 ms   POWER LOSS + recovery (flush #2 would need until 13.11 ms)
  t=20 ms   get(k)
"""

import logging

from happysimulator.components.storage.lsm_tree import LSMTree
from happysimulator.components.storage.wal import SyncOnBatch, WriteAheadLog
from happysimulator.core.entity import Entity
from happysimulator.core.event import Event
from happysimulator.core.simulation import Simulation
from happysimulator.core.temporal import Instant

logging.disable(logging.CRITICAL)

obs = {}


class Client(Entity):
    def __init__(self, name, lsm):
        super().__init__(name)
        self.lsm = lsm

    def handle_event(self, event):
        kind = event.event_type
        if kind == "put":
            yield from self.lsm.put(*event.context["kv"])
        elif kind == "delete":
            yield from self.lsm.delete(event.context["key"])
        elif kind == "read":
            value = yield from self.lsm.get("k")
            obs[event.context["tag"]] = value


class Power(Entity):
    def __init__(self, name, lsm):
        super().__init__(name)
        self.lsm = lsm

    def handle_event(self, event):
        lsm = self.lsm
        obs["synced_up_to_at_crash"] = lsm._wal.synced_up_to
        obs["flushes_completed_at_crash"] = lsm.stats.memtable_flushes
        obs["sstables_at_crash"] = lsm.stats.total_sstables
        obs["crash_summary"] = lsm.crash()
        obs["recovery_1"] = lsm.recover_from_crash()
        obs["k_after_recovery_1"] = lsm.get_sync("k")
        lsm.recover_from_crash()
        obs["k_after_recovery_2"] = lsm.get_sync("k")
        obs["sstables_after_crash"] = lsm.stats.total_sstables


wal = WriteAheadLog("wal", sync_policy=SyncOnBatch(batch_size=3))
lsm = LSMTree("lsm", memtable_size=2, wal=wal)
client = Client("client", lsm)
power = Power("power", lsm)
sim = Simulation(
    start_time=Instant.Epoch,
    end_time=Instant.from_seconds(1.0),
    entities=[lsm, wal, client, power],
)


def at(t, kind, target, **ctx):
    sim.schedule(Event(time=Instant.from_seconds(t), event_type=kind, target=target, context=ctx))


at(0.000, "put", client, kv=("k", "v0"))
at(0.001, "put", client, kv=("k", "v1"))
at(0.002, "put", client, kv=("x", "x"))
at(0.009, "read", client, tag="k_before_delete")
at(0.010, "delete", client, key="k")
at(0.011, "put", client, kv=("y", "y"))
at(0.012, "crash", power)
at(0.020, "read", client, tag="k_final")
sim.run()

print("get('k') at 9 ms (after flush #1)        :", obs["k_before_delete"])
print("synced_up_to at crash                    :", obs["synced_up_to_at_crash"], "(delete is seq 4: never synced)")
print("flushes completed / SSTables in L0 at crash:", obs["flushes_completed_at_crash"], "/", obs["sstables_at_crash"])
print("crash() summary                          :", obs["crash_summary"])
print("SSTables after crash                     :", obs["sstables_after_crash"])
print("get('k') right after recovery            :", obs["k_after_recovery_1"])
print("get('k') after recovering a second time  :", obs["k_after_recovery_2"])
print("get('k') at 20 ms                        :", obs["k_final"])
print()
print("Required: put(k,'v1') was fsynced (seq 2 <= 3) and flushed before the crash; the delete")
print("was neither fsynced nor in a completely written SSTable, so after recovery k == 'v1'.")

if obs["k_after_recovery_1"] != "v1" or obs["k_final"] != "v1":
    print(
        "VIOLATION: durably acknowledged 'v1' is unreadable - the half-written SSTable of the "
        "interrupted flush survived the power loss with the unsynced delete in it."
    )
    sys.exit(1)
print("OK: k == 'v1' after recovery.")
sys.exit(0)
