"""C12-6: "a leader-election component never reports two different leaders for the same term" fails.

Code: leader_election.py `_handle_leader_heartbeat`: `if term >= self._current_term: self._current_leader = leader`
adopts whatever leader a heartbeat names when the heartbeat's term *equals* the term for which this node
already reports another leader. (Terms are per-node counters, so two self-declared leaders easily carry the
same term number.)

Scenario (Bully strategy, real Network with 10 ms links, Simulation.run; members joined with add_member):
  0     cluster {a, b}: a (election_timeout 10 s) and b (1 s) start.
  2.0   b sees no leader, is the highest id it knows -> declares victory (term 1); a learns (leader b, term 1)
        and from then on receives b's heartbeats {leader b, term 1} every 0.5 s.
  3.2   c joins (add_member on a, b, c) and starts; b and c cannot talk to each other (partition), and the
        link c -> a loses c's ElectionVictory announcement (short asymmetric partition around t=5.2).
  5.2   c hears no leader, is the highest id -> declares itself leader, its own term counter is 1.
  5.7   c's heartbeat {leader c, term 1} reaches a: 1 >= 1 -> a now reports (leader c, term 1), having
        reported (leader b, term 1) before; with b's next heartbeat it flips back, and so on.

Observation: a's public (current_term, current_leader) sampled every 50 ms.

Run: /venv/bin/python /verif/repro/c12_6_leader_election_same_term.py   (exit 1 = defect present, 0 = absent)
     HS_ROOT=/path/to/worktree to run against another checkout.
"""
import os
import random
import sys

sys.path.insert(0, os.environ.get("HS_ROOT", "/repo"))

from happysimulator.components.consensus.election_strategies import BullyStrategy  # noqa: E402
from happysimulator.components.consensus.leader_election import LeaderElection  # noqa: E402
from happysimulator.components.network.link import NetworkLink  # noqa: E402
from happysimulator.components.network.network import Network  # noqa: E402
from happysimulator.core.event import Event  # noqa: E402
from happysimulator.core.simulation import Simulation  # noqa: E402
from happysimulator.core.temporal import Instant  # noqa: E402
from happysimulator.distributions.constant import ConstantLatency  # noqa: E402

random.seed(0)
net = Network(name="net")
a = LeaderElection("a", net, strategy=BullyStrategy(), election_timeout=10.0, heartbeat_interval=0.5)
b = LeaderElection("b", net, strategy=BullyStrategy(), election_timeout=1.0, heartbeat_interval=0.5)
c = LeaderElection("c", net, strategy=BullyStrategy(), election_timeout=1.0, heartbeat_interval=0.5)
nodes = [a, b, c]
for x in nodes:
    for y in nodes:
        if x is not y:
            net.add_link(x, y, NetworkLink(name=f"{x.name}->{y.name}", latency=ConstantLatency(0.01)))
a.add_member(b)
b.add_member(a)

sim = Simulation(end_time=Instant.from_seconds(8.0), entities=[net, *nodes])
for n in (a, b):
    for e in n.start():
        sim.schedule(e)

reports: dict[str, list] = {n.name: [] for n in nodes}  # per node: sequence of distinct (term, leader)
parts = {}


def at(t, fn):
    sim.schedule(Event.once(time=Instant.from_seconds(t), event_type=f"script@{t}", fn=lambda e: fn()))


def join_c():
    net.partition([b], [c])
    a.add_member(c)
    b.add_member(c)
    c.add_member(a)
    c.add_member(b)
    return c.start()


def sample():
    for n in nodes:
        r = (n.current_term, n.current_leader)
        if r[1] is not None and (not reports[n.name] or reports[n.name][-1] != r):
            reports[n.name].append(r)


at(3.2, join_c)
at(5.19, lambda: parts.__setitem__("loss", net.partition([c], [a], asymmetric=True)))
at(5.21, lambda: parts["loss"].heal())
for k in range(0, 160):
    at(k * 0.05 + 0.025, sample)
sim.run()

bad = False
for name, seq in reports.items():
    print(f"{name} reported (term, leader):", seq)
    by_term: dict[int, set] = {}
    for term, leader in seq:
        by_term.setdefault(term, set()).add(leader)
    clash = {t: sorted(v) for t, v in by_term.items() if len(v) > 1}
    if clash:
        print(f"DEFECT: node {name} reported different leaders for the same term: {clash}")
        bad = True
self_declared = sorted((n.current_term, n.name) for n in nodes if n.is_leader)
print("info (not counted): nodes that consider themselves leader, with their own term counter:", self_declared)
sys.exit(1 if bad else 0)
