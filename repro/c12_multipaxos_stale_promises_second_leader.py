"""Repro: late Promises for an overtaken candidacy make a Multi-Paxos / Flexible Paxos node lead under ANOTHER node's ballot.

_handle_promise tallies a Promise under the ballot number it names and calls _become_leader() when that tally reaches the quorum — without
checking that this candidacy is still the node's current ballot.  If the node has meanwhile adopted a higher ballot from a competitor,
it becomes a second leader *with the competitor's ballot*: both assign slot 1 under the same ballot, acceptors acknowledge both, and the
two leaders commit different commands for the same slot.

Schedule (5 nodes, constant latencies, no loss): A starts a candidacy (ballot (1,A)) at t=1.0; its Prepare needs 0.4 s to reach C, D, E.
B (10 ms from everyone) starts at t=1.5 with ballot (2,B), wins, and its Prepare/heartbeat reach A at t≈1.51.  The promises C, D, E gave
A at t=1.4 arrive at A at t=1.8 — A "becomes leader".  A client submits "x" to B at t=1.6 (B leads) and "y" to A at t=2.0.

Exit 1 if two nodes applied different commands for the same slot, or two nodes claim leadership under the same ballot.
"""
from __future__ import annotations

import os
import sys

sys.path.insert(0, os.environ.get("HS_ROOT", "/repo"))

from happysimulator.components.consensus.flexible_paxos import FlexiblePaxosNode  # noqa: E402
from happysimulator.components.consensus.multi_paxos import MultiPaxosNode  # noqa: E402
from happysimulator.components.network.link import NetworkLink  # noqa: E402
from happysimulator.components.network.network import Network  # noqa: E402
from happysimulator.core.event import Event  # noqa: E402
from happysimulator.core.simulation import Simulation  # noqa: E402
from happysimulator.core.temporal import Instant  # noqa: E402
from happysimulator.distributions.constant import ConstantLatency  # noqa: E402


class SM:
    def __init__(self):
        self.applied = []

    def apply(self, command):
        self.applied.append(command)
        return command


def run(cls) -> bool:
    net = Network(name="net")
    names = ["A", "B", "C", "D", "E"]
    sms = {n: SM() for n in names}
    extra = {"phase1_quorum": 3, "phase2_quorum": 3} if cls is FlexiblePaxosNode else {}
    nodes = {n: cls(name=n, network=net, state_machine=sms[n], heartbeat_interval=1.0, **extra) for n in names}
    for n in nodes.values():
        n.set_peers(list(nodes.values()))
    for i, a in enumerate(names):
        for b in names[i + 1:]:
            lat = 0.4 if (a == "A" and b in ("C", "D", "E")) else 0.01
            net.add_bidirectional_link(nodes[a], nodes[b], NetworkLink(name=f"{a}-{b}", latency=ConstantLatency(lat), bandwidth_bps=None, packet_loss_rate=0.0, jitter=None))
    sim = Simulation(start_time=Instant.Epoch, duration=20.0, entities=[net, *nodes.values()])
    sim.schedule(Event.once(time=Instant.from_seconds(1.0), event_type="StartA", fn=lambda e: nodes["A"].start()))
    sim.schedule(Event.once(time=Instant.from_seconds(1.5), event_type="StartB", fn=lambda e: nodes["B"].start()))
    futs = {}

    def submit(who, cmd):
        def go(_e):
            futs[who] = nodes[who].submit(cmd)
            return None
        return go
    sim.schedule(Event.once(time=Instant.from_seconds(1.6), event_type="SubmitB", fn=submit("B", "x")))
    sim.schedule(Event.once(time=Instant.from_seconds(2.0), event_type="SubmitA", fn=submit("A", "y")))
    sim.run()
    print(f"--- {cls.__name__} ---")
    leaders = [(n, str(nd._current_ballot)) for n, nd in nodes.items() if nd.is_leader]
    print("  nodes claiming leadership:", leaders)
    bad = len(leaders) > 1 and len({b for _, b in leaders}) == 1
    longest = max((sm.applied for sm in sms.values()), key=len)
    for n in names:
        a = sms[n].applied
        div = a != longest[: len(a)]
        bad |= div
        print(f"  {n}: log={[nodes[n].log.get(i).command for i in range(1, nodes[n].log.last_index + 1)]} commit={nodes[n].log.commit_index} applied={a} {'<-- DIVERGED' if div else ''}")
    return not bad


def main() -> int:
    ok = True
    for cls in (MultiPaxosNode, FlexiblePaxosNode):
        ok &= run(cls)
    print("RESULT:", "ok" if ok else "DEFECT: two leaders under one ballot / different commands applied for one slot")
    return 0 if ok else 1


if __name__ == "__main__":
    sys.exit(main())
