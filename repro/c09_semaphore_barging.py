import os
import sys

sys.path.insert(0, os.environ.get("HS_ROOT", "/repo"))

# C09 defect 3: Semaphore.acquire() lets late arrivals overtake queued waiters.
# A request that fits into the currently free permits is granted immediately even
# though an earlier request is still waiting in the FIFO queue, so a multi-permit
# waiter is overtaken (and can be starved for as long as small requests keep coming).

from happysimulator.components.sync.semaphore import Semaphore
from happysimulator.core.entity import Entity
from happysimulator.core.event import Event
from happysimulator.core.simulation import Simulation
from happysimulator.core.temporal import Instant

log = []


class Worker(Entity):
    def __init__(self, name, sem, count, hold):
        super().__init__(name)
        self.sem, self.count, self.hold = sem, count, hold
        self.requested_at = None
        self.granted_at = None

    def handle_event(self, event):
        self.requested_at = self.now.to_seconds()
        log.append((self.requested_at, self.name, "request", self.count))
        yield from self.sem.acquire(self.count)
        self.granted_at = self.now.to_seconds()
        log.append((self.granted_at, self.name, "granted", self.count))
        assert self.sem.available >= 0
        yield self.hold
        self.sem.release(self.count)
        log.append((self.now.to_seconds(), self.name, "released", self.count))


sem = Semaphore("sem", 3)
A = Worker("A", sem, 2, 10.0)  # t=0 : takes 2 of 3 permits until t=10
B = Worker("B", sem, 2, 1.0)  # t=1 : needs 2, only 1 free -> queued (head of line)
smalls = [Worker(f"C{i}", sem, 1, 3.0) for i in range(4)]  # t=2,4,6,8: need 1 each
workers = [A, B, *smalls]

sim = Simulation(
    start_time=Instant.Epoch, end_time=Instant.from_seconds(100), entities=[sem, *workers]
)
sim.schedule(Event(time=Instant.from_seconds(0), event_type="go", target=A))
sim.schedule(Event(time=Instant.from_seconds(1), event_type="go", target=B))
for i, w in enumerate(smalls):
    sim.schedule(Event(time=Instant.from_seconds(2 + 2 * i), event_type="go", target=w))
sim.run()

for entry in log:
    print("   ", entry)

# Property: blocked acquirers are granted in arrival order. Nobody who arrived after a
# request that is still waiting in the queue may be granted before that request.
overtakes = []
for early in workers:
    for late in workers:
        if (
            early.requested_at < late.requested_at
            and early.granted_at > early.requested_at  # `early` had to queue
            and late.granted_at < early.granted_at
        ):
            overtakes.append(
                f"{late.name}(req t={late.requested_at}, got t={late.granted_at}) overtook "
                f"{early.name}(req t={early.requested_at}, got t={early.granted_at})"
            )
print(f"observed : B asked for 2 permits at t={B.requested_at} and was granted at t={B.granted_at}")
for line in overtakes:
    print("           " + line)
print(
    "required : FIFO - a request arriving while earlier requests are queued waits behind them "
    "(Resource.acquire() in the same library enforces exactly this); note C2 even overtakes C1, "
    "a request of the same size that was refused the free permit because of head-of-line blocking"
)
if overtakes:
    print("RESULT: defect observed (queued waiters overtaken)")
    sys.exit(1)
print("RESULT: ok")
sys.exit(0)
