"""C08_1: ShiftedServer keeps the capacity of t=0 when its first item arrives
after the first shift boundary, so queued items are stranded although the
schedule says workers are on duty."""
import os
import sys

sys.path.insert(0, os.environ.get("HS_ROOT", "/repo"))

from happysimulator.components.industrial.shift_schedule import (  # noqa: E402
    Shift,
    ShiftedServer,
    ShiftSchedule,
)
from happysimulator.core.entity import Entity  # noqa: E402
from happysimulator.core.event import Event  # noqa: E402
from happysimulator.core.simulation import Simulation  # noqa: E402
from happysimulator.core.temporal import Instant  # noqa: E402


class Sink(Entity):
    def __init__(self):
        super().__init__("sink")
        self.got = []

    def handle_event(self, event):
        self.got.append((self.now.to_seconds(), event.event_type))


def main() -> int:
    sink = Sink()
    # The shop is closed (capacity 0) until t=10, staffed by 2 workers during
    # [10, 20), closed again afterwards.
    schedule = ShiftSchedule([Shift(10.0, 20.0, 2)], default_capacity=0)
    server = ShiftedServer("shop", schedule, service_time=1.0, downstream=sink)
    sim = Simulation(
        start_time=Instant.Epoch,
        end_time=Instant.from_seconds(100.0),
        entities=[server, sink],
    )
    # Customers only show up once the shop is open.
    sim.schedule(Event(time=Instant.from_seconds(12.0), event_type="J1", target=server))
    sim.schedule(Event(time=Instant.from_seconds(13.0), event_type="J2", target=server))
    sim.run()

    print(f"schedule.capacity_at(12.0) = {schedule.capacity_at(12.0)} (workers on duty)")
    print(f"completed downstream      = {sink.got}")
    print(f"processed={server.processed} still queued={server.depth}")
    print("property requires: J1 served during [12,13], J2 during [13,14] "
          "(2 free workers, nothing may wait)")

    expected = [(13.0, "J1"), (14.0, "J2")]
    if sink.got != expected or server.depth != 0:
        print("VIOLATION: items wait (forever) while the schedule provides free capacity")
        return 1
    print("OK")
    return 0


if __name__ == "__main__":
    sys.exit(main())
