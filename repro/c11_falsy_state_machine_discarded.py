"""C11_2: RaftNode silently discards a user-supplied state machine that is falsy
(e.g. a container-like state machine that defines __len__ and starts empty), and
applies the committed log to a private KVStateMachine instead."""
import os
import sys

sys.path.insert(0, os.environ.get("HS_ROOT", "/repo"))

import logging
import random

from happysimulator.components.consensus.raft import RaftNode
from happysimulator.components.consensus.raft_state_machine import StateMachine
from happysimulator.components.network.link import NetworkLink
from happysimulator.components.network.network import Network
from happysimulator.core.event import Event
from happysimulator.core.simulation import Simulation
from happysimulator.core.temporal import Instant
from happysimulator.distributions.constant import ConstantLatency

logging.disable(logging.CRITICAL)
random.seed(3)


class JournalStateMachine:
    """A perfectly valid StateMachine (apply/snapshot/restore) that also is a
    sized container of the commands applied so far -- so it is falsy while empty."""

    def __init__(self):
        self.journal = []

    def __len__(self):
        return len(self.journal)

    def apply(self, command):
        self.journal.append(command)
        return len(self.journal)

    def snapshot(self):
        return list(self.journal)

    def restore(self, snapshot):
        self.journal = list(snapshot)


assert isinstance(JournalStateMachine(), StateMachine)

net = Network(name="net")
machines = [JournalStateMachine() for _ in range(3)]
nodes = [RaftNode(name=f"n{i}", network=net, state_machine=machines[i]) for i in range(3)]
for nd in nodes:
    nd.set_peers(nodes)
for a in nodes:
    for b in nodes:
        if a is not b:
            net.add_link(a, b, NetworkLink(name=f"{a.name}->{b.name}", latency=ConstantLatency(0.01)))

sim = Simulation(end_time=Instant.from_seconds(30.0), entities=[net, *nodes])
for nd in nodes:
    for ev in nd.start():
        sim.schedule(ev)

# KV-shaped commands, so that the substituted KVStateMachine does not even raise.
commands = [{"op": "set", "key": "k", "value": v} for v in (10, 20, 30)]
futures = []


def submit(e):
    leader = next(n for n in nodes if n.is_leader)
    futures.extend(leader.submit(c) for c in commands)


sim.schedule(Event.once(time=Instant.from_seconds(10.0), event_type="ctl", fn=submit))
sim.run()

print("fault-free network, 10 ms links, 3 commands submitted to the established leader at t=10")
bad = False
for nd, sm in zip(nodes, machines):
    same = nd._state_machine is sm
    print(f"{nd.name}: commit_index={nd.log.commit_index} last_applied={nd._last_applied} "
          f"supplied state machine is the one in use: {same}; "
          f"commands the supplied machine received: {sm.journal}; "
          f"node actually applies to: {type(nd._state_machine).__name__}")
    if nd.log.commit_index == 3 and sm.journal != commands:
        bad = True
print("futures:", [f.value if f.is_resolved else None for f in futures])
print()
print("required: every committed command is applied, in order, by every node -- i.e. to the")
print("          state machine the node was constructed with (result = journal length 1,2,3).")
print("observed:", "committed entries never reach the supplied state machines; results come "
      "from a KVStateMachine nobody passed in" if bad else "supplied state machines received all commands")
print("VIOLATION" if bad else "ok")
sys.exit(1 if bad else 0)
