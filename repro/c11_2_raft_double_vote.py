"""C11-2: Raft "at most one node is leader in any term" fails: a follower forgets its vote when an
AppendEntries for its *current* term arrives, and then votes again in the same term.

Code: raft.py `_handle_append_entries` does `if term >= self._current_term: self._step_down(term)` and
`_step_down` unconditionally sets `_voted_for = None`.

Schedule (3 nodes n1,n2,n3, real Network + NetworkLinks, only per-link delays chosen; no loss, no partition):
  t=1.000  n1 election timeout -> candidate term 1, RequestVote to n2 (slow link, 0.5 s) and n3 (10 ms)
  t=1.001  n2 election timeout -> candidate term 1, RequestVote to n1 (10 ms) and n3 (slow link, 50 ms)
  t=1.010  n3 grants n1 (term 1)                          -> vote #1 of n3 in term 1
  t=1.020  n1 has {n1,n3} -> LEADER term 1, sends AppendEntries(term 1)
  t=1.030  n3 receives AppendEntries(term 1) from n1 -> _step_down(1) clears _voted_for
  t=1.051  n3 receives n2's RequestVote(term 1): voted_for is None -> grants n2   -> vote #2 of n3 in term 1
  t=1.061  n2 has {n2,n3} -> LEADER term 1 while n1 is still LEADER of term 1.

Observation is done on the wire (a Network subclass that only records what the nodes send) and through the
public properties of the nodes.

Run: /venv/bin/python /verif/repro/c11_2_raft_double_vote.py      (exit 1 = defect present, 0 = absent)
     HS_ROOT=/path/to/worktree /venv/bin/python ... to run against another checkout.
"""
import os
import random
import sys

sys.path.insert(0, os.environ.get("HS_ROOT", "/repo"))

from happysimulator.components.consensus.raft import RaftNode  # noqa: E402
from happysimulator.components.network.link import NetworkLink  # noqa: E402
from happysimulator.components.network.network import Network  # noqa: E402
from happysimulator.core.event import Event  # noqa: E402
from happysimulator.core.simulation import Simulation  # noqa: E402
from happysimulator.core.temporal import Instant  # noqa: E402
from happysimulator.distributions.constant import ConstantLatency  # noqa: E402

random.seed(0)


class RecordingNetwork(Network):
    """Real Network; additionally remembers every message the nodes hand to it."""

    def send(self, source, destination, event_type, payload=None, daemon=False):
        sent.append((self.now.to_seconds(), source.name, destination.name, event_type, dict(payload or {})))
        return super().send(source, destination, event_type, payload, daemon)


sent: list = []
net = RecordingNetwork(name="net")


def node(name, timeout):
    return RaftNode(name, net, election_timeout_min=timeout, election_timeout_max=timeout,
                    heartbeat_interval=0.2)


n1, n2, n3 = node("n1", 1.000), node("n2", 1.001), node("n3", 10.0)
nodes = [n1, n2, n3]
for n in nodes:
    n.set_peers(nodes)

DELAY = {("n1", "n2"): 0.5, ("n2", "n3"): 0.05}  # everything else: 10 ms
for a in nodes:
    for b in nodes:
        if a is not b:
            d = DELAY.get((a.name, b.name), 0.01)
            net.add_link(a, b, NetworkLink(name=f"{a.name}->{b.name}", latency=ConstantLatency(d)))

leaders_seen: dict[int, set[str]] = {}


def probe(_e):
    for n in nodes:
        if n.is_leader:
            leaders_seen.setdefault(n.current_term, set()).add(n.name)


sim = Simulation(end_time=Instant.from_seconds(1.2), entities=[net, *nodes])
for n in nodes:
    for e in n.start():
        sim.schedule(e)
for k in range(100, 120):
    sim.schedule(Event.once(time=Instant.from_seconds(k / 100 + 0.005), event_type="probe", fn=probe))
sim.run()

grants: dict[tuple[str, int], set[str]] = {}
ae_senders: dict[int, set[str]] = {}
for t, src, dst, typ, p in sent:
    if typ == "RaftVoteResponse" and p["vote_granted"]:
        grants.setdefault((src, p["term"]), set()).add(dst)
    if typ == "RaftAppendEntries":
        ae_senders.setdefault(p["term"], set()).add(p["leader_id"])

double = {k: sorted(v) for k, v in grants.items() if len(v) > 1}
two_leaders = {t: sorted(v) for t, v in leaders_seen.items() if len(v) > 1}
print("votes granted (voter, term) -> candidates :", {k: sorted(v) for k, v in grants.items()})
print("nodes observed as LEADER per term          :", {t: sorted(v) for t, v in leaders_seen.items()})
print("senders of AppendEntries per term          :", {t: sorted(v) for t, v in ae_senders.items()})
if double:
    print("DEFECT: a node granted its vote to two candidates in one term:", double)
if two_leaders:
    print("DEFECT: two leaders in one term:", two_leaders)
sys.exit(1 if (double or two_leaders) else 0)
