"""C03 check (expected to PASS): components that draw from the *global* generators
(PoissonArrivalTimeProvider -> numpy.random, NetworkLink loss/ExponentialLatency jitter -> random,
RaftNode election timeouts -> random) give the identical run when the globals are re-seeded, no matter
which other simulations were built/run earlier in the interpreter and no matter the PYTHONHASHSEED.

Model: Source.poisson(rate=40) -> lossy NetworkLink (exponential latency + jitter, 10% loss) -> Sink,
plus a 3-node Raft cluster on a full-mesh datacenter network, 12 simulated seconds.
Digest = every delivery (time, event_type, target name) via sim.control.on_event + link/raft stats.
Child A: fresh interpreter, PYTHONHASHSEED=1, seed, run.
Child B: fresh interpreter, PYTHONHASHSEED=2, first builds and runs two unrelated simulations (which
advance the global RNGs and the module-level event counter), builds a third one without running it,
then seeds and runs the model.  Child C: PYTHONHASHSEED=3, runs the model twice in a row.

Run: /venv/bin/python /verif/repro/c03_reseed_after_other_sims_check.py  (exit 0 = property holds, 1 = digests differ)
"""
import hashlib
import json
import os
import subprocess
import sys

ROOT = os.environ.get("HS_ROOT", "/repo")


def child(mode: str) -> None:
    sys.path.insert(0, ROOT)
    import random

    import numpy as np

    from happysimulator.components.common import Sink
    from happysimulator.components.consensus.raft import RaftNode
    from happysimulator.components.network.conditions import datacenter_network
    from happysimulator.components.network.link import NetworkLink
    from happysimulator.components.network.network import Network
    from happysimulator.core.simulation import Simulation
    from happysimulator.distributions.exponential import ExponentialLatency
    from happysimulator.load.source import Source

    def build(n_raft=3, rate=40.0, duration=12.0):
        sink = Sink("sink")
        link = NetworkLink(name="wan", latency=ExponentialLatency(0.02), packet_loss_rate=0.1,
                           jitter=ExponentialLatency(0.005), egress=sink)
        src = Source.poisson(rate=rate, target=link, name="src")
        net = Network(name="raftnet")
        nodes = [RaftNode(name=f"raft-{i}", network=net, election_timeout_min=1.0,
                          election_timeout_max=2.0, heartbeat_interval=0.3) for i in range(n_raft)]
        for nd in nodes:
            nd.set_peers([x for x in nodes if x is not nd])
        for i, a in enumerate(nodes):
            for b in nodes[i + 1:]:
                net.add_bidirectional_link(a, b, datacenter_network(name=f"l_{a.name}_{b.name}"))
        sim = Simulation(duration=duration, sources=[src], entities=[link, sink, net, *nodes])
        for nd in nodes:
            for evt in nd.start():
                sim.schedule(evt)
        return sim, link, sink, nodes

    def run_model():
        random.seed(42)
        np.random.seed(42)
        sim, link, sink, nodes = build()
        log = []
        sim.control.on_event(lambda e: log.append(
            (e.time.to_seconds(), e.event_type, getattr(e.target, "name", type(e.target).__name__))))
        sim.run()
        stats = {"sent": link.packets_sent, "dropped": link.packets_dropped,
                 "sink": sink.events_received,
                 "raft": [(n.name, n.current_term, n.is_leader, n.stats.elections_started) for n in nodes]}
        return {"digest": hashlib.sha256(json.dumps([log, stats]).encode()).hexdigest()[:16],
                "deliveries": len(log), **stats}

    if mode == "after":
        random.seed(1)
        s1, *_ = build(n_raft=5, rate=7.0, duration=5.0)
        s1.run()
        s2, *_ = build(n_raft=3, rate=100.0, duration=3.0)
        s2.run()
        build(n_raft=4)  # built, never run
    if mode == "twice":
        run_model()
    print(json.dumps(run_model()))


def main() -> int:
    res = {}
    plan = (("1", "fresh"), ("2", "after"), ("3", "twice"))
    procs = [subprocess.Popen([sys.executable, os.path.abspath(__file__), "--child", mode],
                              env=dict(os.environ, PYTHONHASHSEED=hs, HS_ROOT=ROOT),
                              stdout=subprocess.PIPE, stderr=subprocess.PIPE, text=True)
             for hs, mode in plan]  # fresh interpreters, started concurrently
    for (hs, mode), p in zip(plan, procs):
        out, err = p.communicate()
        if p.returncode != 0:
            print(err[-3000:])
            return 2
        res[mode] = json.loads(out.strip().splitlines()[-1])
        print(f"{mode:6s} (PYTHONHASHSEED={hs}): {res[mode]}")
    same = len({r["digest"] for r in res.values()}) == 1
    print("ok: identical digests" if same else "DIGESTS DIFFER")
    return 0 if same else 1


if __name__ == "__main__":
    if "--child" in sys.argv:
        child(sys.argv[sys.argv.index("--child") + 1])
    else:
        sys.exit(main())
