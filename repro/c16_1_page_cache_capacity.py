"""C16-1: PageCache holds more pages than its capacity when page loads overlap.

Property clause (C16): "a cache layer holds at most its capacity."

`PageCache._load_page` does
        yield from self._ensure_space()          # capacity check / eviction
        yield self._disk_read_latency_s          # <-- suspension
        self._pages[page_id] = _CachedPage(...)  # unconditional insert
so the capacity check is separated from the insertion by the disk read.  Every process whose
disk read overlaps passes the check against the same (not yet grown) cache and then inserts.
The read-ahead loop in `read_page` has the same shape (`len(self._pages) < self._capacity` ->
`yield self._disk_read_latency_s` -> insert).

Schedules (real engine, one reader process per event):
  A. capacity_pages=2, no read-ahead: four readers issue read_page(0..3) at the same instant
     -> 4 pages cached.
  B. capacity_pages=4, readahead_pages=3: two readers issue read_page(0) and read_page(100) at the
     same instant -> each prefetches 3 neighbours -> 8 pages cached.

Run: /venv/bin/python /verif/repro/c16_1_page_cache_capacity.py   (exit 1 = defect present)
     HS_ROOT=/path/to/checkout to run against another tree.
"""
import os
import sys

sys.path.insert(0, os.environ.get("HS_ROOT", "/repo"))

from happysimulator.components.infrastructure.page_cache import PageCache
from happysimulator.core.entity import Entity
from happysimulator.core.event import Event
from happysimulator.core.simulation import Simulation
from happysimulator.core.temporal import Instant


class Reader(Entity):
    def __init__(self, name, cache):
        super().__init__(name)
        self.cache = cache
        self.max_seen = 0

    def handle_event(self, event):
        return self._read(event.context["page"])

    def _read(self, page):
        yield from self.cache.read_page(page)
        self.max_seen = max(self.max_seen, self.cache.pages_cached)


def run_case(label, capacity, readahead, pages):
    cache = PageCache("pc", capacity_pages=capacity, readahead_pages=readahead,
                      disk_read_latency_s=0.01, disk_write_latency_s=0.02)
    reader = Reader("reader", cache)
    sim = Simulation(end_time=Instant.from_seconds(10), entities=[reader, cache])
    for p in pages:
        ev = Event(time=Instant.from_seconds(1), event_type="read", target=reader)
        ev.context["page"] = p
        sim.schedule(ev)
    sim.run()
    over = cache.pages_cached > capacity or reader.max_seen > capacity
    print(f"[{label}] capacity={capacity} readahead={readahead} concurrent read_page{tuple(pages)} -> "
          f"pages_cached={cache.pages_cached} (max observed {reader.max_seen}), "
          f"ids={sorted(cache._pages)}  -> {'OVER CAPACITY' if over else 'ok'}")
    return over


bad = False
bad |= run_case("A demand loads", 2, 0, [0, 1, 2, 3])
bad |= run_case("B read-ahead  ", 4, 3, [0, 100])
print("DEFECT PRESENT: the page cache exceeded capacity_pages" if bad else "ok: capacity respected")
sys.exit(1 if bad else 0)
