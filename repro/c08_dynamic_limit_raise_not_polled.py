"""Repro: raising a DynamicConcurrency limit at run time does not make the Server look at its queue.

The queue driver polls on a queue notify (empty -> non-empty) and on a completion.  `DynamicConcurrency.set_limit()/scale_up()` is a plain
object method: it cannot emit an event, so after the limit rises the queued items wait for the *next completion* although free slots
exist — simulated time passes while an item waits and the worker has capacity for it.

Scenario: Server(DynamicConcurrency(initial 1, max 4), service 10 s); 4 requests at t = 0; an autoscaler entity calls scale_up(3) at t = 1.
Expected: three more requests start at t = 1 (completions 10, 11, 11, 11).  Observed on the defect: completions 10, 20, 20, 20.
Exit 1 if a queued request waited while the raised limit left a slot free.
"""
import os
import sys

sys.path.insert(0, os.environ.get("HS_ROOT", "/repo"))

from happysimulator.components.server.concurrency import DynamicConcurrency  # noqa: E402
from happysimulator.components.server.server import Server  # noqa: E402
from happysimulator.core.entity import Entity  # noqa: E402
from happysimulator.core.event import Event  # noqa: E402
from happysimulator.core.simulation import Simulation  # noqa: E402
from happysimulator.core.temporal import Instant  # noqa: E402
from happysimulator.distributions.constant import ConstantLatency  # noqa: E402


class Sink(Entity):
    def __init__(self):
        super().__init__("sink")
        self.t = []

    def handle_event(self, event):
        self.t.append(round(self.now.to_seconds(), 6))


class Autoscaler(Entity):
    def __init__(self, model):
        super().__init__("autoscaler")
        self.model = model

    def handle_event(self, event):
        self.model.scale_up(3)


def main():
    sink = Sink()
    model = DynamicConcurrency(1, min_limit=1, max_limit=4)
    srv = Server("srv", concurrency=model, service_time=ConstantLatency(10.0), downstream=sink)
    scaler = Autoscaler(model)
    sim = Simulation(start_time=Instant.Epoch, duration=100, entities=[srv, sink, scaler])
    for k in range(4):
        sim.schedule(Event(time=Instant.Epoch, event_type="req", target=srv, context={"k": k}))
    sim.schedule(Event(time=Instant.from_seconds(1.0), event_type="scale", target=scaler))
    sim.run()
    want = [10.0, 11.0, 11.0, 11.0]
    print("completions:", sink.t, "expected:", want)
    ok = sink.t == want
    print("RESULT:", "ok" if ok else "DEFECT: queued requests waited for a completion although the raised limit left slots free")
    return 0 if ok else 1


sys.exit(main())
