"""C14-4 (page-cache part): PageCache.flush() is not safe against cache activity during its write-back
suspensions.

Property clause (C14/C15 family): a write that completed must not be lost by a flush that overlaps it,
and an overlapping flush must not blow up the simulation.

Code: components/infrastructure/page_cache.py

    def flush(self):
        for page in self._pages.values():          # live OrderedDict view, held across yields
            if page.dirty:
                yield self._disk_write_latency_s   # write-back of the page content as of NOW
                page.dirty = False                 # cleared AFTER the suspension
                ...

Scenario A (lost write-back): page 7 is dirty; flush() starts writing it back at t=0.1000 (0.2 ms).
  At t=0.1001 a second write_page(7) (a cache hit) dirties the page again.  At t=0.1002 the flush
  resumes and sets dirty=False: the cache now claims page 7 is clean although the second write was
  never written back; a later eviction drops it without write-back (dirty_writebacks stays 1).

Scenario B (crash): pages 1 and 2 are dirty; flush() is suspended on page 1 when another entity does
  an ordinary read_page(1) (cache hit -> LRU move_to_end) or write_page(3) (insert).  When the flush
  resumes, its iterator raises RuntimeError("OrderedDict mutated during iteration"), which aborts
  Simulation.run().

Run: /venv/bin/python /verif/repro/c14_4_pagecache_flush.py   (exit 1 = defect present)
     HS_ROOT=/path/to/worktree /venv/bin/python ...            (to test another checkout)
"""
import os
import sys

sys.path.insert(0, os.environ.get("HS_ROOT", "/repo"))

from happysimulator.components.infrastructure.page_cache import PageCache
from happysimulator.core.entity import Entity
from happysimulator.core.event import Event
from happysimulator.core.simulation import Simulation
from happysimulator.core.temporal import Instant


class Script(Entity):
    """Runs one generator-returning callable per event (event.context['fn'])."""

    def handle_event(self, event):
        return event.context["fn"](self)


def at(sim, ent, t, fn):
    ev = Event(time=Instant.from_seconds(t), event_type="step", target=ent)
    ev.context["fn"] = fn
    sim.schedule(ev)


def scenario_a():
    cache = PageCache("pc", capacity_pages=4)
    a, b = Script("a"), Script("b")
    sim = Simulation(end_time=Instant.from_seconds(1.0), entities=[cache, a, b])
    out = {}

    def first_write(self):
        yield from cache.write_page(7)

    def do_flush(self):
        out["flushed"] = yield from cache.flush()
        out["flush_end"] = self.now.to_seconds()
        out["dirty_after_flush"] = cache.dirty_pages

    def second_write(self):
        yield from cache.write_page(7)
        out["second_write_done"] = self.now.to_seconds()

    at(sim, a, 0.0500, first_write)
    at(sim, a, 0.1000, do_flush)
    at(sim, b, 0.1001, second_write)
    sim.run()
    print(f"A: second write_page(7) completed t={out['second_write_done']:.4f}; flush (started 0.1000) "
          f"ended t={out['flush_end']:.4f}, flushed={out['flushed']}, dirty pages afterwards={out['dirty_after_flush']}, "
          f"writebacks={cache.stats.dirty_writebacks}")
    lost = out["dirty_after_flush"] == 0 and out["second_write_done"] < out["flush_end"]
    if lost:
        print("   VIOLATION: page 7 was re-dirtied at 0.1001, after its write-back began, yet is marked clean")
    return lost


def scenario_b(kind):
    cache = PageCache("pc", capacity_pages=4)
    a, b = Script("a"), Script("b")
    sim = Simulation(end_time=Instant.from_seconds(1.0), entities=[cache, a, b])
    out = {}

    def setup(self):
        yield from cache.write_page(1)
        yield from cache.write_page(2)

    def do_flush(self):
        out["flushed"] = yield from cache.flush()

    def other(self):
        if kind == "read hit":
            yield from cache.read_page(1)
        else:
            yield from cache.write_page(3)

    at(sim, a, 0.0500, setup)
    at(sim, a, 0.1000, do_flush)
    at(sim, b, 0.1001, other)
    try:
        sim.run()
    except RuntimeError as exc:
        print(f"B ({kind} during flush): Simulation.run() raised RuntimeError: {exc}")
        return True
    print(f"B ({kind} during flush): ok, flushed={out.get('flushed')}, dirty={cache.dirty_pages}")
    # a page dirtied during the flush may legitimately stay dirty; pages 1 and 2 must be clean
    return out.get("flushed") != 2


bad = [scenario_a(), scenario_b("read hit"), scenario_b("insert")]
print("DEFECT PRESENT" if any(bad) else "defect absent")
sys.exit(1 if any(bad) else 0)
