"""C06-1: an in-flight generator process keeps advancing (and emitting) while its entity is crashed/paused.

Property clause (C06): "While an entity is crashed or paused by a fault it executes nothing: no handler
runs, no in-flight process advances, and it emits no events".

`Event.invoke` drops events whose target has `_crashed` set, but `ProcessContinuation.invoke` (the event
that resumes a suspended handler generator, also created by `SimFuture._resume`) has no such check.

Schedule: entity "server" receives a request at t=1 s, its handler does `yield 2.0` and then emits "Done"
to a sink.  `CrashNode("server", at=1.5, restart_at=10.0)` (and, second scenario, `PauseNode(1.5, 10.0)`;
third scenario: the handler is parked on a SimFuture that is resolved at t=3 s).  Expected: nothing runs
in "server" during [1.5, 10); observed: the generator resumes at t=3 s and the sink receives "Done" at 3 s.

Run: /venv/bin/python /verif/repro/c06_1_crashed_process_advances.py   (exit 1 = defect present, 0 = absent)
     HS_ROOT=/path/to/tree selects another source tree.
"""
import os
import sys

sys.path.insert(0, os.environ.get("HS_ROOT", "/repo"))
from happysimulator.core.entity import Entity
from happysimulator.core.event import Event
from happysimulator.core.sim_future import SimFuture
from happysimulator.core.simulation import Simulation
from happysimulator.core.temporal import Instant
from happysimulator.faults import CrashNode, FaultSchedule, PauseNode


class Sink(Entity):
    def __init__(self, name):
        super().__init__(name)
        self.seen = []

    def handle_event(self, event):
        self.seen.append((event.time.to_seconds(), event.event_type))


class Server(Entity):
    """Generator handler: waits (delay or future), then emits to the sink."""

    def __init__(self, name, sink, future=None):
        super().__init__(name)
        self.sink = sink
        self.future = future
        self.activity = []  # (time, what) for every piece of code run inside this entity

    def handle_event(self, event):
        self.activity.append((self.now.to_seconds(), "handler-start"))
        if self.future is not None:
            yield self.future
        else:
            yield 2.0
        self.activity.append((self.now.to_seconds(), "process-resumed"))
        return [Event(time=self.now, event_type="Done", target=self.sink)]


def scenario(label, fault, use_future):
    sink = Sink("sink")
    fut = SimFuture() if use_future else None
    server = Server("server", sink, fut)
    schedule = FaultSchedule()
    schedule.add(fault)
    sim = Simulation(
        end_time=Instant.from_seconds(20.0), entities=[server, sink], fault_schedule=schedule
    )
    sim.schedule(Event(time=Instant.from_seconds(1.0), event_type="Request", target=server))
    if use_future:
        sim.schedule(
            Event.once(time=Instant.from_seconds(3.0), event_type="resolve", fn=lambda e: fut.resolve("x"))
        )
    sim.run()
    in_window = [a for a in server.activity if 1.5 <= a[0] < 10.0]
    emitted_in_window = [s for s in sink.seen if 1.5 <= s[0] < 10.0]
    print(f"{label}: server activity={server.activity} sink={sink.seen}")
    print(f"   -> activity while down: {in_window}; emissions while down: {emitted_in_window}")
    return len(in_window) + len(emitted_in_window)


bad = 0
bad += scenario("CrashNode[1.5,10) + yield 2.0 ", CrashNode("server", at=1.5, restart_at=10.0), False)
bad += scenario("PauseNode[1.5,10) + yield 2.0 ", PauseNode("server", start=1.5, end=10.0), False)
bad += scenario("CrashNode[1.5,10) + SimFuture", CrashNode("server", at=1.5, restart_at=10.0), True)
print("DEFECT PRESENT" if bad else "defect absent")
sys.exit(1 if bad else 0)
