import os
import sys

sys.path.insert(0, os.environ.get("HS_ROOT", "/repo"))

# C13_3: the ack for a ping whose sender is not (yet) in the receiver's member table is
# addressed to the receiver itself (`event.target`) instead of to the sender.  The network has
# no route from a node to itself, so the ack is dropped; the prober never gets an answer and
# declares the perfectly healthy receiver SUSPECT and then DEAD -- on a loss-free network.
#
# Scenario (a join): m0..m4 are an established full-mesh cluster.  m5 joins: every established
# member has add_member(m5), m5 itself has so far only been told about its seed m0.
# Defaults (probe_interval=1, suspicion_timeout=5), 0.6 ms loss-free links, nobody crashes.

import logging
import random

from happysimulator.components.consensus.membership import MembershipProtocol, MemberState
from happysimulator.components.network.conditions import datacenter_network
from happysimulator.components.network.network import Network
from happysimulator.core.simulation import Simulation

logging.getLogger("happysimulator").setLevel(logging.ERROR)

random.seed(3)
net = Network(name="net")
nodes = [MembershipProtocol(f"m{i}", net) for i in range(6)]
established, newcomer = nodes[:5], nodes[5]
for a in established:
    for b in nodes:
        if a is not b:
            a.add_member(b)
newcomer.add_member(nodes[0])  # knows only its seed node
for i, a in enumerate(nodes):
    for b in nodes[i + 1 :]:
        net.add_bidirectional_link(a, b, datacenter_network(f"link_{a.name}_{b.name}"))

sim = Simulation(duration=120.0, entities=[net, *nodes])
for node in nodes:
    for ev in node.start():
        sim.schedule(ev)
sim.run()

views = {m.name: m.get_member_state(newcomer.name) for m in established}
print(f"{newcomer.name} is alive, never crashed, every link is loss-free (0.6 ms).")
print(f"acks that {newcomer.name} addressed to itself and the network dropped (no route): "
      f"{net.events_dropped_no_route}; dropped by partition: {net.events_dropped_partition}")
print(f"view of {newcomer.name} after 120 s:", {k: v.name for k, v in views.items()})
print()
print("required: on a network that delivers every message, no member ever marks a live member DEAD")
print("(a ping must be answered to its sender).")
bad = {k: v.name for k, v in views.items() if v != MemberState.ALIVE}
if bad:
    print(f"VIOLATION: live member {newcomer.name} is reported not-ALIVE by {bad}")
    sys.exit(1)
print("OK: every member reports the live newcomer ALIVE.")
sys.exit(0)
