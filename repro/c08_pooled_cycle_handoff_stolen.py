"""C08_2: PooledCycleResource hands a freed unit to the head of its queue through
a fresh event to itself; an arrival that is processed in between (same instant,
one routing hop) takes the unit. The head of the queue is sent to the back of
the queue (FIFO violated) or, with a bounded queue, rejected although it had
been accepted and waiting."""
import os
import sys

sys.path.insert(0, os.environ.get("HS_ROOT", "/repo"))

from happysimulator.components.industrial.gate_controller import GateController  # noqa: E402
from happysimulator.components.industrial.pooled_cycle import PooledCycleResource  # noqa: E402
from happysimulator.core.entity import Entity  # noqa: E402
from happysimulator.core.event import Event  # noqa: E402
from happysimulator.core.simulation import Simulation  # noqa: E402
from happysimulator.core.temporal import Instant  # noqa: E402


class Sink(Entity):
    def __init__(self):
        super().__init__("sink")
        self.got = []

    def handle_event(self, event):
        self.got.append((self.now.to_seconds(), event.event_type))


def scenario(queue_capacity: int, via_gate: list[str]):
    sink = Sink()
    pool = PooledCycleResource(
        "pool", pool_size=1, cycle_time=1.0, downstream=sink, queue_capacity=queue_capacity
    )
    gate = GateController("gate", downstream=pool)  # always open: a plain one-hop router
    sim = Simulation(
        start_time=Instant.Epoch,
        end_time=Instant.from_seconds(100.0),
        entities=[pool, gate, sink],
    )
    sim.schedule(Event(time=Instant.from_seconds(0.0), event_type="A", target=pool))
    sim.schedule(Event(time=Instant.from_seconds(0.5), event_type="B", target=pool))
    for name in via_gate:  # arrive at t=1.0, the instant A's cycle ends
        sim.schedule(Event(time=Instant.from_seconds(1.0), event_type=name, target=gate))
    sim.run()
    return sink.got, pool.stats


def main() -> int:
    bad = False

    got, stats = scenario(queue_capacity=0, via_gate=["C"])
    print("unbounded queue: A@0, B@0.5 (waits), C@1.0 via gate")
    print(f"  completions = {got}")
    print("  property requires FIFO: A@1, B@2, C@3")
    if got != [(1.0, "A"), (2.0, "B"), (3.0, "C")]:
        print("  VIOLATION: C (arrived 1.0) was served before B (waiting since 0.5)")
        bad = True

    got, stats = scenario(queue_capacity=1, via_gate=["C", "D"])
    print("queue_capacity=1: A@0, B@0.5 (waits), C@1.0 and D@1.0 via gate")
    print(f"  completions = {got} rejected={stats.rejected}")
    print("  property requires: A@1, B@2, C@3 completed; D rejected (queue held C)")
    if got != [(1.0, "A"), (2.0, "B"), (3.0, "C")] or stats.rejected != 1:
        print("  VIOLATION: B had been accepted and was waiting at the head of the queue, "
              "yet it is the one that gets rejected/never served")
        bad = True

    if bad:
        return 1
    print("OK")
    return 0


if __name__ == "__main__":
    sys.exit(main())
