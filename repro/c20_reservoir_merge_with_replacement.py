"""C20 (reservoir clause): ReservoirSampler.merge() fills the new reservoir by drawing WITH
replacement from the two old reservoirs (`self._reservoir[idx]` / `other._reservoir[idx]` are
never removed).  The merged reservoir therefore contains the same stream item several times and
drops others - most visibly when the combined stream still fits in the reservoir and every item
must be kept.

Property clause that fails: "a reservoir holds min(k, n) items of the stream" (the merged sample is
not a sub-multiset of the concatenated stream).

Minimal input: r1 = ReservoirSampler(size=2, seed=1); r1.add("a");
               r2 = ReservoirSampler(size=2, seed=101); r2.add("b"); r1.merge(r2)
               -> r1.sample() == ['a', 'a']   (expected a permutation of ['a', 'b']).
Engine input: two SketchCollector entities with ReservoirSampler(size=8): collector 1 receives the
distinct ids u0..u2, collector 2 receives u3..u6 (7 distinct items in total, capacity 8); after
merge the sample must be exactly those 7 ids.

Run: /venv/bin/python /verif/repro/c20_reservoir_merge_with_replacement.py   (exit 1 = defect present)
     HS_ROOT=/path/to/tree to test another checkout.
"""
import os
import sys
from collections import Counter

sys.path.insert(0, os.environ.get("HS_ROOT", "/repo"))

from happysimulator.components.sketching.sketch_collector import SketchCollector  # noqa: E402
from happysimulator.core.event import Event  # noqa: E402
from happysimulator.core.simulation import Simulation  # noqa: E402
from happysimulator.core.temporal import Instant  # noqa: E402
from happysimulator.sketching.reservoir import ReservoirSampler  # noqa: E402

bad = False

r1 = ReservoirSampler(size=2, seed=1)
r1.add("a")
r2 = ReservoirSampler(size=2, seed=101)
r2.add("b")
r1.merge(r2)
print("direct :", r1.sample(), "items seen =", r1.item_count, "(expected a permutation of ['a', 'b'])")
bad |= sorted(r1.sample()) != ["a", "b"]

# every seed must satisfy the invariant; count how many of 200 seeds violate it
viol = 0
for s in range(200):
    x = ReservoirSampler(size=4, seed=s)
    y = ReservoirSampler(size=4, seed=1000 + s)
    for i in range(10):
        x.add(i)
    for i in range(10, 30):
        y.add(i)
    x.merge(y)
    smp = x.sample()
    if len(smp) != 4 or len(set(smp)) != 4:
        viol += 1
print(f"direct : 200 seeded merges of two full size-4 reservoirs over distinct items: {viol} contain duplicates")
bad |= viol > 0

c1 = SketchCollector("c1", ReservoirSampler(size=8, seed=3), lambda e: e.context["uid"])
c2 = SketchCollector("c2", ReservoirSampler(size=8, seed=4), lambda e: e.context["uid"])
sim = Simulation(end_time=Instant.from_seconds(10), entities=[c1, c2])
for i in range(7):
    sim.schedule(Event(time=Instant.from_seconds(1 + i * 0.1), event_type="visit",
                       target=c1 if i < 3 else c2, context={"uid": f"u{i}"}))
sim.run()
c1.sketch.merge(c2.sketch)
got = Counter(c1.sketch.sample())
want = Counter(f"u{i}" for i in range(7))
print("engine : merged sample =", sorted(c1.sketch.sample()), "expected", sorted(want))
bad |= got != want

print("DEFECT PRESENT: merged reservoir is not a sample of the concatenated stream" if bad else "ok")
sys.exit(1 if bad else 0)
