import os
import sys

sys.path.insert(0, os.environ.get("HS_ROOT", "/repo"))

"""C10_3: AdaptivePolicy keeps the old (larger) token balance after a rate decrease
when the next requests arrive at the instant of the last refill, so it admits a
burst far above the bucket bound of its *current* rate.

`AdaptivePolicy._refill` clamps the balance to `current_rate * window_size` only
when `elapsed > 0`; the early `return` for `elapsed <= 0` skips the clamp, and
`record_failure` does not clamp either.

Scenario (all at t = 5 s, zero-latency rejection by the backend):
  client --req--> RateLimitedEntity(AdaptivePolicy 100/s, factor 0.1) --> backend
  backend sheds the request and reports THROTTLED -> policy rate drops to 10/s
  client reacts to the rejection with an immediate retry storm of 60 requests.
Bucket bound of the current rate (10/s, window 1 s) = 10 tokens, so at most 10 of
the 60 may pass at that instant; the rest must be queued and drained at 10/s.
"""

from happysimulator.components.rate_limiter import (
    AdaptivePolicy,
    RateAdjustmentReason,
    RateLimitedEntity,
)
from happysimulator.core.entity import Entity
from happysimulator.core.event import Event
from happysimulator.core.simulation import Simulation
from happysimulator.core.temporal import Instant

STORM = 60


class Backend(Entity):
    def __init__(self, name, policy):
        super().__init__(name)
        self.policy = policy
        self.client = None
        self.arrivals = []
        self.rate_at_arrival = []

    def handle_event(self, event):
        self.arrivals.append(event.time.nanoseconds)
        self.rate_at_arrival.append(self.policy.current_rate)
        if len(self.arrivals) == 1:
            # overloaded: shed immediately and give feedback to the limiter
            self.policy.record_failure(event.time, RateAdjustmentReason.THROTTLED)
            return [Event(time=event.time, event_type="rejected", target=self.client)]
        return None


class Client(Entity):
    def __init__(self, name):
        super().__init__(name)
        self.limiter = None

    def handle_event(self, event):
        n = 1 if event.event_type == "start" else STORM
        return [Event(time=event.time, event_type="req", target=self.limiter) for _ in range(n)]


policy = AdaptivePolicy(
    initial_rate=100.0, min_rate=1.0, max_rate=100.0, decrease_factor=0.1, window_size=1.0
)
backend = Backend("backend", policy)
limiter = RateLimitedEntity("rl", downstream=backend, policy=policy, queue_capacity=1000)
client = Client("client")
client.limiter = limiter
backend.client = client

sim = Simulation(
    start_time=Instant.Epoch,
    end_time=Instant.from_seconds(30.0),
    entities=[client, limiter, backend],
)
sim.schedule(Event(time=Instant.from_seconds(5.0), event_type="start", target=client))
sim.run()

T = 5_000_000_000
after_drop = [
    t for t, r in zip(backend.arrivals, backend.rate_at_arrival) if r <= 10.0 and t == T
]
rate = policy.current_rate
bound = max(1.0, 10.0 * 1.0)  # capacity of the bucket at the decreased rate, interval length 0
print(f"rate after the THROTTLED feedback: 10.0/s (now {rate}/s), window 1 s -> bucket bound {bound:.0f}")
print(f"requests forwarded at t=5 s while the rate was already 10/s: {len(after_drop)} of {STORM}")
print(f"limiter stats: {limiter.stats}, total forwarded {len(backend.arrivals)}")
print(f"property requires: at most {bound:.0f} admitted in a zero-length interval at the current rate")
if len(after_drop) > bound:
    print(f"VIOLATION: {len(after_drop)} > {bound:.0f} admitted instantly after the rate was cut to 10/s")
    sys.exit(1)
print("OK: burst after the decrease is limited to the current rate's bucket")
sys.exit(0)
