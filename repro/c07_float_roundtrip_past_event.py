"""C07: `Instant.from_seconds(self.now.to_seconds() + x)` stamps an event 1 ns BEFORE `now`.

Property clause violated
  C07: "no component emits an event into the past" (the engine logs "Time travel detected" and
       silently DROPS such an event).

Mechanism
  Instant -> float seconds -> Instant is not the identity: to_seconds() divides by 1e9 (rounded
  to nearest float), from_seconds() multiplies by 1e9 and TRUNCATES with int().  For about a
  quarter of all nanosecond values around t = 1 s the round trip returns ns - 1.  So with x == 0
  (or any x below the truncation error) the produced event lies in the past.

  Sites demonstrated here (x may legitimately be 0: "supplier delivers immediately"):
    happysimulator/components/industrial/inventory.py            InventoryBuffer._handle_consume
        Event(time=Instant.from_seconds(now_s + self.lead_time), "_InventoryReplenish", ...)
    happysimulator/components/industrial/perishable_inventory.py PerishableInventory._check_reorder
        Event(time=Instant.from_seconds(now_s + self.lead_time), "_PerishableReplenish", ...)
  Consequence: the replenish event is dropped by the engine, `_order_pending` stays True for
  ever, no further reorder is ever placed and every later demand is a stock-out.

Schedule (per site, fresh Simulation, lead_time = 0.0, initial_stock = 1, reorder_point = 0,
order_quantity = 5)
  consume #1 at Instant(NS) where NS = first ns >= 1_000_000_000 whose float round trip truncates
             (1_000_000_007 on IEEE-754 doubles) -> stock 0 -> reorder -> replenish stamped NS-1
  consume #2 at 2.0 s, consume #3 at 3.0 s
  expected: replenish delivered at NS (5 units), consumes #2/#3 fulfilled, 0 stock-outs,
            no "Time travel detected" log line.
  observed: 1 "Time travel detected" drop, replenished == 0, consumes #2/#3 are stock-outs.
  Control: same with NS = 1_000_000_000 (exact round trip) behaves as expected.

Run: /venv/bin/python /verif/repro/c07_float_roundtrip_past_event.py
     HS_ROOT=/path/to/checkout overrides the library root (default /repo)
Exit 1 = defect present at at least one site, 0 = absent.
"""
import logging
import os
import sys

sys.path.insert(0, os.environ.get("HS_ROOT", "/repo"))

from happysimulator.components.industrial.inventory import InventoryBuffer  # noqa: E402
from happysimulator.components.industrial.perishable_inventory import PerishableInventory  # noqa: E402
from happysimulator.core.event import Event  # noqa: E402
from happysimulator.core.simulation import Simulation  # noqa: E402
from happysimulator.core.temporal import Instant  # noqa: E402


class Capture(logging.Handler):
    def __init__(self):
        super().__init__(level=logging.WARNING)
        self.lines = []

    def emit(self, record):
        msg = record.getMessage()
        if "Time travel detected" in msg:
            self.lines.append(msg)


def truncating_ns(start=1_000_000_000):
    for ns in range(start, start + 10_000):
        if Instant.from_seconds(Instant(ns).to_seconds()).nanoseconds < ns:
            return ns
    raise SystemExit("no truncating ns value found (non IEEE-754 platform?)")


def make(site):
    if site == "InventoryBuffer":
        return InventoryBuffer(
            "inv", initial_stock=1, reorder_point=0, order_quantity=5, lead_time=0.0
        )
    return PerishableInventory(
        "pinv",
        initial_stock=1,
        shelf_life_s=1e9,
        reorder_point=0,
        order_quantity=5,
        lead_time=0.0,
    )


def run(site, ns):
    inv = make(site)
    cap = Capture()
    lg = logging.getLogger("happysimulator.core.simulation")
    lg.addHandler(cap)
    old_level = lg.level
    lg.setLevel(logging.WARNING)
    try:
        sim = Simulation(end_time=Instant.from_seconds(10), entities=[inv])
        sim.schedule(Event(time=Instant(ns), event_type="Consume", target=inv))
        sim.schedule(Event(time=Instant.from_seconds(2.0), event_type="Consume", target=inv))
        sim.schedule(Event(time=Instant.from_seconds(3.0), event_type="Consume", target=inv))
        sim.run()
    finally:
        lg.removeHandler(cap)
        lg.setLevel(old_level)
    st = inv.stats
    consumed = getattr(st, "items_consumed", None)
    if consumed is None:
        consumed = st.total_consumed
    ok = not cap.lines and st.stockouts == 0 and consumed == 3 and st.current_stock == 3
    print(
        f"{site:19s} first_consume_ns={ns} time_travel_drops={len(cap.lines)} "
        f"consumed={consumed}/3 stockouts={st.stockouts} stock={st.current_stock} (want 3) "
        f"reorders={st.reorders} -> {'ok' if ok else 'DEFECT: replenish stamped in the past and dropped'}"
    )
    for line in cap.lines:
        print("    engine log:", line)
    return ok


def main():
    ns = truncating_ns()
    print(
        f"round trip: Instant({ns}).to_seconds() -> from_seconds -> "
        f"{Instant.from_seconds(Instant(ns).to_seconds()).nanoseconds}"
    )
    results = []
    for site in ("InventoryBuffer", "PerishableInventory"):
        control = run(site, 1_000_000_000)
        if not control:
            print(f"control case for {site} misbehaved: unexpected")
        results.append(control and run(site, ns))
    bad = results.count(False)
    print(f"{bad} of {len(results)} sites emit the replenish event into the past")
    sys.exit(1 if bad else 0)


if __name__ == "__main__":
    main()
