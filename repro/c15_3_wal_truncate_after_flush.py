"""C15-3: a memtable flush truncates WAL entries that belong to the NEW memtable -> acknowledged,
fsynced writes are lost by crash() + recover_from_crash().

Property clause (C15): "after crash and recovery every write whose WAL sync had completed before the
crash is readable with its latest durable value".

Code: LSMTree._flush_memtable (components/storage/lsm_tree.py) swaps in a fresh memtable, suspends for
the SSTable write latency and only THEN computes the truncation bound
`self._wal.truncate(self._wal._next_sequence - 1)` from the WAL's *current* state.  Every entry that
was appended (and synced, and acknowledged) while the flush was suspended lives only in the new,
volatile memtable, yet is removed from the log.  The same holds for an entry whose WAL append was
already in progress when the flush began (it is applied to the new memtable after the swap).

Schedule (WAL = SyncEveryWrite, so every put is fsynced before it returns; memtable_size=4):
  writer A : t=0.1000 puts k0..k3 back to back; the 4th put fills the memtable at t=0.10444 and
             starts the flush, which is suspended until t=0.10644.
  writer B : t=0.1040 put("early", ..)  - WAL append begins BEFORE the flush, applied after the swap.
  writer C : t=0.1047 put("late", ..)   - begins and completes (t=0.10581) DURING the flush.
  t=0.2    : crash() ; recover_from_crash() ; read everything back.

Run: /venv/bin/python /verif/repro/c15_3_wal_truncate_after_flush.py   (exit 1 = defect present)
     HS_ROOT=/path/to/worktree /venv/bin/python ...                     (to test another checkout)
"""
import os
import sys

sys.path.insert(0, os.environ.get("HS_ROOT", "/repo"))

from happysimulator.components.storage.lsm_tree import LSMTree
from happysimulator.components.storage.wal import SyncEveryWrite, WriteAheadLog
from happysimulator.core.entity import Entity
from happysimulator.core.event import Event
from happysimulator.core.simulation import Simulation
from happysimulator.core.temporal import Instant

wal = WriteAheadLog("wal", sync_policy=SyncEveryWrite())
lsm = LSMTree("db", memtable_size=4, wal=wal)
acked = {}  # key -> (value, ack time, wal.synced_up_to at ack)
after = {}


class Writer(Entity):
    def __init__(self, name, items):
        super().__init__(name)
        self.items = items

    def handle_event(self, event):
        for key, value in self.items:
            t0 = self.now.to_seconds()
            yield from lsm.put(key, value)
            acked[key] = (value, t0, self.now.to_seconds(), wal.synced_up_to)


class Operator(Entity):
    def handle_event(self, event):
        before = {k: lsm.get_sync(k) for k in acked}
        print(f"t={self.now.to_seconds():.4f} before crash: {before}")
        print(f"           WAL entries in log: {[ (e.sequence_number, e.key) for e in wal._entries ]},"
              f" synced_up_to={wal.synced_up_to}")
        print("           crash()              ->", lsm.crash())
        print("           recover_from_crash() ->", lsm.recover_from_crash())
        for k in acked:
            after[k] = lsm.get_sync(k)


a = Writer("A", [(f"k{i}", f"v{i}") for i in range(4)])
b = Writer("B", [("early", "E")])
c = Writer("C", [("late", "L")])
op = Operator("operator")
sim = Simulation(end_time=Instant.from_seconds(1.0), entities=[lsm, wal, a, b, c, op])
sim.schedule(Event(time=Instant.from_seconds(0.1000), event_type="go", target=a))
sim.schedule(Event(time=Instant.from_seconds(0.1040), event_type="go", target=b))
sim.schedule(Event(time=Instant.from_seconds(0.1047), event_type="go", target=c))
sim.schedule(Event(time=Instant.from_seconds(0.2), event_type="crash", target=op))
sim.run()

bad = 0
for key, (value, t0, t1, synced) in acked.items():
    got = after.get(key)
    ok = got == value
    print(f"put({key!r}) began t={t0:.5f} acked t={t1:.5f} (WAL synced_up_to={synced}) "
          f"-> after recovery: {got!r} {'ok' if ok else 'LOST (acknowledged + fsynced before the crash)'}")
    bad += not ok
print("DEFECT PRESENT" if bad else "defect absent")
sys.exit(1 if bad else 0)
