"""C16-5: SoftTTLCache serves an entry older than its hard TTL on the coalesced-wait path.

Property clause (C16): "a soft-TTL cache never serves an entry older than its hard TTL."

`SoftTTLCache.get` checks `entry.is_fresh` / `entry.is_valid` only on the direct hit paths.  When
the entry is expired (age >= hard_ttl) and a background refresh of the same key is in flight, the
reader takes the request-coalescing branch: it waits `backing_store.read_latency` and then returns
`self._cache[key].value` if the key is (still) in the cache - with no hard-TTL check.  If the
refresh did not replace the entry (the backing store no longer has the key, so the refresh fetched
None and stored nothing), the entry that is returned is the old, expired one.

Schedule (soft_ttl=1 s, hard_ttl=2 s, backing read latency 0.5 s):
   t=0.0   put(k, "v1")           cached_at = 0.005
   t=1.9   reader A: get(k)       stale hit (age 1.895) -> serves v1, starts background refresh
                                  (refresh reads the backing store at t=2.4)
   t=2.0   k is deleted from the backing store (KVStore.delete_sync; any other client of the store)
   t=2.1   reader B: get(k)       age 2.095 >= hard_ttl -> "hard miss", refresh in flight ->
                                  coalesced wait until t=2.6
   t=2.4   refresh gets None, stores nothing; the expired entry stays in the cache
   t=2.6   reader B returns the entry cached at 0.005, i.e. 2.595 s old > hard_ttl = 2 s

Run: /venv/bin/python /verif/repro/c16_5_softttl_coalesced_expired.py   (exit 1 = defect present)
     HS_ROOT=/path/to/checkout to run against another tree.
"""
import os
import sys

sys.path.insert(0, os.environ.get("HS_ROOT", "/repo"))

from happysimulator.components.datastore import KVStore, SoftTTLCache
from happysimulator.core.entity import Entity
from happysimulator.core.event import Event
from happysimulator.core.simulation import Simulation
from happysimulator.core.temporal import Instant

HARD_TTL = 2.0
results = {}


class Client(Entity):
    def __init__(self, name, cache, backing):
        super().__init__(name)
        self.cache = cache
        self.backing = backing

    def handle_event(self, event):
        kind = event.event_type
        if kind == "put":
            return self.cache.put("k", "v1")
        if kind == "backing_delete":
            self.backing.delete_sync("k")
            print(f"  t={self.now.to_seconds():.3f} backing store: k deleted")
            return None
        return self._get(event.context["tag"])

    def _get(self, tag):
        t0 = self.now.to_seconds()
        entry = self.cache._cache.get("k")  # observation only
        cached_at = entry.cached_at.to_seconds() if entry else None
        v = yield from self.cache.get("k")
        t1 = self.now.to_seconds()
        # age of the entry the value came from, at the moment it was handed to the reader
        cur = self.cache._cache.get("k")
        src_cached_at = cur.cached_at.to_seconds() if (cur is not None and cur.value == v) else cached_at
        age = None if v is None else t1 - src_cached_at
        results[tag] = (t0, t1, v, age)
        print(f"  {tag}: get(k) issued t={t0:.3f} -> {v!r} at t={t1:.3f}"
              + (f" (entry cached_at={src_cached_at:.3f}, age {age:.3f} s)" if v is not None else ""))


backing = KVStore(name="backing", read_latency=0.5, write_latency=0.005)
cache = SoftTTLCache(name="cache", backing_store=backing, soft_ttl=1.0, hard_ttl=HARD_TTL)
client = Client("client", cache, backing)
sim = Simulation(end_time=Instant.from_seconds(10), entities=[client, cache, backing])


def at(t, etype, **ctx):
    ev = Event(time=Instant.from_seconds(t), event_type=etype, target=client)
    ev.context.update(ctx)
    sim.schedule(ev)


at(0.0, "put")
at(1.9, "get", tag="reader A")
at(2.0, "backing_delete")
at(2.1, "get", tag="reader B")
sim.run()

print(f"stats: {cache.stats}")
t0, t1, v, age = results["reader B"]
bad = v is not None and age is not None and age >= HARD_TTL
if bad:
    print(f"DEFECT PRESENT: reader B was served {v!r} from an entry {age:.3f} s old; hard TTL is {HARD_TTL} s "
          f"(coalesced_requests={cache.stats.coalesced_requests})")
else:
    print("ok: no entry older than the hard TTL was served")
sys.exit(1 if bad else 0)
