"""(b) schedule_redelivery() puts the message back at the head of pending AND
returns a message_redelivery event.  A poll that arrives before that event
delivers the message from pending; when the event fires, handle_event calls
_deliver_message() again although the message is already in flight: a second
concurrent delivery, delivery_count bumped twice for ONE timeout, and the
message is dead-lettered after fewer timeouts than max_redeliveries allows."""
import os, sys
sys.path.insert(0, os.environ.get("HS_ROOT", "/repo"))
sys.path.insert(1, os.path.dirname(os.path.abspath(__file__)))
from mq2_common import World

MAX = 3
w = World(
    [
        (0.0, "publish", ("m1",)),
        (1.0, "poll", ()),              # delivery #1 -> C1
        (2.0, "timeout", ("m1",)),      # ONE requested redelivery; event due at t=7, m1 pollable meanwhile
        (3.0, "poll", ()),              # delivery #2 -> C2 (this IS the requested redelivery)
        (6.0, "note", ("before redelivery event",)),
        # t=7.0: message_redelivery fires while m1 is in flight at C2
        (8.0, "note", ("after redelivery event",)),
        (9.0, "timeout", ("m1",)),      # 2nd timeout: delivery_count should be 2 (< MAX) -> redeliver, not DLQ
        (9.5, "note", ("after 2nd timeout",)),
    ],
    delivery_latency=0.001,
    redelivery_delay=5.0,
    max_redeliveries=MAX,
).run(end=30.0)

bad = []
dl = w.all_deliveries()
timeouts_before_t8 = 1
delivs_before_t8 = [d for d in dl if d[0] < 8.0]
print()
print(f"deliveries of m1 before t=8: {len(delivs_before_t8)}; redeliveries requested before t=8: {timeouts_before_t8}")
if len(delivs_before_t8) > 1 + timeouts_before_t8:
    bad.append(
        f"{len(delivs_before_t8)} deliveries for 1 publish + {timeouts_before_t8} requested redelivery "
        f"(extra delivery at t={delivs_before_t8[-1][0]} to {delivs_before_t8[-1][1]} while m1 was in flight, "
        f"no timeout/reject in between)"
    )
st = w.queue.stats
print(f"stats: delivered={st.messages_delivered} redelivered={st.messages_redelivered} dead_lettered={st.messages_dead_lettered}")
if st.messages_redelivered > 2:
    bad.append(f"messages_redelivered={st.messages_redelivered} for 2 timeouts")
if w.where("m1") == ["dlq"]:
    bad.append(
        f"m1 dead-lettered at its 2nd timeout with max_redeliveries={MAX} "
        f"(delivery_count was inflated to {w.dlq.messages[0].delivery_count} by the phantom delivery)"
    )

if bad:
    print("DEFECT (b) manifests:")
    for b in bad:
        print("  -", b)
    sys.exit(1)
print("OK: one delivery per publish / requested redelivery; limit counted correctly")
sys.exit(0)
