"""C17-2: primary-backup replicas diverge at quiescence when replication messages are reordered.

Property clause (C17): "In every scheme, once writes stop and all in-flight messages are delivered,
all replicas hold the same value for every key, under any message reordering."

`BackupNode._handle_replicate` applies every `Replicate` message unconditionally
(`yield from self._store.put(key, value)`; `self._last_applied_seq = seq`) - the primary's
sequence number carried in the message is never compared with what was already applied.  When two
writes to the same key are replicated over a link whose delay differs per message (the library's
own `ExponentialLatency`, i.e. any jittery network), the older write can arrive last and
overwrite the newer one; nothing ever repairs it.  `last_applied_seq` also moves backwards.

Schedule: primary + 2 backups, links with ExponentialLatency(mean 20 ms) (global `random` seeded),
20 writes to keys k0..k2 issued 1 ms apart at the primary (values = write index), then silence
until t=10 s (every message delivered, every ack received).  Run in ASYNC and in SYNC mode.
Expected: each backup store == primary store.  Observed: backups hold older values.

Run: /venv/bin/python /verif/repro/c17_2_primary_backup_reorder.py   (exit 1 = defect present)
     HS_ROOT=/path/to/checkout to run against another tree.
"""
import os
import random
import sys

sys.path.insert(0, os.environ.get("HS_ROOT", "/repo"))

from happysimulator import Event, Instant, Network, SimFuture, Simulation
from happysimulator.components.datastore import KVStore
from happysimulator.components.network.link import NetworkLink
from happysimulator.components.replication.primary_backup import (
    BackupNode,
    PrimaryNode,
    ReplicationMode,
)
from happysimulator.distributions.exponential import ExponentialLatency


def run(mode, seed):
    random.seed(seed)
    network = Network(name="net")
    pstore = KVStore("ps", write_latency=0.001, read_latency=0.001)
    primary = PrimaryNode("primary", store=pstore, backups=[], network=network, mode=mode)
    backups, bstores = [], []
    for i in range(2):
        bs = KVStore(f"bs{i}", write_latency=0.001, read_latency=0.001)
        b = BackupNode(f"backup{i}", store=bs, network=network, primary=primary)
        backups.append(b)
        bstores.append(bs)
    # same wiring the library's own tests use (no public setter for the backup list)
    primary._backups = list(backups)
    primary._backup_lag = {b.name: 0 for b in backups}
    for i, b in enumerate(backups):
        network.add_link(primary, b, NetworkLink(name=f"p->b{i}", latency=ExponentialLatency(0.020)))
        network.add_link(b, primary, NetworkLink(name=f"b{i}->p", latency=ExponentialLatency(0.020)))

    sim = Simulation(
        start_time=Instant.Epoch,
        end_time=Instant.from_seconds(10.0),
        sources=[],
        entities=[primary, *backups, network, pstore, *bstores],
    )
    futures = []
    for n in range(20):
        fut = SimFuture()
        futures.append(fut)
        sim.schedule(
            Event(
                time=Instant.from_seconds(0.1 + 0.001 * n),
                event_type="Write",
                target=primary,
                context={"metadata": {"key": f"k{n % 3}", "value": n, "reply_future": fut}},
            )
        )
    sim.run()

    acked = sum(f.is_resolved for f in futures)
    want = {k: pstore.get_sync(k) for k in pstore.keys()}
    diverged = False
    print(f"mode={mode.value} seed={seed}: writes acked {acked}/20, primary store {want}")
    for b, bs in zip(backups, bstores):
        got = {k: bs.get_sync(k) for k in sorted(want)}
        ok = got == want
        diverged |= not ok
        print(f"   {b.name}: applied={b.stats.replications_applied} last_applied_seq={b.last_applied_seq} "
              f"store {got} -> {'same' if ok else 'DIVERGED'}")
    return diverged


bad = False
for mode in (ReplicationMode.ASYNC, ReplicationMode.SYNC):
    bad |= run(mode, seed=1)
print("DEFECT PRESENT: backups differ from the primary after quiescence" if bad
      else "ok: all replicas converged")
sys.exit(1 if bad else 0)
