import os
import sys

sys.path.insert(0, os.environ.get("HS_ROOT", "/repo"))

# C19_2: a redelivery request is silently refused (and the message is stuck in
# flight for good) when an earlier redelivery timer for the same message is
# still outstanding although the message has already been re-delivered by a poll.
#
# schedule_redelivery() puts the message back at the head of the pending queue
# *and* returns a timer event redelivery_delay later; the id stays in
# _redelivery_scheduled until that timer fires.  A poll may deliver the message
# before the timer (handle_event documents that: "left the message pollable").
# If that second delivery times out as well, schedule_redelivery() sees the
# stale flag and returns None: no requeue, no timer, no dead-lettering.

from happysimulator.components.messaging import DeadLetterQueue, MessageQueue
from happysimulator.core.callback_entity import NullEntity
from happysimulator.core.entity import Entity
from happysimulator.core.event import Event
from happysimulator.core.simulation import Simulation
from happysimulator.core.temporal import Instant

ACK_TIMEOUT = 5.0


class Consumer(Entity):
    """Receives deliveries, never acknowledges (a hung worker)."""

    def __init__(self):
        super().__init__("consumer")
        self.deliveries = []

    def handle_event(self, event):
        if event.event_type == "message_delivery":
            self.deliveries.append((round(self.now.to_seconds(), 3),
                                    event.context["delivery_count"]))
        return None


class Watchdog(Entity):
    """Visibility-timeout watchdog: ACK_TIMEOUT after a delivery it asks the
    queue to redeliver the message if it is still unacknowledged."""

    def __init__(self, queue):
        super().__init__("watchdog")
        self.queue = queue
        self.log = []

    def handle_event(self, event):
        mid = event.context["message_id"]
        if mid not in self.queue._in_flight:
            return None
        timer = self.queue.schedule_redelivery(mid)
        msg = self.queue.get_message(mid)
        self.log.append((round(self.now.to_seconds(), 3),
                         "timer@%.1f" % timer.time.to_seconds() if timer else "None",
                         msg.state.value if msg else "gone"))
        return [timer] if timer else None


class Publisher(Entity):
    def __init__(self, queue):
        super().__init__("publisher")
        self.queue = queue
        self.mid = None

    def handle_event(self, event):
        payload = Event(time=self.now, event_type="order", target=NullEntity())
        self.mid = yield from self.queue.publish(payload)
        return None


dlq = DeadLetterQueue(name="dlq")
queue = MessageQueue(name="orders", delivery_latency=0.001, redelivery_delay=30.0,
                     max_redeliveries=5, dead_letter_queue=dlq)
consumer = Consumer()
watchdog = Watchdog(queue)
publisher = Publisher(queue)
queue.subscribe(consumer)

class Arm(Entity):
    """Arms one watchdog check ACK_TIMEOUT after each of the two deliveries."""

    def __init__(self):
        super().__init__("arm")

    def handle_event(self, event):
        return [Event(time=self.now, event_type="check", target=watchdog,
                      context={"message_id": publisher.mid})]


arm = Arm()
sim = Simulation(start_time=Instant.Epoch, end_time=Instant.from_seconds(200.0),
                  entities=[queue, dlq, consumer, watchdog, publisher, arm])
sim.schedule(Event(time=Instant.Epoch, event_type="go", target=publisher))
sim.schedule(Event(time=Instant.from_seconds(1.0), event_type="poll", target=queue))
sim.schedule(Event(time=Instant.from_seconds(1.0 + ACK_TIMEOUT + 0.001), event_type="t", target=arm))
sim.schedule(Event(time=Instant.from_seconds(7.0), event_type="poll", target=queue))
sim.schedule(Event(time=Instant.from_seconds(7.0 + ACK_TIMEOUT + 0.001), event_type="t", target=arm))
sim.run()

print("deliveries (time, delivery_count):", consumer.deliveries)
print("watchdog   (time, schedule_redelivery() result, message state):", watchdog.log)
msg = queue.get_message(publisher.mid)
print(f"end of run t=200: pending={queue.pending_count} in_flight={queue.in_flight_count} "
      f"dlq={dlq.message_count} state={msg.state.value if msg else 'gone'}")
print("property requires: every requested redelivery reaches a subscribed consumer "
      "(2 requests -> 3 deliveries in total, the 3rd no later than t=12+30)")
if len(watchdog.log) == 2 and len(consumer.deliveries) < 3:
    print("VIOLATION: the second redelivery request was dropped; the unacknowledged "
          "message sits in flight forever (never redelivered, never dead-lettered)")
    sys.exit(1)
print("OK")
sys.exit(0)
