"""C03 (design trap rather than a coding slip): components that own a private
`random.Random(seed)` with `seed: int | None = None` fall back to OS entropy when the seed is omitted.
Seeding the *global* generators (random.seed(42) / numpy.random.seed(42)), which is what the test
suite and the examples do to get a reproducible run, does not govern them.

Clause at stake: "Building the same model with the same seeds and running it yields the identical ...
component statistics".  Strictly the user "gave no seed" to these components, so this is reported as
an API trap: every other stochastic component (ExponentialLatency, PoissonArrivalTimeProvider, links,
Raft timeouts ...) IS controlled by the global seed, these are not.

The child process seeds both global generators, then (a) draws from each such component directly,
(b) runs a small model under the real engine (client picks keys with ZipfDistribution() and reads
through a CachedStore using SampledLRUEviction()).  Two fresh interpreters with the SAME
PYTHONHASHSEED (0) are compared, so the only uncontrolled input is OS entropy.

Run: /venv/bin/python /verif/repro/c03_unseeded_default_rng.py   (exit 1 = nondeterminism present)
     HS_ROOT=/path/to/tree to test another checkout.
"""
import json
import os
import subprocess
import sys

ROOT = os.environ.get("HS_ROOT", "/repo")


def child() -> None:
    sys.path.insert(0, ROOT)
    import random

    import numpy as np

    random.seed(42)
    np.random.seed(42)

    from happysimulator.components.behavior.social_network import SocialGraph
    from happysimulator.components.datastore import (
        CachedStore, KVStore, RandomEviction, SampledLRUEviction,
    )
    from happysimulator.core.entity import Entity
    from happysimulator.core.event import Event
    from happysimulator.core.simulation import Simulation
    from happysimulator.core.temporal import Instant
    from happysimulator.distributions.exponential import ExponentialLatency
    from happysimulator.distributions.uniform import UniformDistribution
    from happysimulator.distributions.zipf import ZipfDistribution
    from happysimulator.sketching.reservoir import ReservoirSampler

    out = {}
    z = ZipfDistribution(range(1000))
    out["ZipfDistribution()"] = [z.sample() for _ in range(8)]
    u = UniformDistribution(range(1000))
    out["UniformDistribution()"] = [u.sample() for _ in range(8)]
    r = ReservoirSampler(size=4)
    for i in range(200):
        r.add(i)
    out["ReservoirSampler(4)"] = sorted(r.sample())
    for name, pol in (("RandomEviction()", RandomEviction()), ("SampledLRUEviction()", SampledLRUEviction(sample_size=2))):
        for i in range(50):
            pol.on_insert(f"{i:02d}")
        out[name] = [pol.evict() for _ in range(6)]
    g = SocialGraph.random_erdos_renyi([f"n{i}" for i in range(12)], p=0.2)
    out["SocialGraph.random_erdos_renyi()"] = sum(len(g.neighbors(f"n{i}")) for i in range(12))
    # control: governed by random.seed(42)
    e = ExponentialLatency(0.1)
    out["control ExponentialLatency (global random)"] = [round(e.get_latency(Instant.Epoch).to_seconds(), 6) for _ in range(3)]

    # engine model
    db = KVStore("db", read_latency=0.010)
    for i in range(50):
        db.put_sync(f"k{i}", i)
    cache = CachedStore("cache", backing_store=db, cache_capacity=5,
                        eviction_policy=SampledLRUEviction(sample_size=2), cache_read_latency=0.001)
    keys = ZipfDistribution([f"k{i}" for i in range(50)], s=1.0)

    class Client(Entity):
        def handle_event(self, event):
            for _ in range(100):
                yield from cache.get(keys.sample())

    c = Client("client")
    sim = Simulation(end_time=Instant.from_seconds(100), entities=[db, cache, c])
    sim.schedule(Event(time=Instant.from_seconds(1), event_type="go", target=c))
    sim.run()
    out["engine model: cache (hits, misses, evictions)"] = [cache.stats.hits, cache.stats.misses, cache.stats.evictions]
    print(json.dumps(out))


def main() -> int:
    runs = []
    procs = [subprocess.Popen([sys.executable, os.path.abspath(__file__), "--child"],
                              env=dict(os.environ, PYTHONHASHSEED="0", HS_ROOT=ROOT),
                              stdout=subprocess.PIPE, stderr=subprocess.PIPE, text=True)
             for _ in range(2)]  # fresh interpreters, started concurrently
    for p in procs:
        out, err = p.communicate()
        if p.returncode != 0:
            print(err)
            return 2
        runs.append(json.loads(out.strip().splitlines()[-1]))
    bad = False
    for k in runs[0]:
        same = runs[0][k] == runs[1][k]
        print(f"{'same   ' if same else 'DIFFERS'} {k}: {runs[0][k]} | {runs[1][k]}")
        if not k.startswith("control"):
            bad |= not same
    print("NONDETERMINISM PRESENT under global seeding only" if bad else "ok")
    return 1 if bad else 0


if __name__ == "__main__":
    if "--child" in sys.argv:
        child()
    else:
        sys.exit(main())
