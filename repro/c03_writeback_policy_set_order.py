"""C03: WriteBack (components/datastore/write_policies.py) tracks dirty keys in a set[str] and
get_keys_to_flush() returns `list(self._dirty_keys)`: the order in which a store using the policy
writes keys back depends on the per-process string hash seed.

Property clause that fails: same model + same seeds => identical deliveries / component statistics
"regardless of ... the interpreter's hash randomisation".

Model (real engine): a user entity that follows the WritePolicy protocol (on_write -> should_flush ->
get_keys_to_flush -> put each key to the backing KVStore -> on_flush), WriteBack(max_dirty=8), backing
KVStore with capacity=4.  The client writes k0..k7 in that order; the flush order, the completion time
of each individual key's write-back and the 4 keys that survive in the bounded store all depend on
PYTHONHASHSEED.  The script runs the model in fresh interpreters and compares digests.

Run: /venv/bin/python /verif/repro/c03_writeback_policy_set_order.py   (exit 1 = defect present)
     HS_ROOT=/path/to/tree to test another checkout.
"""
import hashlib
import json
import os
import subprocess
import sys

ROOT = os.environ.get("HS_ROOT", "/repo")


def child() -> None:
    sys.path.insert(0, ROOT)
    import random

    from happysimulator.components.datastore import KVStore, WriteBack
    from happysimulator.core.entity import Entity
    from happysimulator.core.event import Event
    from happysimulator.core.simulation import Simulation
    from happysimulator.core.temporal import Instant

    random.seed(42)
    db = KVStore("db", write_latency=0.005, capacity=4)
    policy = WriteBack(flush_interval=1.0, max_dirty=8)
    log = []

    class WriteBehindStore(Entity):
        def __init__(self, name):
            super().__init__(name)
            self.buffer = {}

        def handle_event(self, event):
            key, value = event.context["key"], event.context["value"]
            self.buffer[key] = value
            policy.on_write(key, value)
            if policy.should_flush():
                keys = policy.get_keys_to_flush()
                for k in keys:
                    yield from db.put(k, self.buffer[k])
                    log.append((round(self.now.to_seconds(), 6), k))
                policy.on_flush(keys)

    store = WriteBehindStore("wb")
    sim = Simulation(end_time=Instant.from_seconds(10), entities=[db, store])
    for i in range(8):
        sim.schedule(Event(time=Instant.from_seconds(1 + i), event_type="write", target=store,
                           context={"key": f"k{i}", "value": i}))
    sim.run()
    out = {"writeback_log": log, "db_keys": db.keys(), "db_evictions": db.stats.evictions}
    out["digest"] = hashlib.sha256(json.dumps(out).encode()).hexdigest()[:16]
    print(json.dumps(out))


def main() -> int:
    results = {}
    procs = {
        hs: subprocess.Popen([sys.executable, os.path.abspath(__file__), "--child"],
                             env=dict(os.environ, PYTHONHASHSEED=hs, HS_ROOT=ROOT),
                             stdout=subprocess.PIPE, stderr=subprocess.PIPE, text=True)
        for hs in ("1", "2", "3")
    }  # fresh interpreters, started concurrently
    for hs, p in procs.items():
        out, err = p.communicate()
        if p.returncode != 0:
            print(err)
            return 2
        results[hs] = json.loads(out.strip().splitlines()[-1])
        r = results[hs]
        print(f"PYTHONHASHSEED={hs}: digest={r['digest']} flush order={[k for _, k in r['writeback_log']]} "
              f"db_keys={r['db_keys']}")
    same = len({r["digest"] for r in results.values()}) == 1
    print("ok: identical run in every interpreter" if same
          else "DEFECT PRESENT: WriteBack flush order differs with PYTHONHASHSEED")
    return 0 if same else 1


if __name__ == "__main__":
    if "--child" in sys.argv:
        child()
    else:
        sys.exit(main())
