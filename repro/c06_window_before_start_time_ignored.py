import os
import sys

sys.path.insert(0, os.environ.get("HS_ROOT", "/repo"))

"""C06_4: a fault window that opens before Simulation.start_time never takes effect.

The simulation covers [10 s, 30 s].  Three faults are scheduled whose windows
are open at the moment the simulation starts:
    PauseNode("a", start=5, end=15)            -> "a" must be down during [10, 15)
    CrashNode("b", at=5)   (no restart)        -> "b" must be down for the whole run
    NetworkPartition(["c"], ["d"], 5, 15)      -> c -> d traffic must be dropped during [10, 15)
The activation events are stamped t=5 < start_time, so the run loop discards them
("Time travel detected ... Skipping event"), while the deactivation events at
t=15 still run.  Result: none of the three faults is ever in effect although a
window covering the target is active during [10, 15) (resp. forever).
"""

import logging

from happysimulator.components.network.link import NetworkLink
from happysimulator.components.network.network import Network
from happysimulator.core.entity import Entity
from happysimulator.core.event import Event
from happysimulator.core.simulation import Simulation
from happysimulator.core.temporal import Instant
from happysimulator.distributions.constant import ConstantLatency
from happysimulator.faults.network_faults import NetworkPartition
from happysimulator.faults.node_faults import CrashNode, PauseNode
from happysimulator.faults.schedule import FaultSchedule

logging.getLogger("happysimulator").setLevel(logging.ERROR)


class Node(Entity):
    def __init__(self, name):
        super().__init__(name)
        self.handled = []

    def handle_event(self, event):
        self.handled.append(self.now.to_seconds())


class Sender(Entity):
    def __init__(self, name, net, src, dst):
        super().__init__(name)
        self.net, self.src, self.dst = net, src, dst

    def handle_event(self, event):
        return [self.net.send(self.src, self.dst, "msg")]


def main() -> int:
    a, b, c, d = Node("a"), Node("b"), Node("c"), Node("d")
    net = Network(name="net")
    net.add_link(c, d, NetworkLink(name="cd", latency=ConstantLatency(0.001)))
    sender = Sender("sender", net, c, d)

    faults = FaultSchedule()
    faults.add(PauseNode("a", start=5.0, end=15.0))
    faults.add(CrashNode("b", at=5.0))
    faults.add(NetworkPartition(["c"], ["d"], start=5.0, end=15.0))

    sim = Simulation(
        start_time=Instant.from_seconds(10.0),
        end_time=Instant.from_seconds(30.0),
        entities=[a, b, c, d, net, sender],
        fault_schedule=faults,
    )
    for t in (11.0, 12.0, 16.0, 20.0):
        for target in (a, b, sender):
            sim.schedule(Event(time=Instant.from_seconds(t), event_type="tick", target=target))
    sim.run()

    got_d = [round(t - 0.001, 6) for t in d.handled]
    print(f"observed : a handled events at {a.handled}")
    print(f"           b handled events at {b.handled}")
    print(f"           d received c's messages sent at {got_d}")
    print("required : a handles only [16.0, 20.0]   (paused until 15)")
    print("           b handles nothing             (crashed at 5, never restarted)")
    print("           d receives only the messages sent at [16.0, 20.0] (partition until 15)")
    ok = a.handled == [16.0, 20.0] and b.handled == [] and got_d == [16.0, 20.0]
    print("VIOLATED" if not ok else "ok")
    return 0 if ok else 1


if __name__ == "__main__":
    sys.exit(main())
