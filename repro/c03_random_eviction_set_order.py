"""C03: RandomEviction.evict picks `rng.choice(list(self._keys))` where `_keys` is a set[str]; the list
order is the set's iteration order, which depends on the per-process string hash seed.  So even with
an explicitly seeded policy (RandomEviction(seed=5)) the victim differs between interpreters.

Property clause that fails: same model + same seeds => identical deliveries and component statistics
"regardless of ... the interpreter's hash randomisation".

Model (run under the real engine): KVStore "db" pre-loaded with 30 string keys, CachedStore with
cache_capacity=4 and RandomEviction(seed=5), one client entity issuing 80 gets with keys from a seeded
random.Random(3).  Digest = completion time and hit/miss of every get, cache stats, final cached keys.
The script runs the model in fresh interpreters differing only in PYTHONHASHSEED and compares digests.

Run: /venv/bin/python /verif/repro/c03_random_eviction_set_order.py   (exit 1 = defect present)
     HS_ROOT=/path/to/tree to test another checkout.
"""
import hashlib
import json
import os
import subprocess
import sys

ROOT = os.environ.get("HS_ROOT", "/repo")


def child() -> None:
    sys.path.insert(0, ROOT)
    import random

    from happysimulator.components.datastore import CachedStore, KVStore, RandomEviction
    from happysimulator.core.entity import Entity
    from happysimulator.core.event import Event
    from happysimulator.core.simulation import Simulation
    from happysimulator.core.temporal import Instant

    random.seed(42)
    db = KVStore("db", read_latency=0.010, write_latency=0.010)
    for i in range(30):
        db.put_sync(f"user:{i}", i)
    cache = CachedStore("cache", backing_store=db, cache_capacity=4,
                        eviction_policy=RandomEviction(seed=5), cache_read_latency=0.001)
    log = []

    class Client(Entity):
        def handle_event(self, event):
            rng = random.Random(3)
            for _ in range(80):
                key = f"user:{rng.randrange(12)}"
                hits_before = cache.stats.hits
                yield from cache.get(key)
                log.append((round(self.now.to_seconds(), 6), key, cache.stats.hits > hits_before))

    client = Client("client")
    sim = Simulation(end_time=Instant.from_seconds(100), entities=[db, cache, client])
    sim.schedule(Event(time=Instant.from_seconds(1), event_type="go", target=client))
    sim.run()
    s = cache.stats
    summary = {"hits": s.hits, "misses": s.misses, "evictions": s.evictions,
               "end": log[-1][0], "cached": sorted(cache.get_cached_keys())}
    digest = hashlib.sha256(json.dumps([log, summary]).encode()).hexdigest()[:16]
    print(json.dumps({"digest": digest, **summary}))


def main() -> int:
    results = {}
    procs = {
        hs: subprocess.Popen([sys.executable, os.path.abspath(__file__), "--child"],
                             env=dict(os.environ, PYTHONHASHSEED=hs, HS_ROOT=ROOT),
                             stdout=subprocess.PIPE, stderr=subprocess.PIPE, text=True)
        for hs in ("1", "2", "3")
    }  # fresh interpreters, started concurrently
    for hs, p in procs.items():
        out, err = p.communicate()
        if p.returncode != 0:
            print(err)
            return 2
        results[hs] = json.loads(out.strip().splitlines()[-1])
        print(f"PYTHONHASHSEED={hs}: {results[hs]}")
    same = len({r["digest"] for r in results.values()}) == 1
    print("ok: identical run in every interpreter" if same
          else "DEFECT PRESENT: seeded RandomEviction run differs with PYTHONHASHSEED")
    return 0 if same else 1


if __name__ == "__main__":
    if "--child" in sys.argv:
        child()
    else:
        sys.exit(main())
