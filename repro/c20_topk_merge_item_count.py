"""C20_1 - TopK.merge() inflates item_count (N) when the merge evicts and re-adds an item.

Two shards of a request stream are summarised by two TopK(k=2) sketches (fed by the real
engine through SketchCollector entities) and then merged.  The merged sketch must describe
the concatenated stream, so its item_count (the N of the N/k guarantee) must be
len(stream_A) + len(stream_B).
"""
import os
import sys

sys.path.insert(0, os.environ.get("HS_ROOT", "/repo"))

from happysimulator import Event, Instant, Simulation  # noqa: E402
from happysimulator.components.sketching import SketchCollector  # noqa: E402
from happysimulator.sketching import TopK  # noqa: E402

STREAM_A = ["a"] + ["b"] * 5            # shard A sees a x1, b x5
STREAM_B = ["c"] * 3 + ["a"] * 4        # shard B sees c x3, a x4


def run_shards():
    shard_a = SketchCollector("shard_a", TopK(k=2), lambda e: e.context["item"])
    shard_b = SketchCollector("shard_b", TopK(k=2), lambda e: e.context["item"])
    sim = Simulation(
        start_time=Instant.from_seconds(0),
        end_time=Instant.from_seconds(100),
        entities=[shard_a, shard_b],
    )
    t = 1.0
    for target, stream in ((shard_a, STREAM_A), (shard_b, STREAM_B)):
        for item in stream:
            sim.schedule(
                Event(
                    time=Instant.from_seconds(t),
                    event_type="req",
                    target=target,
                    context={"item": item},
                )
            )
            t += 1.0
    sim.run()
    return shard_a.sketch, shard_b.sketch


def main() -> int:
    a, b = run_shards()
    print(f"shard A: {a.top()}  item_count={a.item_count}")
    print(f"shard B: {b.top()}  item_count={b.item_count}")
    expected = a.item_count + b.item_count
    assert expected == len(STREAM_A) + len(STREAM_B) == 13

    a.merge(b)
    tracked_sum = sum(e.count for e in a.top())
    print(f"merged : {a.top()}")
    print(f"merged item_count      = {a.item_count}")
    print(f"required (|A| + |B|)   = {expected}")
    print(f"sum of merged counters = {tracked_sum}  (Space-Saving: equals N)")
    print(f"guaranteed_threshold() = {a.guaranteed_threshold()}  (N/k, should be {expected // a.k})")

    if a.item_count != expected:
        print("VIOLATION: merged TopK reports an item_count that is not the size of the "
              "concatenated stream (counts of items evicted and re-added during merge() "
              "are added twice).")
        return 1
    print("OK: merged item_count equals the size of the concatenated stream.")
    return 0


if __name__ == "__main__":
    sys.exit(main())
