"""C17-3: chain replication (CRAQ mode) returns a value that is not yet committed at the tail.

Property clause (C17): "Chain replication: ... a read never returns a value not yet committed at
the tail."

With `craq_enabled=True` a non-tail `ChainNode` serves a Read locally unless the key is in
`_dirty_keys`.  Two flaws in how that marker is maintained:

  A. The marker is a set, not a per-write count.  With two writes to one key in flight, the tail's
     ack / CommitNotify for the FIRST write does `self._dirty_keys.discard(key)` although the
     SECOND write (already applied at this node) has not reached the tail.  A read in that window
     is served locally and returns the second, uncommitted value.
  B. `self._dirty_keys.add(key)` runs only AFTER `yield from self._store.put(key, value)` (in
     `_handle_write` and `_handle_propagate`), so while the store write is suspended the key still
     looks clean; a Read that arrives just before the write lands passes the dirty check, then its
     own `store.get` (1 ms) completes after the write landed and returns the uncommitted value.

Setup: chain head -> mid -> tail, every link 10 ms constant, KVStore write 5 ms / read 1 ms,
k = "v0" pre-loaded on every node.
  A. Write(k,"v1") at t=0.100, Write(k,"v2") at t=0.130, Read(k) at HEAD at t=0.150.
     v1 commits at the tail at 0.135, its ack reaches the head at 0.145 and clears the marker;
     v2 is applied at the head at 0.135 but reaches the tail only at 0.165.
  B. Write(k,"v1") at t=0.100 (lands on the head store at 0.105), Read(k) at HEAD at t=0.1045.
In both cases the client also samples the tail's store at the instant the reply arrives.

Run: /venv/bin/python /verif/repro/c17_3_craq_uncommitted_read.py   (exit 1 = defect present)
     HS_ROOT=/path/to/checkout to run against another tree.
"""
import os
import sys

sys.path.insert(0, os.environ.get("HS_ROOT", "/repo"))

from happysimulator import Event, Instant, Network, SimFuture, Simulation
from happysimulator.components.datastore import KVStore
from happysimulator.components.network.link import NetworkLink
from happysimulator.components.replication.chain_replication import build_chain
from happysimulator.core.entity import Entity
from happysimulator.distributions.constant import ConstantLatency


class Client(Entity):
    """Issues a Read to a chain node and records what the tail held when the reply arrived."""

    def __init__(self, name, tail):
        super().__init__(name)
        self.tail = tail
        self.reads = []

    def handle_event(self, event):
        return self._read(event.context["node"], event.context["key"])

    def _read(self, node, key):
        fut = SimFuture()
        t0 = self.now.to_seconds()
        req = Event(time=self.now, event_type="Read", target=node,
                    context={"metadata": {"key": key, "reply_future": fut}})
        yield 0.0, [req]
        resp = yield fut
        self.reads.append((t0, self.now.to_seconds(), node.name, resp["value"],
                           self.tail.store.get_sync(key)))


def run(label, writes, read_at):
    network = Network(name="net")
    nodes = build_chain(["head", "mid", "tail"], network,
                        lambda n: KVStore(n, write_latency=0.005, read_latency=0.001),
                        craq_enabled=True)
    for a in nodes:
        a.store.put_sync("k", "v0")
        for b in nodes:
            if a is not b:
                network.add_link(a, b, NetworkLink(name=f"{a.name}->{b.name}",
                                                   latency=ConstantLatency(0.010)))
    client = Client("client", nodes[-1])
    sim = Simulation(start_time=Instant.Epoch, end_time=Instant.from_seconds(5.0), sources=[],
                     entities=[*nodes, network, client, *[n.store for n in nodes]])
    acks = []
    for t, value in writes:
        fut = SimFuture()
        acks.append(fut)
        sim.schedule(Event(time=Instant.from_seconds(t), event_type="Write", target=nodes[0],
                           context={"metadata": {"key": "k", "value": value, "reply_future": fut}}))
    ev = Event(time=Instant.from_seconds(read_at), event_type="go", target=client)
    ev.context.update(node=nodes[0], key="k")
    sim.schedule(ev)
    sim.run()
    t0, t1, node, value, tail_value = client.reads[0]
    final = [n.store.get_sync("k") for n in nodes]
    uncommitted = value != tail_value
    print(f"[{label}] writes={writes} all acked={all(f.is_resolved for f in acks)}; Read(k) at {node} "
          f"issued t={t0:.4f} answered t={t1:.4f} -> {value!r}; tail held {tail_value!r} at that instant "
          f"(final stores {final}) -> {'UNCOMMITTED VALUE RETURNED' if uncommitted else 'ok'}")
    return uncommitted


bad = False
bad |= run("A two writes in flight ", [(0.100, "v1"), (0.130, "v2")], read_at=0.150)
bad |= run("B read races the write ", [(0.100, "v1")], read_at=0.1045)
print("DEFECT PRESENT: a CRAQ read returned a value not yet committed at the tail" if bad
      else "ok: reads only returned tail-committed values")
sys.exit(1 if bad else 0)
