"""C07-1 (additional site found by scanning): AsyncServer builds its "_process_cpu_queue" event before the
generator-based I/O phase and emits it after it, stamped in the past; the engine discards it and the CPU queue
is never drained again - every later request is accepted, queued and stuck forever.

Property clause (C07): "each event a component emits carries a timestamp no earlier than the instant at which it
is emitted, so the engine never has to discard it" (server family, non-zero latencies, contention).

`AsyncServer._on_cpu_complete`: `next_event = Event(time=self.now, event_type="_process_cpu_queue", ...)` is put
in `result_events`; when `io_handler` returns a generator, `io_wrapper()` does `result = yield from io_result`
(I/O wait) and only then returns `result + result_events` - `next_event` is older than the clock by the I/O time.

Schedule (real engine): AsyncServer(cpu work 10 ms constant, io_handler = generator waiting 100 ms);
3 requests arrive at 1.0 s (contention on the single CPU), a 4th at 2.0 s.  Expected: 4 completed.
Observed: 1 completed, "Time travel detected" once, the other 3 stay queued for the CPU forever
(active_connections == 3 at the end).

Run: /venv/bin/python /verif/repro/c07_1_async_server_stale_cpu_queue_event.py     (exit 1 = defect present)
     HS_ROOT=/path/to/tree to test another checkout.
"""
import logging
import os
import sys

sys.path.insert(0, os.environ.get("HS_ROOT", "/repo"))
from happysimulator.components.server.async_server import AsyncServer
from happysimulator.core.event import Event
from happysimulator.core.simulation import Simulation
from happysimulator.core.temporal import Instant
from happysimulator.distributions.constant import ConstantLatency


class Capture(logging.Handler):
    def __init__(self):
        super().__init__(level=logging.WARNING)
        self.msgs = []

    def emit(self, record):
        msg = record.getMessage()
        if "Time travel" in msg:
            self.msgs.append(msg)


cap = Capture()
sim_logger = logging.getLogger("happysimulator.core.simulation")
sim_logger.addHandler(cap)
sim_logger.setLevel(logging.WARNING)
sim_logger.propagate = False


def io_handler(event):
    yield 0.1  # I/O wait
    return None


server = AsyncServer("srv", max_connections=100, cpu_work_distribution=ConstantLatency(0.01), io_handler=io_handler)
sim = Simulation(end_time=Instant.from_seconds(10), entities=[server])
for t in (1.0, 1.0, 1.0, 2.0):
    sim.schedule(Event(time=Instant.from_seconds(t), event_type="req", target=server))
sim.run()

st = server.stats
print("stats:", st)
print("active connections at end:", server.active_connections)
print("time-travel drops:", len(cap.msgs))
for m in cap.msgs[:1]:
    print("   ", m)
bad = len(cap.msgs) > 0 or st.requests_completed != 4
print("DEFECT PRESENT: CPU queue stalled after a stale internal event" if bad else "ok: all 4 requests completed")
sys.exit(1 if bad else 0)
