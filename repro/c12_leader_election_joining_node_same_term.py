"""repro_2: LeaderElection terms are per-node counters, not agreed values.

Two scenarios on the real LeaderElection + BullyStrategy/RingStrategy, real
Simulation and Network (constant 1 ms links, no loss).  Election timeouts are
made huge and elections are triggered by explicitly scheduled events, so the
runs are deterministic.  After every scheduled step and at every observation
tick the script records (time, node, term, leader) and then checks the
property

    no two observations carry the same term with two different (non-None)
    leaders

both "at the same instant" and "over the whole history".

Scenario A (control): uniform, static membership {n-a,n-b,n-c} on every node,
    partition {n-a,n-b} | {n-c}, both sides run elections, heal, more
    elections.  Bully and Ring.  Expected: no violation is possible because
    with a uniform roster only the highest id can ever be named leader.

Scenario B: n-a and n-b form a running cluster (n-b elected, term 1 on both).
    n-c then joins: it is add_member()'ed on n-a and n-b (roster is uniform
    from that moment on) and runs its first election.  Its private term
    counter goes 0 -> 1 and, having the highest id, it declares itself leader
    for term 1 -- a term for which n-a and n-b report n-b.

Exit 1 when a same-term/different-leader pair is observed, else 0.
"""

import os
import sys

sys.path.insert(0, os.environ.get("HS_ROOT", "/repo"))

from happysimulator.components.consensus.election_strategies import (  # noqa: E402
    BullyStrategy,
    RingStrategy,
)
from happysimulator.components.consensus.leader_election import LeaderElection  # noqa: E402
from happysimulator.components.network.link import NetworkLink  # noqa: E402
from happysimulator.components.network.network import Network  # noqa: E402
from happysimulator.core.event import Event  # noqa: E402
from happysimulator.core.simulation import Simulation  # noqa: E402
from happysimulator.core.temporal import Instant  # noqa: E402
from happysimulator.distributions.constant import ConstantLatency  # noqa: E402

BIG = 1.0e6  # election timeout: never fires inside the run


def build(strategy_cls, rosters: dict[str, list[str]]):
    net = Network(name="net")
    nodes = {
        name: LeaderElection(name=name, network=net, strategy=strategy_cls(),
                             election_timeout=BIG, heartbeat_interval=0.5)
        for name in rosters
    }
    for name, roster in rosters.items():
        for m in roster:
            nodes[name].add_member(nodes[m])
    names = list(nodes)
    for i, a in enumerate(names):
        for b in names[i + 1:]:
            net.add_bidirectional_link(
                nodes[a], nodes[b],
                NetworkLink(name=f"l-{a}-{b}", latency=ConstantLatency(0.001), packet_loss_rate=0.0))
    return net, nodes


class Recorder:
    def __init__(self, nodes):
        self.nodes = nodes
        self.obs: list[tuple[float, str, int, str | None]] = []
        self.log: list[str] = []
        self.snaps: list[list[tuple[float, str, int, str | None]]] = []

    def snap(self, t: float, label: str) -> None:
        row = []
        snap = []
        for n in self.nodes.values():
            snap.append((t, n.name, n.current_term, n.current_leader))
            row.append(f"{n.name}=(term {n.current_term}, leader {n.current_leader})")
        self.obs.extend(snap)
        self.snaps.append(snap)
        self.log.append(f"t={t:8.4f} {label:<34} " + "  ".join(row))

    def violations(self):
        """Return (same-instant pairs, whole-history pairs), de-duplicated."""
        instant, history = [], []
        seen_inst = set()
        for snap in self.snaps:
            for i, (t, n0, term0, l0) in enumerate(snap):
                for (_, n1, term1, l1) in snap[i + 1:]:
                    if term0 == term1 and None not in (l0, l1) and l0 != l1:
                        key = (term0, n0, l0, n1, l1)
                        if key not in seen_inst:
                            seen_inst.add(key)
                            instant.append((term0, (t, n0, l0), (t, n1, l1)))
        first: dict[tuple[int, str], tuple[float, str]] = {}
        for t, node, term, leader in self.obs:
            if leader is not None:
                first.setdefault((term, leader), (t, node))
        by_term: dict[int, list[tuple[str, float, str]]] = {}
        for (term, leader), (t, node) in first.items():
            by_term.setdefault(term, []).append((leader, t, node))
        for term, items in sorted(by_term.items()):
            for i, (l0, t0, n0) in enumerate(items):
                for (l1, t1, n1) in items[i + 1:]:
                    history.append((term, (t0, n0, l0), (t1, n1, l1)))
        return instant, history


def run(strategy_cls, rosters, script, duration):
    """script: list of (time, label, fn(nodes, net) -> list[Event] | None)."""
    net, nodes = build(strategy_cls, rosters)
    rec = Recorder(nodes)
    sim = Simulation(start_time=Instant.Epoch, duration=duration, entities=[net, *nodes.values()])

    for t, label, fn in script:
        def step(e, fn=fn, label=label):
            out = fn(nodes, net) or []
            rec.snap(e.time.to_seconds(), label)
            return out
        sim.schedule(Event.once(time=Instant.from_seconds(t), event_type="Step", fn=step))
        # observe again once the 1 ms messages (and their replies) have landed
        sim.schedule(Event.once(time=Instant.from_seconds(t + 0.01), event_type="Obs",
                                fn=lambda e, label=label: rec.snap(e.time.to_seconds(),
                                                                   f"  after [{label}]") or []))
    sim.run()
    return rec


def elect(name):
    return lambda nodes, net: nodes[name]._start_election()


def scenario_a(strategy_cls):
    full = ["n-a", "n-b", "n-c"]
    rosters = {n: full for n in full}
    state = {}

    def part(nodes, net):
        state["p"] = net.partition([nodes["n-a"], nodes["n-b"]], [nodes["n-c"]])

    def heal(nodes, net):
        net.heal_partition()

    script = [
        (1.0, "partition {a,b}|{c}", part),
        (2.0, "n-a starts election", elect("n-a")),
        (2.0, "n-c starts election", elect("n-c")),
        (3.0, "n-b starts election", elect("n-b")),
        (4.0, "heal", heal),
        (5.0, "n-a starts election", elect("n-a")),
        (6.0, "n-b starts election", elect("n-b")),
        (7.0, "n-c starts election", elect("n-c")),
    ]
    return run(strategy_cls, rosters, script, 8.0)


def scenario_b():
    rosters = {"n-a": ["n-a", "n-b"], "n-b": ["n-a", "n-b"], "n-c": ["n-a", "n-b", "n-c"]}

    def join_and_elect(nodes, net):
        nodes["n-a"].add_member(nodes["n-c"])
        nodes["n-b"].add_member(nodes["n-c"])
        return nodes["n-c"]._start_election()

    script = [
        (1.0, "n-b starts election (cluster {a,b})", elect("n-b")),
        (2.0, "n-c joins (add_member) + elects", join_and_elect),
    ]
    return run(BullyStrategy, rosters, script, 3.0)


def report(title, rec) -> bool:
    print(f"=== {title} ===")
    for line in rec.log:
        print(line)
    instant, history = rec.violations()
    for kind, items in (("SAME INSTANT", instant), ("HISTORY", history)):
        for term, (t0, n0, l0), (t1, n1, l1) in items:
            print(f"  VIOLATION [{kind}] term {term}: {n0}@t={t0:.4f} reports leader {l0}, "
                  f"{n1}@t={t1:.4f} reports leader {l1}")
    if not instant and not history:
        print("  no same-term/different-leader pair")
    return bool(instant or history)


def main() -> int:
    bad_a = report("Scenario A / Bully: uniform roster, partition, both sides elect", scenario_a(BullyStrategy))
    bad_a |= report("Scenario A / Ring: uniform roster, partition, both sides elect", scenario_a(RingStrategy))
    bad_b = report("Scenario B / Bully: n-c joins a cluster whose term counter is already at 1", scenario_b())
    print()
    print(f"scenario A (uniform static roster) violated: {bad_a}")
    print(f"scenario B (joining node, private term counter) violated: {bad_b}")
    return 1 if (bad_a or bad_b) else 0


if __name__ == "__main__":
    sys.exit(main())
