"""C07 — no library component emits an event into the past or spins at a frozen clock (structural clauses)."""

from __future__ import annotations

import ast

from ..astutil import calls_in, path_of, unparse, walk_scope, walk_stmts
from ..report import Ctx
from ..suspend import StaleTime, emission_calls, event_class_names, is_time_source, node_suspension, time_bases, zero_delay_wait_loops
from .common import expand, need, single_defs

SCOPE = ("happysimulator/components/", "happysimulator/faults/", "happysimulator/load/", "happysimulator/core/",
         "happysimulator/instrumentation/", "happysimulator/parallel/")

EXPLANATION = (
    "Whole-package suspension-aware def-use analysis of every function in components/, faults/, load/, core/, instrumentation/, "
    "parallel/: (1) a value read from a time source (self.now, clock.now, the handled event's .time) before a clock-advancing "
    "suspension (yield of a non-zero delay / future, yield from a suspending callee) must not reach an Event(time=...) argument "
    "after it as the timestamp itself; (2) no emission timestamp is `now - x`; (3) no wait loop whose only suspensions are "
    "constant-zero delays and whose exit condition is not written by the loop body (the clock can never reach the release). "
    "Every Event construction site's time argument is classified and the histogram reported."
)
RULE_TEXT = (
    "One instance per generator function that both suspends and constructs events (stale-time rule), one per emission site with a "
    "subtraction on a time source, one per generator loop that contains a suspension (wait-loop rule). Distinct by (rule, function, construct)."
)
NOT_DECIDED = [
    "non-negativity of configured latencies / sampled distributions (assumed >= 0)",
    "stale base plus a delay (`captured_now + d` after a suspension): counted in the histogram, not failed — whether it lies in the past depends on run-time durations",
    "unbounded same-instant event chains across several entities",
]
ASSUMPTIONS = ["a constant-zero delay cannot advance the clock; any other suspension may", "handlers named with an `event` parameter receive the delivered event (its .time equals now at entry)"]


def _computed_delay(fn, t: ast.AST, event_params) -> str | None:
    """Source text of the delay added to a fresh base when that delay is computed by subtraction or min() without a positive floor."""
    from ..suspend import is_time_source as its

    def expand(e, depth=0):
        if depth > 6:
            return e
        if isinstance(e, ast.Name) and e.id not in fn.params():
            defs = [s_.value for s_ in walk_stmts(fn.node.body) if isinstance(s_, (ast.Assign, ast.AnnAssign)) and s_.value is not None
                    and any(path_of(t_) == e.id for t_ in (s_.targets if isinstance(s_, ast.Assign) else [s_.target]))]
            if len(defs) == 1:
                return expand(defs[0], depth + 1)
        return e

    def delay_of(e):
        e = expand(e)
        if isinstance(e, ast.BinOp) and isinstance(e.op, ast.Add):
            for base, d in ((e.left, e.right), (e.right, e.left)):
                if any(its(n, event_params) for n in walk_scope(expand(base))):
                    return d
        if isinstance(e, ast.Call) and (path_of(e.func) or "").split(".")[-1] in ("from_seconds",) and e.args:
            return delay_of(e.args[0])
        return None

    d = delay_of(t)
    if d is None:
        return None
    d = expand(d)
    while isinstance(d, ast.Call) and (path_of(d.func) or "").split(".")[-1] in ("from_seconds", "Duration", "float") and d.args:
        d = expand(d.args[0])
    if isinstance(d, ast.Call) and path_of(d.func) == "max" and any(isinstance(a, ast.Constant) and isinstance(a.value, (int, float)) and a.value > 0 for a in d.args):
        return None
    risky = False
    for n in walk_scope(d):
        n2 = expand(n) if isinstance(n, ast.Name) else n
        for m in walk_scope(n2):
            if isinstance(m, ast.BinOp) and isinstance(m.op, ast.Sub):
                risky = True
            if isinstance(m, ast.Call) and path_of(m.func) == "min":
                risky = True
    return unparse(d) if risky else None


def _delay_part(v: ast.AST) -> ast.AST:
    return v.elts[0] if isinstance(v, ast.Tuple) and v.elts else v


def _unfloored(e: ast.AST, sd) -> str | None:
    """The delay expression (single definitions expanded) can evaluate to zero although it is not the constant 0: a `min(...)` with a
    non-constant argument or a subtraction, with no positive floor (`max(<positive constant>, ...)`) above it."""
    e = expand(_delay_part(e), sd)
    while isinstance(e, ast.Call) and (path_of(e.func) or "").split(".")[-1] in ("float", "from_seconds", "Duration") and e.args:
        e = e.args[0]
    if isinstance(e, ast.Call) and path_of(e.func) == "max" and any(isinstance(a, ast.Constant) and isinstance(a.value, (int, float)) and a.value > 0 for a in e.args):
        return None
    if isinstance(e, ast.Call) and path_of(e.func) == "min" and not all(isinstance(a, ast.Constant) for a in e.args):
        return unparse(e)
    if isinstance(e, ast.BinOp) and isinstance(e.op, ast.Sub):
        return unparse(e)
    return None


def _spine_subs(e: ast.AST) -> list[tuple[ast.BinOp, bool]]:
    """Subtractions on the arithmetic spine of a delay expression with whether a `max(0-or-more, …)` clamps them from above."""
    out = []

    def rec(x, clamped):
        if isinstance(x, ast.BinOp):
            if isinstance(x.op, ast.Sub):
                out.append((x, clamped))
                rec(x.left, clamped)
                return  # the subtrahend's sign is reversed: a subtraction inside it adds
            if isinstance(x.op, (ast.Add, ast.Mult, ast.Div)):
                rec(x.left, clamped)
                rec(x.right, clamped)
        elif isinstance(x, ast.Call) and path_of(x.func) == "max" and any(isinstance(a, ast.Constant) and isinstance(a.value, (int, float)) and a.value >= 0 for a in x.args):
            for a in x.args:
                rec(a, True)
        elif isinstance(x, ast.Call) and (path_of(x.func) or "").split(".")[-1] in ("float", "min", "from_seconds", "abs") and x.args:
            if (path_of(x.func) or "").split(".")[-1] != "abs":
                for a in x.args:
                    rec(a, clamped)
        elif isinstance(x, ast.IfExp):
            rec(x.body, clamped)
            rec(x.orelse, clamped)
    rec(e, False)
    return out


def run(ctx: Ctx) -> None:
    prog = ctx.prog
    ev_names = event_class_names(prog)
    # attributes that hold recorded instants: somewhere they are assigned a value whose base is a fresh time source
    ts_attrs: set[str] = set()
    for fn in prog.all_functions("happysimulator/"):
        if not fn.module.relpath.startswith(SCOPE):
            continue
        evp = {p for p in fn.params() if p in ("event", "evt", "ev", "request_event")}
        for st in walk_stmts(fn.node.body):
            if isinstance(st, (ast.Assign, ast.AnnAssign)) and st.value is not None:
                for t in (st.targets if isinstance(st, ast.Assign) else [st.target]):
                    if isinstance(t, ast.Attribute) and "fresh" in time_bases(fn, st.value, evp):
                        ts_attrs.add(t.attr)
        for c in [x for x in walk_scope(fn.node, include_root=False) if isinstance(x, ast.Call)]:
            last = (path_of(c.func) or "").split(".")[-1]
            if last.lstrip("_")[:1].isupper() and last not in ev_names:
                for k in c.keywords:
                    if k.arg and "fresh" in time_bases(fn, k.value, evp):
                        ts_attrs.add(k.arg)
        # keys of context / metadata dict literals filled with the current time (`{"created_at": self.now}`) and `d["k"] = <now>` stores
        for d_ in [x for x in walk_scope(fn.node, include_root=False) if isinstance(x, ast.Dict)]:
            for k_, v_ in zip(d_.keys, d_.values):
                if isinstance(k_, ast.Constant) and isinstance(k_.value, str) and "fresh" in time_bases(fn, v_, evp):
                    ts_attrs.add(k_.value)
        for st in walk_stmts(fn.node.body):
            if isinstance(st, ast.Assign) and isinstance(st.targets[0], ast.Subscript) and isinstance(st.targets[0].slice, ast.Constant) \
                    and isinstance(st.targets[0].slice.value, str) and "fresh" in time_bases(fn, st.value, evp):
                ts_attrs.add(st.targets[0].slice.value)
    ts_attrs -= {"time", "now"}
    ctx.stats["timestamp_attributes"] = len(ts_attrs)
    need(len(ts_attrs) >= 20, f"C07-5: only {len(ts_attrs)} timestamp-holding attributes recognised")
    hist: dict[str, int] = {}
    n_sites = 0
    n_gen = 0
    stale_fns = 0
    loops_seen = 0
    for fn in prog.all_functions("happysimulator/"):
        if not fn.module.relpath.startswith(SCOPE):
            continue
        ems = emission_calls(prog, fn, ev_names)
        is_gen = fn.is_generator
        if is_gen:
            n_gen += 1
        # ---- emission classification + `now - x`
        event_params = {p for p in fn.params() if p in ("event", "evt", "ev", "request_event")}
        st_uses = {}
        if is_gen:
            ff = ctx.flow(fn)
            stt = StaleTime(prog, fn, ff.cfg, ev_names)
            st_uses = {id(u.call): u for u in stt.uses}
            advancing = any(node_suspension(prog, fn, n) == "advance" for n in ff.cfg.nodes if n.kind in ("stmt", "test", "for", "with"))
            if advancing:
                stale_fns += 1
                definite = [u for u in stt.uses if u.exact or u.kind == "object"]
                if not definite:
                    ctx.ob("C07-1", "G5", fn, None, True,
                           f"{len(ems)} emission site(s) after/around suspensions: no timestamp is a time value captured before a clock-advancing suspension")
                for u in definite:
                    ctx.ob("C07-1", "G5", fn, f"Event(time={unparse(u.time_expr)})", False,
                           f"stale emission time: `{u.var}` was read from a time source before a clock-advancing suspension and is used as the "
                           f"timestamp of `{unparse(u.call.func)}(time={unparse(u.time_expr)}, …)` after it — the event is stamped in the past and the "
                           "engine discards it (\"Time travel detected\")", node=u.call)
        for c, t in ems:
            n_sites += 1
            cls = "other"
            if t is None:
                cls = "no-time-arg"
            elif id(c) in st_uses:
                cls = "stale-" + st_uses[id(c)].kind
            else:
                srcs = [n for n in walk_scope(t) if is_time_source(n, event_params)]
                tp = path_of(t)
                if srcs and (tp is not None or isinstance(t, ast.IfExp)):
                    cls = "fresh-now"
                elif srcs:
                    cls = "fresh-now+expr"
                elif tp is not None and tp in fn.params():
                    cls = "parameter"
                elif tp is not None:
                    cls = "local/attr"
                else:
                    cls = "expression"
            hist[cls] = hist.get(cls, 0) + 1
            # C07-5: a timestamp derived from a *recorded* instant (not re-read from the clock, not clamped by max(now, …))
            if t is not None and not fn.module.relpath.startswith("happysimulator/core/"):
                bases = time_bases(fn, t, event_params)
                stored = sorted(b for b in bases if b.startswith("stored:") and b.split(".")[-1] in ts_attrs)
                if stored:
                    ctx.ob("C07-5", "G7", fn, f"Event(time={unparse(t)})", False,
                           f"emission timestamp `{unparse(t)}` can be based on the recorded instant {stored} (captured at some earlier event) instead of the current "
                           "time: whenever more time has passed than the added delay the event is stamped in the past", node=c)
                # C07-4: an event an entity schedules to itself must lie strictly ahead unless it is a one-off: a delay computed by
                # subtraction / min() can reach zero and re-deliver at the same instant without bound
                tgt = [path_of(k.value) for k in c.keywords if k.arg == "target"]
                if tgt == ["self"] and "fresh" in bases:
                    delay_txt = _computed_delay(fn, t, event_params)
                    if delay_txt:
                        ctx.ob("C07-4", "G5", fn, f"Event(time={unparse(t)}) [self-reschedule]", False,
                               f"the entity re-schedules itself after `{delay_txt}`, a delay computed by subtraction/min() with no positive floor: it can truncate to zero "
                               "nanoseconds and the run then delivers at one frozen instant forever", node=c)
            # now - x anywhere
            if t is not None:
                for n in walk_scope(t):
                    if isinstance(n, ast.BinOp) and isinstance(n.op, ast.Sub) and any(is_time_source(x, event_params) for x in walk_scope(n.left)) \
                            and not any(is_time_source(x, event_params) for x in walk_scope(n.right)):
                        ctx.ob("C07-2", "G5", fn, f"Event(time={unparse(t)})", False,
                               f"emission timestamp `{unparse(t)}` subtracts from the current time: the event is stamped in the past", node=c)
        # ---- wait loops
        if is_gen:
            has_loop_yield = False
            for st in walk_stmts(fn.node.body):
                if isinstance(st, (ast.While,)) and any(isinstance(n, (ast.Yield, ast.YieldFrom)) for b in st.body for n in walk_scope(b)):
                    has_loop_yield = True
            if has_loop_yield:
                loops_seen += 1
                sd_ = single_defs(fn)
                wl = zero_delay_wait_loops(prog, fn, may_be_zero=lambda e_, sd_=sd_: _unfloored(e_, sd_) is not None)
                if not wl:
                    ctx.ob("C07-3", "G5", fn, None, True, "every suspending while-loop can let simulated time pass or makes its own progress")
                for w in wl:
                    ctx.ob("C07-3", "G5", fn, w.loop, False,
                           f"zero-delay wait loop: `while {unparse(w.loop.test)}` only ever yields a delay that is or can be 0 ({', '.join(sorted({unparse(_delay_part(y.value)) for y in w.yields if y.value is not None}))}; a min()/difference without a positive floor) and nothing in its body changes the "
                           "condition, so the waiter re-runs at the same instant forever and the clock never reaches the event that would release it")
    ctx.ob("C07-5", "G7", None, "package-wide recorded-instant scan", True, f"{n_sites} emission sites checked against {len(ts_attrs)} timestamp-holding attributes", relpath="happysimulator/")
    ctx.ob("C07-4", "G5", None, "package-wide self-reschedule scan", True, "every self-targeted emission has a configured / clamped delay", relpath="happysimulator/")
    ctx.stats["emission_sites"] = n_sites
    ctx.stats["generators_scanned"] = n_gen
    ctx.stats["emission_time_histogram"] = hist  # type: ignore[assignment]
    need(n_sites >= 180, f"C07: only {n_sites} Event construction sites found (203 confirmed by hand) — scan scope broken?")
    need(n_gen >= 110, f"C07: only {n_gen} generator functions scanned")
    ctx.ob("C07-2", "G5", None, "package-wide `now - x` scan", True, f"{n_sites} Event construction sites classified: {hist}", relpath="happysimulator/")
    # C07-6: a delay accumulated from several sampled terms (base latency + jitter + ...) is clamped at 0 where it leaves the function: a
    # negative total would stamp the continuation in the past
    n_acc = 0
    for fn in prog.all_functions("happysimulator/"):
        if not fn.module.relpath.startswith(SCOPE):
            continue
        acc = {path_of(st.target) for st in walk_stmts(fn.node.body) if isinstance(st, ast.AugAssign) and isinstance(st.op, (ast.Add, ast.Sub)) and isinstance(st.target, ast.Name)
               and any(isinstance(c, ast.Call) and isinstance(c.func, ast.Attribute) and c.func.attr in ("get_latency", "sample") for c in ast.walk(st.value))}
        for a in sorted(acc):
            outs = [st.value for st in walk_stmts(fn.node.body) if isinstance(st, ast.Return) and st.value is not None and a in {x.id for x in ast.walk(st.value) if isinstance(x, ast.Name)}]
            outs += [y.value for y in ast.walk(fn.node) if isinstance(y, ast.Yield) and y.value is not None and a in {x.id for x in ast.walk(y.value) if isinstance(x, ast.Name)}]
            for o in outs:
                n_acc += 1
                ok = isinstance(o, ast.Call) and path_of(o.func) == "max" and any(isinstance(x, ast.Constant) and x.value == 0 for x in o.args)
                ctx.ob("C07-6", "G6", fn, o, ok, f"{fn.qual}: the delay `{a}` summed from sampled terms leaves the function as max(0, {a}) (a jitter sample below −latency must not yield a negative delay)")
    need(n_acc >= 1, "C07-6: no accumulated sampled delay found (expected NetworkLink._calculate_delay)")
    # C07-8: a yielded delay that is a difference is provably non-negative where it is computed: clamped by max(0, …) or guarded by the
    # comparison of its two operands on every path.  A negative delay stamps the continuation in the past; the engine drops it and the
    # process silently stops.
    n_sub = 0
    for fn in prog.all_functions("happysimulator/"):
        if not fn.module.relpath.startswith(SCOPE) or not fn.is_generator:
            continue
        sd = single_defs(fn)
        ff = None
        for y in [x for x in walk_scope(fn.node, include_root=False) if isinstance(x, ast.Yield) and x.value is not None]:
            raw = _delay_part(y.value)
            e = expand(raw, sd)
            for sub, clamped in _spine_subs(e):
                n_sub += 1
                ok = clamped
                if not ok:
                    ff = ff or ctx.flow(fn)
                    # the statement in which the difference is evaluated: the yield itself or the single definition it came from
                    holder = None
                    for st in walk_stmts(fn.node.body):
                        if not isinstance(st, (ast.If, ast.While, ast.For, ast.Try, ast.With, ast.FunctionDef)) and \
                                any(isinstance(x, ast.BinOp) and isinstance(x.op, ast.Sub) and unparse(x) == unparse(sub) for x in ast.walk(st)):
                            holder = st
                    node = next((x for x in ff.cfg.nodes if x.kind == "stmt" and x.ast is holder), None) if holder is not None else None
                    l_, r_ = unparse(sub.left), unparse(sub.right)
                    if node is not None:
                        have = set(ff.facts_at(node).keys())
                        ok = ("lt", r_, l_) in have or ("le", r_, l_) in have
                ctx.ob("C07-8", "G5", fn, y, ok, f"{fn.qual}: the yielded delay `{unparse(raw)}` contains the difference `{unparse(sub)}`; it is clamped by max(0, …) or computed only "
                       f"where `{unparse(sub.right)} <= {unparse(sub.left)}` is known — otherwise the continuation is stamped in the past and dropped")
    need(n_sub >= 1, "C07-8: no yielded difference found (expected WriteAheadLog.append's wait for the in-flight fsync)")
    # C07-9: no emission timestamp is derived from the current time by float multiplication / division / floor / modulo ("next grid point"
    # arithmetic in seconds): `(now // i + 1) * i` can truncate onto the current nanosecond, and a tick that re-arms itself that way spins.
    n_grid = 0
    for fn in prog.all_functions("happysimulator/"):
        if not fn.module.relpath.startswith(SCOPE):
            continue
        sd = None
        evp = {p for p in fn.params() if p in ("event", "evt", "ev", "request_event")}
        for c, t in emission_calls(prog, fn, ev_names):
            if t is None:
                continue
            sd = sd if sd is not None else single_defs(fn)
            e = expand(t, sd)
            bad = [m for m in ast.walk(e) if isinstance(m, ast.BinOp) and isinstance(m.op, (ast.FloorDiv, ast.Mod, ast.Mult, ast.Div))
                   and any(is_time_source(x, evp) for x in walk_scope(m)) and "to_seconds" in unparse(m)]
            n_grid += 1
            if bad:
                ctx.ob("C07-9", "G5", fn, f"Event(time={unparse(t)})", False,
                       f"emission timestamp `{unparse(e)[:120]}` is computed from the current time in float seconds by `{unparse(bad[0])[:80]}` (grid arithmetic): the result can "
                       "truncate onto or before the current nanosecond — align ticks in integer nanoseconds, or add a positive delay to now", node=c)
    ctx.ob("C07-9", "G5", None, "package-wide grid-arithmetic scan", True, f"{n_grid} emission timestamps: none is a float multiple/quotient/remainder of the current time", relpath="happysimulator/")
    # C07-7: a tick that is re-armed by searching the schedule for the next boundary searches strictly after the boundary it just handled
    ss = prog.func("happysimulator/components/industrial/shift_schedule.py", "ShiftedServer._handle_shift_change")
    calls = [c for c in calls_in(ss.node) if path_of(c.func) == "self._schedule_next_shift"]
    ok = len(calls) == 1 and any(k.arg == "after_s" for k in calls[0].keywords)
    if ok:
        v = [k.value for k in calls[0].keywords if k.arg == "after_s"][0]
        src = [st for st in walk_stmts(ss.node.body) if isinstance(st, ast.Assign) and path_of(st.targets[0]) == path_of(v)]
        val = expand(src[0].value, single_defs(ss)) if len(src) == 1 else None
        ok = len(src) == 1 and isinstance(val, ast.Call) and path_of(val.func) == "max" and "boundary_s" in unparse(val) and "self.now.to_seconds()" in unparse(val)
    sn = prog.func("happysimulator/components/industrial/shift_schedule.py", "ShiftedServer._schedule_next_shift")
    txt = unparse(sn.node)
    ok2 = "self.now.to_seconds() if after_s is None else after_s" in txt and "self.schedule.next_transition_after(current_s)" in txt and "'boundary_s': next_t" in txt
    ctx.ob("C07-7", "G5", ss, calls[0] if calls else None, ok and ok2,
           "ShiftedServer re-arms its shift-change tick by searching after max(now, the boundary just handled) — the clock is the boundary truncated to ns and may lie just before it, which would find the same boundary again and spin")
    ctx.floor("C07-1", 10)
    ctx.floor("C07-3", 5)


MQ_ = "happysimulator/components/messaging/message_queue.py"
GC_ = "happysimulator/components/infrastructure/garbage_collector.py"
CAN_ = "happysimulator/components/deployment/canary_deployer.py"
DB_ = "happysimulator/components/datastore/database.py"
PC_ = "happysimulator/components/client/pooled_client.py"
CP_ = "happysimulator/components/client/connection_pool.py"
MUTANTS = [
    ("pooled-client-release-events-returned-after-retry-wait", PC_, ["            yield delay, release_events\n", "            return [retry_event]\n"], ["            yield delay\n", "            return [retry_event] + release_events\n"], "C07-1"),
    ("pool-warmup-returns-idle-checks-at-the-end", CP_, ['        """Create minimum connections."""\n        while self._total_connections', "            yield 0.0, [timeout_event]\n", "        return None\n\n    def _handle_idle_timeout"],
     ['        """Create minimum connections."""\n        events = []\n        while self._total_connections', "            events.append(timeout_event)\n", "        return events if events else None\n\n    def _handle_idle_timeout"], "C07-1"),
    ("db-connection-poll-can-be-zero", DB_, "        while not acquired[0]:\n            yield 0.01  # Poll interval\n", "        poll_interval = min(0.01, self._connection_latency)\n        while not acquired[0]:\n            yield poll_interval\n", "C07-3"),
    ("warmer-pause-minus-fetch-time", "happysimulator/components/datastore/cache_warming.py", "            yield inter_key_delay\n", "            yield inter_key_delay - self._fetch_latency_s\n", "C07-8"),
    ("wal-wait-without-guard", "happysimulator/components/storage/wal.py", "        elif self.now.nanoseconds < self._sync_busy_until_ns:\n", "        else:\n", "C07-8"),
    ("watermark-tick-on-float-grid", "happysimulator/components/streaming/stream_processor.py", "            next_time = Instant.from_seconds(self.now.to_seconds() + self._watermark_interval_s)", "            next_time = Instant.from_seconds((self.now.to_seconds() // self._watermark_interval_s + 1) * self._watermark_interval_s)", "C07-9"),
    ("link-delay-clamps-base-only", "happysimulator/components/network/link.py", ["        delay = self.latency.get_latency(self.now).to_seconds()\n", "        return max(0.0, delay)"], ["        delay = max(0.0, self.latency.get_latency(self.now).to_seconds())\n", "        return delay"], "C07-6"),
    ("shift-rearm-from-truncated-clock", "happysimulator/components/industrial/shift_schedule.py", "        next_event = self._schedule_next_shift(after_s=time_s)", "        next_event = self._schedule_next_shift()", "C07-7"),
    ("delivery-stamped-before-latency", MQ_, "        delivery_event = Event(\n            time=self._clock.now if self._clock else Instant.Epoch,\n            event_type=\"message_delivery\",", "        delivery_event = Event(\n            time=now,\n            event_type=\"message_delivery\",", "C07-1"),
    ("gc-next-collection-built-before-pause", GC_, "            pause = self._do_collect()\n            yield pause\n            return [self._schedule_next()]", "            pause = self._do_collect()\n            next_collection = self._schedule_next()\n            yield pause\n            return [next_collection]", "C07-1"),
    ("canary-wait-can-be-zero", CAN_, "        # Continue evaluating\n        return [\n            Event(\n                time=self.now + Duration.from_seconds(self._evaluation_interval),", "        wait = min(self._evaluation_interval, stage.evaluation_period - elapsed)\n        return [\n            Event(\n                time=self.now + Duration.from_seconds(wait),", "C07-4"),
    ("redelivery-from-stored-timestamp", MQ_, "        redelivery_time = Instant.from_seconds(now.to_seconds() + self._redelivery_delay)", "        delivered_at = msg.last_delivered_at or now\n        redelivery_time = delivered_at + self._redelivery_delay", "C07-5"),
    ("mutex-polls-at-zero-delay", "happysimulator/components/sync/mutex.py", "        while not acquired.is_resolved:\n            yield acquired\n", "        while not acquired.is_resolved:\n            yield 0.0\n", "C07-3"),
]
REFACTORS = [
    ("gc-pause-inlined", GC_, "            pause = self._do_collect()\n            yield pause\n", "            yield self._do_collect()\n"),
    ("delivery-clock-read-hoisted-after-latency", MQ_, "        delivery_event = Event(\n            time=self._clock.now if self._clock else Instant.Epoch,\n            event_type=\"message_delivery\",", "        delivered_at = self._clock.now if self._clock else Instant.Epoch\n        delivery_event = Event(\n            time=delivered_at,\n            event_type=\"message_delivery\","),
]
