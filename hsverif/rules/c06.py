"""C06 — injected faults act exactly during their windows and isolate only their target (structural clauses)."""

from __future__ import annotations

import ast

from ..astutil import calls_in, norm_stmt, path_of, unparse, walk_scope, walk_stmts
from ..cfg import own_exprs
from ..facts import Fact, atoms, enumerate_paths
from ..report import Ctx
from .common import always_before, expand, guard, increment_of, need, node_of, single_defs, stmts_matching

EV = "happysimulator/core/event.py"
NODE = "happysimulator/faults/node_faults.py"
NETF = "happysimulator/faults/network_faults.py"
RESF = "happysimulator/faults/resource_faults.py"
SCHED = "happysimulator/faults/schedule.py"
FAULT = "happysimulator/faults/fault.py"
NET = "happysimulator/components/network/network.py"
QR = "happysimulator/components/queued_resource.py"

EXPLANATION = (
    "Crash discipline as sibling agreement over the Event hierarchy (every invoke consults the target's crash flag before it "
    "touches a handler or a generator); overlap composability of every fault's activation/deactivation closures (no boolean "
    "set/clear, no absolute restore of a value captured when the schedule was built, no set difference on shared sets — only "
    "counted / layered / recomputed-from-active-set forms); shape rules of the bookkeeping helpers those closures call (window "
    "counter, active-extras list, active-factor list with available moved by the same delta, active-partition list); activation/"
    "deactivation symmetry; cancel coverage of fault handles; crash-flag aliasing of queue-fronted targets."
)
RULE_TEXT = "Instances: per invoke sibling, per fault closure write, per helper clause, per handle clause. Distinct by (rule, construct)."
NOT_DECIDED = ["exact activation instants (user-supplied floats)", "bystander isolation beyond 'closures write only objects resolved from their own target names'",
               "RandomPartition: events pushed later through the active heap are not recorded on the handle (cancel after the first cycle has no effect; the property only promises cancel before activation)"]
ASSUMPTIONS = ["fault closures run atomically (they are Event.once callbacks)"]


def rule_crash_discipline(ctx: Ctx) -> None:
    prog = ctx.prog
    ev = prog.cls(EV, "Event")
    n = 0
    for c in [ev] + prog.subclasses(ev):
        inv = c.methods.get("invoke")
        if inv is None:
            continue
        ff = ctx.flow(inv)
        dispatch = [x for x in calls_in(inv.node) if isinstance(x.func, ast.Attribute) and x.func.attr in ("handle_event", "send", "throw", "__next__")
                    and (path_of(x.func.value) or "").startswith("self.")]
        if not dispatch:
            continue
        for d in dispatch:
            n += 1
            node = node_of(ff.cfg, d)
            ok = ff.holds_at(node, Fact("falsy", "getattr(self.target, '_crashed', False)")) or ff.holds_at(node, Fact("falsy", "self.target._crashed"))
            ctx.ob("C06-1", "G4", inv, d, ok,
                   f"{c.name}.invoke must consult the target's crash flag before `{unparse(d.func)}` — while crashed/paused no handler runs and no in-flight "
                   "process advances" + ("" if ok else f"; facts here: {ff.describe(node)}"))
        # the crashed branch returns an empty list and does nothing else
        bad = []
        for p in enumerate_paths(ff, ff.cfg.entry):
            crashed = p.decided(lambda t: "_crashed" in t)
            if crashed is True:
                rets = [x.ast for x in p.nodes if x.kind == "stmt" and isinstance(x.ast, ast.Return)]
                calls = [unparse(cc.func) for x in p.nodes if x.kind == "stmt" for cc in calls_in(x.ast)]
                if not rets or not (isinstance(rets[-1].value, ast.List) and not rets[-1].value.elts) or calls:
                    bad.append(f"crashed path [{p.describe()}] returns {unparse(rets[-1].value) if rets else None} / calls {calls}")
        ctx.ob("C06-1", "G1", inv, "crashed ⇒ return []", not bad, f"{c.name}.invoke on a crashed target emits nothing and runs nothing" + ("" if not bad else ": " + "; ".join(bad[:2])))
    need(n >= 2, f"C06-1: only {n} dispatch site(s) found in the Event hierarchy")
    # who may write the crash flag, and in which form
    writes = []
    for fn in prog.all_functions("happysimulator/"):
        for st in walk_stmts(fn.node.body):
            if isinstance(st, (ast.Assign, ast.AugAssign)):
                for t in (st.targets if isinstance(st, ast.Assign) else [st.target]):
                    if isinstance(t, ast.Attribute) and t.attr == "_crashed":
                        writes.append((fn, st))
    need(writes, "C06-1: nobody writes `_crashed`")
    for fn, st in writes:
        v = st.value
        obj = path_of(st.targets[0].value) if isinstance(st, ast.Assign) else None
        if isinstance(v, ast.Constant) and v.value is True:
            # entering a window: must count it in the same function
            counted = any(isinstance(s2, ast.Assign) and isinstance(s2.targets[0], ast.Attribute) and s2.targets[0].attr == "_down_windows"
                          and "+ 1" in unparse(s2.value) for s2 in walk_stmts(fn.node.body)) or any(
                increment_of(s2, f"{obj}._down_windows") == 1 for s2 in walk_stmts(fn.node.body))
            ctx.ob("C06-3", "G6", fn, st, counted, "setting the crash flag must count the window (overlapping crash/pause windows compose)")
        elif isinstance(v, ast.Constant):
            ctx.ob("C06-3", "G6", fn, st, False,
                   "the crash flag is cleared unconditionally: with overlapping crash/pause windows the first one to end brings the entity back although another still covers it")
        else:
            f = atoms(v, True)
            ok = len(f) == 1 and f[0].op == "lt" and f[0].a == "0" and f[0].b.endswith("._down_windows")
            if not ok and len(f) == 1 and f[0].op == "lt" and f[0].a == "0" and obj is not None:
                # `n = <new count>; obj._down_windows = n; obj._crashed = n > 0`: the compared local is the count just stored
                ffw = ctx.flow(fn)
                ok = ffw.same_value(node_of(ffw.cfg, st), f[0].b, f"{obj}._down_windows")
                if not ok:
                    # or: the local and the stored count are computed by the same expression in adjacent statements
                    body = fn.node.body
                    for i_, s1 in enumerate(body[:-1]):
                        s2 = body[i_ + 1]
                        if isinstance(s1, ast.Assign) and isinstance(s2, ast.Assign) and path_of(s1.targets[0]) == f[0].b and path_of(s2.targets[0]) == f"{obj}._down_windows" \
                                and unparse(s1.value) == unparse(s2.value) and sum(1 for x in walk_stmts(body) if isinstance(x, ast.Assign) and path_of(x.targets[0]) == f[0].b) == 1:
                            ok = True
            ctx.ob("C06-3", "G6", fn, st, ok, f"the crash flag is recomputed as `<window count> > 0` (got `{unparse(v)}`)")
    ld = prog.func(NODE, "_leave_down")
    dec = [s for s in walk_stmts(ld.node.body) if isinstance(s, ast.Assign) and isinstance(s.targets[0], ast.Attribute) and s.targets[0].attr == "_down_windows"]
    ok = len(dec) == 1 and "- 1" in unparse(dec[0].value)
    ctx.ob("C06-3", "G6", ld, dec[0] if dec else None, ok, "leaving a window decrements the window count by one")
    # every path through the enter/leave helpers updates the count exactly once and then the flag (no early exit that skips the count)
    for q, delta in (("_enter_down", "+ 1"), ("_leave_down", "- 1")):
        fn = prog.func(NODE, q)
        ff = ctx.flow(fn)
        bad = []
        for pth in enumerate_paths(ff, ff.cfg.entry):
            if pth.end != "exit":
                continue
            cnt = [n.ast for n in pth.nodes if n.kind == "stmt" and isinstance(n.ast, ast.Assign) and isinstance(n.ast.targets[0], ast.Attribute) and n.ast.targets[0].attr == "_down_windows"]
            flg = [n.ast for n in pth.nodes if n.kind == "stmt" and isinstance(n.ast, ast.Assign) and isinstance(n.ast.targets[0], ast.Attribute) and n.ast.targets[0].attr == "_crashed"]
            if len(cnt) != 1 or delta not in unparse(cnt[0].value) or len(flg) != 1:
                bad.append(f"path [{pth.describe()}] updates the window count {len(cnt)}x and the flag {len(flg)}x")
        ctx.ob("C06-3", "G2", fn, "every path counts the window", not bad, f"{q}: each call moves the window count by exactly one and recomputes the flag — no path skips the count" + ("" if not bad else " — " + bad[0]))
    ctx.floor("C06-1", 4)


def _closures(prog, gen):
    return [f for f in gen.module.all_functions if f.parent is gen or (f.parent is not None and f.parent.parent is gen)]


def rule_closure_composability(ctx: Ctx) -> None:
    prog = ctx.prog
    n_faults = 0
    for rel in (NODE, NETF, RESF):
        mod = prog.module(rel)
        for c in mod.classes.values():
            gen = c.methods.get("generate_events")
            if gen is None:
                continue
            n_faults += 1
            closures = _closures(prog, gen)
            need(closures, f"C06-3: {c.name}.generate_events has no activation closure")
            # names captured from the enclosing function that snapshot shared state when the schedule is built
            originals = {}
            closure_nodes = {id(x) for f in closures for x in ast.walk(f.node)}
            outer_objs = set()
            for st in walk_stmts(gen.node.body):
                if id(st) in closure_nodes:
                    continue
                if isinstance(st, ast.Assign) and len(st.targets) == 1 and isinstance(st.targets[0], ast.Name):
                    v = st.value
                    outer_objs.add(st.targets[0].id)
                    if isinstance(v, ast.Attribute) and isinstance(v.value, ast.Name) and v.value.id != "self" and v.value.id != "ctx":
                        originals[st.targets[0].id] = unparse(v)
            any_ob = False
            for f in closures:
                local_names = {t.id for st in walk_stmts(f.node.body) for t in (st.targets if isinstance(st, ast.Assign) else []) if isinstance(t, ast.Name)}
                nonlocals = {nm for st in walk_stmts(f.node.body) if isinstance(st, ast.Nonlocal) for nm in st.names}
                for st in walk_stmts(f.node.body):
                    if isinstance(st, ast.Expr) and not isinstance(st.value, (ast.Call, ast.Constant, ast.Yield, ast.YieldFrom, ast.Await)):
                        any_ob = True
                        ctx.ob("C06-4", "G2", f, st, False, f"expression statement `{norm_stmt(st)}` has no effect inside a fault closure (a forgotten assignment)")
                    if not isinstance(st, (ast.Assign, ast.AugAssign)):
                        continue
                    for t in (st.targets if isinstance(st, ast.Assign) else [st.target]):
                        base = t
                        while isinstance(base, ast.Subscript):
                            base = base.value
                        if not isinstance(base, ast.Attribute):
                            continue
                        root = path_of(base.value) or ""
                        root0 = root.split(".")[0]
                        if root0 in local_names - nonlocals or root0 == "self":
                            continue
                        any_ob = True
                        v = st.value
                        why = None
                        if isinstance(st, ast.AugAssign) and isinstance(st.op, ast.Sub) and not isinstance(v, ast.Constant):
                            why = "subtracts from state shared by all handles (another active window may still need those entries)"
                        elif isinstance(v, ast.Constant):
                            why = f"writes the constant `{unparse(v)}` (boolean/absolute set-clear does not compose with an overlapping window)"
                        elif any(isinstance(x, ast.Name) and x.id in originals for x in ast.walk(v)):
                            nm = [x.id for x in ast.walk(v) if isinstance(x, ast.Name) and x.id in originals][0]
                            why = (f"restores `{nm}` (= `{originals[nm]}` captured when the schedule was built): with overlapping windows the first one to end "
                                   "cancels the others, and the last one restores a stale value")
                        ctx.ob("C06-3", "G6", f, st, why is None,
                               f"{c.name}: closure write `{norm_stmt(st)}` to shared object `{root}` must compose over overlapping windows"
                               + (" — ok (layered / recomputed from current state)" if why is None else " — " + why))
            if not any_ob:
                # the closures delegate to helpers: record that as the instance
                helpers = sorted({unparse(cc.func) for f in closures for cc in calls_in(f.node) if not (path_of(cc.func) or "").startswith("logger.")})
                ctx.ob("C06-3", "G6", gen, "closures delegate to bookkeeping helpers", True, f"{c.name}: activation/deactivation closures write no shared attribute directly; they call {helpers}")
    need(n_faults >= 7, f"C06-3: only {n_faults} fault classes found")
    ctx.floor("C06-3", 8)


def partition_handle_rules(ctx: Ctx, rule: str) -> None:
    """Partition handles: created owning every pair they block, registered, healed selectively (shared with C11: Raft's liveness clause on
    a healed network relies on a healed pair really being unblocked)."""
    prog = ctx.prog
    # ---- partitions
    heal = prog.func(NET, "Partition.heal")
    subs = [s for s in walk_stmts(heal.node.body) if isinstance(s, ast.AugAssign) and isinstance(s.op, ast.Sub)]
    okp = len(subs) == 2
    for s in subs:
        v = s.value
        okp = okp and isinstance(v, ast.BinOp) and isinstance(v.op, ast.Sub) and (path_of(v.left) or "").startswith("self.") and path_of(v.right) in ("kept_pairs", "kept_directed")
    others = stmts_matching(heal, "others = [p for p in self._network._active_partitions if p is not self]")
    kept = [s for s in walk_stmts(heal.node.body) if isinstance(s, ast.Assign) and path_of(s.targets[0]) in ("kept_pairs", "kept_directed") and "others" in unparse(s.value)]
    okp = okp and len(others) == 1 and len(kept) == 2
    ctx.ob(rule, "G6", heal, None, okp, "healing removes only the pairs that no other still-active partition blocks, and retires this handle from the active list")
    pt = prog.func(NET, "Network.partition")
    app = [c for c in calls_in(pt.node) if path_of(c.func) == "self._active_partitions.append"]
    rets = [s for s in walk_stmts(pt.node.body) if isinstance(s, ast.Return) and s.value is not None]
    ok = len(app) == 1 and rets and path_of(rets[-1].value) == path_of(app[0].args[0])
    ctx.ob(rule, "G2", pt, app[0] if app else None, bool(ok), "every partition handle handed out is registered as active")
    # the handle owns every pair its call blocks, whatever other partitions block already: per iteration of the pair loop exactly one pair is
    # added to a local set *and* to the matching network set, and nothing but the `asymmetric` flag decides which (a pair skipped because
    # an earlier partition already blocks it would be unblocked when that earlier partition heals)
    pff = ctx.flow(pt)
    inner = [s_ for s_ in walk_stmts(pt.node.body) if isinstance(s_, ast.For) and not any(isinstance(x, ast.For) for x in walk_stmts(s_.body))
             and any(path_of(k.func) in ("self._partitioned_pairs.add", "self._directed_partitions.add") for k in calls_in(s_))]
    okl, whyl = len(inner) == 1, "pair loop not found"
    if okl:
        hn = node_of(pff.cfg, inner[0])
        first = [n_ for n_ in pff.cfg.nodes if n_.kind == "stmt" and n_.ast is inner[0].body[0]]
        paths = enumerate_paths(pff, first[0], stop=lambda x: x is hn) if first else []
        okl, whyl = bool(paths), "no path through the pair loop"
        for p_ in paths:
            adds = [(path_of(k.func), unparse(k.args[0]).replace(" ", "")) for n_ in p_.nodes if n_.kind == "stmt" for k in calls_in(n_.ast) if (path_of(k.func) or "").endswith(".add")]
            glob = [a_ for a_ in adds if a_[0] in ("self._partitioned_pairs.add", "self._directed_partitions.add")]
            loc = [a_ for a_ in adds if a_[0] not in ("self._partitioned_pairs.add", "self._directed_partitions.add")]
            sd_p = single_defs(pt)
            canon = lambda t_: unparse(expand(ast.parse(t_, mode="eval").body, sd_p)).replace(" ", "")
            tests = [unparse(n_.ast) for n_, l_ in zip(p_.nodes, p_.labels) if n_.kind == "test" and l_ is not None]
            if p_.end != "stop" or len(glob) != 1 or len(loc) != 1 or canon(glob[0][1]) != canon(loc[0][1]) or any(t_ != "asymmetric" for t_ in tests):
                okl, whyl = False, f"iteration [{p_.describe()[:80]}] adds {adds}"
                break
    ctx.ob(rule, "G2", pt, inner[0] if inner else None, okl, "every pair of the cross product is recorded both in the handle and in the network, unconditionally (only `asymmetric` selects the kind)"
           + ("" if okl else " — " + whyl))
    hp = prog.func(NET, "Network.heal_partition")
    clears = sorted(path_of(c.func) for c in calls_in(hp.node) if (path_of(c.func) or "").endswith(".clear"))
    ctx.ob(rule, "G2", hp, None, clears == ["self._active_partitions.clear", "self._directed_partitions.clear", "self._partitioned_pairs.clear"],
           f"heal_partition() resets pairs, directed pairs and the active-handle list together (clears: {clears})")


def rule_helpers(ctx: Ctx) -> None:
    prog = ctx.prog
    # ---- packet loss: recomputed from the configured rate and the list of active extras
    ul = prog.func(NETF, "_update_injected_loss")
    uff = ctx.flow(ul)
    ws = [s for s in walk_stmts(ul.node.body) if isinstance(s, ast.Assign) and isinstance(s.targets[0], ast.Attribute) and s.targets[0].attr == "packet_loss_rate"]
    need(len(ws) >= 2, "C06-3: _update_injected_loss should write packet_loss_rate on both branches")
    for s in ws:
        names = {x.id for x in ast.walk(s.value) if isinstance(x, ast.Name)}
        node = node_of(uff.cfg, s)
        if "extras" in names:
            ok = "configured" in names and "sum" in names
            ctx.ob("C06-3", "G6", ul, s, ok, "while any window is active the loss rate is configured + sum(active extras)")
        else:
            ok = names == {"configured"} and uff.holds_at(node, Fact("falsy", "extras"))
            ctx.ob("C06-3", "G6", ul, s, ok, "the configured loss rate is restored only when no window is active (`not extras`)")
    guard(ctx, "C06-3", ul, "extras.append(extra)", "active", "activation registers its extra")
    guard(ctx, "C06-3", ul, "extras.remove(extra)", ["not active", "extra in extras"], "deactivation removes exactly its own extra")
    # configured rate captured once, when the first window opens
    cap = [s for s in walk_stmts(ul.node.body) if isinstance(s, ast.Assign) and "_injected_loss" in unparse(s.targets[-1]) and isinstance(s.value, ast.Tuple)]
    ok = len(cap) == 1 and unparse(cap[0].value.elts[0]).endswith("packet_loss_rate") and uff.holds_at(node_of(uff.cfg, cap[0]), Fact("is", "state", "None"))
    ctx.ob("C06-3", "G6", ul, cap[0] if cap else None, ok, "the configured rate is captured when no injected-loss state exists yet (first window), not per window")

    # ---- capacity: recompute from configured × active factors; available moves by the same delta
    uc = prog.func(RESF, "_update_capacity_faults")
    cff = ctx.flow(uc)
    wcap = [s for s in walk_stmts(uc.node.body) if isinstance(s, ast.Assign) and isinstance(s.targets[0], ast.Attribute) and s.targets[0].attr == "_capacity"]
    wav = [s for s in walk_stmts(uc.node.body) if isinstance(s, (ast.Assign, ast.AugAssign)) and isinstance((s.targets[0] if isinstance(s, ast.Assign) else s.target), ast.Attribute)
           and (s.targets[0] if isinstance(s, ast.Assign) else s.target).attr == "_available"]
    need(len(wcap) == 1 and len(wav) == 1, "C06-4: _update_capacity_faults should write _capacity and _available exactly once each")
    newv = path_of(wcap[0].value)
    delta = [s for s in walk_stmts(uc.node.body) if isinstance(s, ast.Assign) and isinstance(s.value, ast.BinOp) and isinstance(s.value.op, ast.Sub)
             and path_of(s.value.left) == newv and (path_of(s.value.right) or "").endswith("._capacity")]
    ok = len(delta) == 1 and isinstance(wav[0], ast.AugAssign) and isinstance(wav[0].op, ast.Add) and path_of(wav[0].value) == path_of(delta[0].targets[0])
    if ok:
        # delta computed before _capacity is overwritten
        ok = not always_before(ctx, uc, lambda n: n.ast is delta[0], lambda n: n.ast is wcap[0])
    ctx.ob("C06-4", "G2", uc, wav[0], ok,
           "held + available == capacity is preserved: `_available` moves by exactly (new capacity − old capacity), computed before `_capacity` is overwritten")
    # new capacity = configured × every active factor
    loops = [s for s in walk_stmts(uc.node.body) if isinstance(s, ast.For) and path_of(s.iter) == "factors"]
    init = [s for s in walk_stmts(uc.node.body) if isinstance(s, ast.Assign) and path_of(s.targets[0]) == newv and path_of(s.value) == "configured"]
    okf = len(loops) == 1 and len(init) == 1 and any(isinstance(b, (ast.Assign, ast.AugAssign)) and path_of(b.targets[0] if isinstance(b, ast.Assign) else b.target) == newv
                                                       and path_of(loops[0].target) in {x.id for x in ast.walk(b) if isinstance(x, ast.Name)} for b in loops[0].body)
    ctx.ob("C06-3", "G6", uc, loops[0] if loops else None, okf, "capacity is recomputed as configured × every active factor (last window to end restores the configured capacity)")
    guard(ctx, "C06-3", uc, "factors.append(factor)", "active", "activation registers its factor")
    guard(ctx, "C06-3", uc, "factors.remove(factor)", ["not active", "factor in factors"], "deactivation removes exactly its own factor")
    wk = [c for c in calls_in(uc.node) if (path_of(c.func) or "").endswith("._wake_waiters")]
    ctx.ob("C06-4", "G2", uc, wk[0] if wk else None, len(wk) == 1 and cff.holds_at(node_of(cff.cfg, wk[0]), Fact("lt", "0", "change")),
           "waiters are woken when capacity comes back")

    # ---- latency layers
    rl = prog.func(NETF, "_remove_latency_layer")
    w1 = stmts_matching(rl, "link.latency = layer._base")
    w2 = stmts_matching(rl, "outer._base = layer._base")
    okl = len(w1) == 1 and len(w2) == 1
    if okl:
        rff = ctx.flow(rl)
        okl = rff.holds_at(node_of(rff.cfg, w1[0][0]), Fact("is", "link.latency", "layer")) and rff.holds_at(node_of(rff.cfg, w2[0][0]), Fact("is", "outer._base", "layer"))
    ctx.ob("C06-3", "G6", rl, None, okl, "removing a latency window unlinks exactly its own layer from the chain (top or inner), leaving other windows' layers in place")
    il = prog.func(NETF, "InjectLatency.generate_events")
    act = [f for f in _closures(prog, il) if f.name == "activate"]
    need(act, "C06-3: InjectLatency.activate closure missing")
    lay = [s for s in walk_stmts(act[0].node.body) if isinstance(s, ast.Assign) and isinstance(s.value, ast.Call) and path_of(s.value.func) == "_CompoundLatency"]
    ok = len(lay) == 1 and path_of(lay[0].value.args[0]) == "link.latency"
    ctx.ob("C06-3", "G6", act[0], lay[0] if lay else None, ok, "a latency window layers on top of whatever is installed at activation time (not on a value captured when the schedule was built)")

    partition_handle_rules(ctx, "C06-3")
    ctx.floor("C06-4", 2)


def rule_symmetry(ctx: Ctx) -> None:
    """Activation and deactivation closures are inverse calls of the same helper / handle."""
    prog = ctx.prog
    for rel, cname, pairs in (
        (NODE, "CrashNode", [("crash", "_enter_down"), ("restart", "_leave_down")]),
        (NODE, "PauseNode", [("pause", "_enter_down"), ("resume", "_leave_down")]),
    ):
        gen = prog.func(rel, f"{cname}.generate_events")
        cl = {f.name: f for f in _closures(prog, gen)}
        for fname, helper in pairs:
            f = cl.get(fname)
            need(f is not None, f"C06-4: {cname}.{fname} closure missing")
            cs = [c for c in calls_in(f.node) if path_of(c.func) == helper]
            ok = len(cs) == 1 and [path_of(a) for a in cs[0].args] == ["entity"]
            ctx.ob("C06-4", "G2", f, cs[0] if cs else None, ok, f"{cname}.{fname} calls {helper}(entity) exactly once")
    for rel, cname, helper in ((NETF, "InjectPacketLoss", "_update_injected_loss"), (RESF, "ReduceCapacity", "_update_capacity_faults")):
        gen = prog.func(rel, f"{cname}.generate_events")
        cl = {f.name: f for f in _closures(prog, gen)}
        sig = {}
        for fname, want in (("activate", True), ("deactivate", False)):
            f = cl.get(fname)
            need(f is not None, f"C06-4: {cname}.{fname} closure missing")
            cs = [c for c in calls_in(f.node) if path_of(c.func) == helper]
            okc = len(cs) == 1 and any(k.arg == "active" and isinstance(k.value, ast.Constant) and k.value.value is want for k in cs[0].keywords)
            sig[fname] = [unparse(a) for a in cs[0].args] if cs else None
            ctx.ob("C06-4", "G2", f, cs[0] if cs else None, okc, f"{cname}.{fname} calls {helper}(…, active={want}) exactly once")
        ctx.ob("C06-4", "G4", gen, "activate/deactivate use the same arguments", sig["activate"] == sig["deactivate"] and sig["activate"] is not None,
               f"{cname}: the deactivation undoes exactly what the activation did (args {sig})")
    # events of each two-sided fault: one activation at start, one deactivation at end
    for rel, cname in ((NODE, "PauseNode"), (NETF, "InjectLatency"), (NETF, "InjectPacketLoss"), (NETF, "NetworkPartition"), (RESF, "ReduceCapacity")):
        gen = prog.func(rel, f"{cname}.generate_events")
        onces = [c for c in calls_in(gen.node) if path_of(c.func) == "Event.once" and id(c) not in {id(x) for f in _closures(prog, gen) for x in ast.walk(f.node)}]
        times = sorted(unparse(k.value) for c in onces for k in c.keywords if k.arg == "time")
        fns = sorted(path_of(k.value) or "" for c in onces for k in c.keywords if k.arg == "fn")
        ok = times == ["Instant.from_seconds(self.end)", "Instant.from_seconds(self.start)"] and len(set(fns)) == 2
        ctx.ob("C06-4", "G2", gen, "one activation at start, one deactivation at end", ok, f"{cname}: events at {times} calling {fns}")
    np_ = prog.func(NETF, "NetworkPartition.generate_events")
    cl = {f.name: f for f in _closures(prog, np_)}
    a = [c for c in calls_in(cl["activate"].node) if path_of(c.func) == "network.partition"]
    d = [c for c in calls_in(cl["deactivate"].node) if path_of(c.func) == "partition_handle.heal"]
    holder = [s for s in walk_stmts(cl["activate"].node.body) if isinstance(s, ast.Assign) and path_of(s.targets[0]) == "partition_handle" and s.value in a]
    ctx.ob("C06-4", "G2", np_, "partition handle healed by its own window", len(a) == 1 and len(d) == 1 and len(holder) == 1,
           "NetworkPartition heals exactly the handle its own activation obtained")
    ctx.floor("C06-4", 12)


def rule_cancel(ctx: Ctx) -> None:
    prog = ctx.prog
    st = prog.func(SCHED, "FaultSchedule.start")
    sff = ctx.flow(st)
    loops = [s for s in walk_stmts(st.node.body) if isinstance(s, ast.For) and "self._handles" in unparse(s.iter) and "self._faults" in unparse(s.iter)]
    need(len(loops) == 1, "C06-5: FaultSchedule.start should walk faults and handles together")
    lp = loops[0]
    fv, hv = [path_of(x) for x in lp.target.elts]
    gens = [s for s in lp.body if isinstance(s, ast.Assign) and isinstance(s.value, ast.Call) and path_of(s.value.func) == f"{fv}.generate_events"]
    need(len(gens) == 1, "C06-5: generate_events not called once per fault")
    evs = path_of(gens[0].targets[0])
    stored = [s for s in lp.body if isinstance(s, ast.Assign) and path_of(s.targets[0]) == f"{hv}._events" and path_of(s.value) == evs]
    ext = [c for c in calls_in(lp) if isinstance(c.func, ast.Attribute) and c.func.attr == "extend" and [path_of(a) for a in c.args] == [evs]]
    rets = [s for s in walk_stmts(st.node.body) if isinstance(s, ast.Return)]
    ok = len(stored) == 1 and len(ext) == 1 and rets and path_of(rets[-1].value) == path_of(ext[0].func.value)
    ctx.ob("C06-5", "G2", st, stored[0] if stored else lp, bool(ok), "the handle records exactly the events that are returned to the simulation for its fault")
    # already-cancelled handle: all generated events cancelled
    pre = [s for s in lp.body if isinstance(s, ast.If) and unparse(s.test) in (f"{hv}.cancelled", f"{hv}._cancelled")]
    okp = False
    if len(pre) == 1:
        inner = [s for s in pre[0].body if isinstance(s, ast.For) and path_of(s.iter) == evs]
        okp = len(inner) == 1 and any(isinstance(c.func, ast.Attribute) and c.func.attr == "cancel" and path_of(c.func.value) == path_of(inner[0].target) for c in calls_in(inner[0]))
    ctx.ob("C06-5", "G1", st, pre[0] if pre else lp, okp, "a handle cancelled before the schedule starts gets all of its events cancelled at start")
    cn = prog.func(FAULT, "FaultHandle.cancel")
    loops = [s for s in walk_stmts(cn.node.body) if isinstance(s, ast.For) and path_of(s.iter) == "self._events"]
    ok = len(loops) == 1 and any(isinstance(c.func, ast.Attribute) and c.func.attr == "cancel" and path_of(c.func.value) == path_of(loops[0].target) for c in calls_in(loops[0])) \
        and len(loops[0].body) == 1
    ctx.ob("C06-5", "G2", cn, loops[0] if loops else None, ok, "cancel() cancels every recorded event of the fault")
    guard(ctx, "C06-5", cn, "self._cancelled = True", "not self._cancelled", "cancel() is idempotent")
    # every fault event is a daemon event (faults never keep a run alive)
    n_once = 0
    for rel in (NODE, NETF, RESF):
        for fn in prog.module(rel).all_functions:
            for c in calls_in(fn.node):
                if path_of(c.func) == "Event.once":
                    n_once += 1
                    d = [k for k in c.keywords if k.arg == "daemon"]
                    ctx.ob("C06-5", "G2", fn, c, bool(d) and isinstance(d[0].value, ast.Constant) and d[0].value.value is True,
                           "fault events are daemon events: a fault schedule alone never keeps a run alive")
    need(n_once >= 12, f"C06-5: only {n_once} Event.once sites in faults/")
    ctx.floor("C06-5", 10)


def rule_alias(ctx: Ctx) -> None:
    """C06-6: an internal sub-entity that executes work on behalf of a composite target must observe the parent's crash flag."""
    prog = ctx.prog
    n = 0
    for c in prog.all_classes("happysimulator/components/"):
        he = c.methods.get("handle_event")
        if he is None or not prog.is_subclass(c, "Entity"):
            continue
        # adapter shape: handle_event is `return self.<backref>.<method>(event)`
        body = [s for s in he.node.body if not (isinstance(s, ast.Expr) and isinstance(s.value, ast.Constant))]
        if len(body) != 1 or not isinstance(body[0], ast.Return) or not isinstance(body[0].value, ast.Call):
            continue
        p = path_of(body[0].value.func) or ""
        parts = p.split(".")
        if len(parts) != 3 or parts[0] != "self" or not parts[1].startswith("_"):
            continue
        backref = parts[1]
        # ... and the object behind the back-reference is the composite that created this adapter
        ai = prog.attr_info(c, backref)
        parent = prog.resolve_class_name(c.module, ai.cls_name) if ai is not None and ai.cls_name else None
        if parent is None or not any(path_of(cc.func) == c.name for m in parent.methods.values() for cc in calls_in(m.node)):
            continue
        n += 1
        # the adapter must expose `_crashed` delegating to the parent
        prop = c.methods.get("_crashed")
        ok = False
        if prop is not None:
            rets = [s for s in walk_stmts(prop.node.body) if isinstance(s, ast.Return) and s.value is not None]
            ok = bool(rets) and f"self.{backref}" in unparse(rets[-1].value) and "_crashed" in unparse(rets[-1].value)
        ctx.ob("C06-6", "G4", he, f"{c.name} observes the parent's crash flag", ok,
               f"`{c.name}` executes work re-targeted from `{backref}` (queue-fronted target) but does not mirror the parent's `_crashed` flag: queued work "
               "keeps executing while the parent is crashed/paused")
    need(n >= 1, "C06-6: no worker-adapter shape found")
    ctx.floor("C06-6", 1)


def rule_layer_removal(ctx: Ctx) -> None:
    """C06-4: removing one injected latency layer from a link's chain is a correct singly-linked removal: head case, cursor starts at the
    head, advances along `_base`, splices the layer out wherever it sits."""
    prog = ctx.prog
    fn = prog.func(NETF, "_remove_latency_layer")
    link, layer = fn.params()[:2]
    ff = ctx.flow(fn)
    head = [st for st in walk_stmts(fn.node.body) if isinstance(st, ast.Assign) and path_of(st.targets[0]) == f"{link}.latency"]
    okh = len(head) == 1 and path_of(head[0].value) == f"{layer}._base" and ff.holds_at(node_of(ff.cfg, head[0]), Fact("is", f"{link}.latency", layer))
    loops = [st for st in walk_stmts(fn.node.body) if isinstance(st, ast.While)]   # at top level after an early return, or inside the `else` of the head test
    okc = len(loops) == 1
    cursor = None
    if okc:
        lp = loops[0]
        adv = [st for st in lp.body if isinstance(st, ast.Assign) and isinstance(st.targets[0], ast.Name) and path_of(st.value) == f"{path_of(st.targets[0])}._base"]
        okc = len(adv) == 1
        if okc:
            cursor = path_of(adv[0].targets[0])
            init = [st for st in walk_stmts(fn.node.body) if isinstance(st, ast.Assign) and path_of(st.targets[0]) == cursor and st not in list(walk_stmts(lp.body))]
            okc = len(init) == 1 and path_of(init[0].value) == f"{link}.latency" and not always_before(ctx, fn, lambda x: x.ast is init[0], lambda x: x.ast is lp or (x.kind == "test" and any(y is x.ast for y in ast.walk(lp.test))))
            spl = [st for st in walk_stmts(lp.body) if isinstance(st, ast.Assign) and path_of(st.targets[0]) == f"{cursor}._base"]
            okc = okc and len(spl) == 1 and path_of(spl[0].value) == f"{layer}._base" and ff.holds_at(node_of(ff.cfg, spl[0]), Fact("is", f"{cursor}._base", layer))
            okc = okc and f"isinstance({cursor}, _CompoundLatency)" in unparse(lp.test)
    ctx.ob("C06-4", "G2", fn, head[0] if head else None, okh and okc,
           "_remove_latency_layer unlinks the layer at the head (link.latency is layer) or, walking from the head along _base, wherever it sits below (a walk that starts one level down never finds the layer directly under the outermost one)")


def rule_hunted_fixed(ctx: Ctx) -> None:
    """C06-5/C06-3 (hunted, repaired): (a) a window that opened before the run's start time is in effect from the start — `FaultSchedule.start`
    clamps every generated event time to `start_time` before handing the events over (an event stamped earlier is discarded by the run loop
    as time travel, and then only the deactivation of the window ever runs); (b) a Resource validates a request against the capacity it was
    *configured* with: a fault-reduced capacity is temporary and acquirers wait for it to come back."""
    prog = ctx.prog
    st = prog.func("happysimulator/faults/schedule.py", "FaultSchedule.start")
    ff = ctx.flow(st)
    clamps = [n_ for n_ in ff.cfg.nodes if n_.kind == "stmt" and isinstance(n_.ast, ast.Assign) and isinstance(n_.ast.targets[0], ast.Attribute) and n_.ast.targets[0].attr == "time" and path_of(n_.ast.value) == "start_time"]
    hand = [n_ for n_ in ff.cfg.nodes if n_.kind == "stmt" and any(path_of(k.func) == "all_events.extend" for k in calls_in(n_.ast))]
    ok = len(clamps) == 1 and len(hand) == 1
    if ok:
        ev = path_of(clamps[0].ast.targets[0].value)
        ok = ff.holds_at(clamps[0], Fact("lt", f"{ev}.time", "start_time")) and bool(clamps[0].in_loops) and not always_before(ctx, st, lambda x: x.kind == "for" and x.id == clamps[0].in_loops[-1], lambda x: x is hand[0])
    ctx.ob("C06-5", "G2", st, clamps[0].ast if clamps else None, ok, "FaultSchedule.start moves every generated fault event that lies before `start_time` to `start_time` before the events are handed to the simulation")
    RESP = "happysimulator/components/resource.py"
    cc = prog.func(RESP, "Resource._configured_capacity")
    okc = "_capacity_faults" in unparse(cc.node) and any(isinstance(r_, ast.Return) and "state[0]" in unparse(r_.value) for r_ in walk_stmts(cc.node.body))
    for q in ("Resource.acquire", "Resource.try_acquire"):
        fn = prog.func(RESP, q)
        sd_r = single_defs(fn)
        guards = [t_ for t_ in walk_stmts(fn.node.body) if isinstance(t_, ast.If) and any(isinstance(b_, ast.Raise) for b_ in t_.body) and any(f.sig[0] == "lt" and f.sig[2] == "amount" for f in atoms(t_.test, True))]
        okg = len(guards) == 1 and {f.sig for f in atoms(expand(guards[0].test, sd_r), True)} == {("lt", "self._configured_capacity()", "amount")}
        ctx.ob("C06-3", "G7", fn, guards[0] if guards else None, okg and okc, f"{q} rejects only a request larger than the configured capacity (`self._configured_capacity()`), not one that merely exceeds a temporarily reduced capacity")


def rule_capacity_fault_exactness(ctx: Ctx) -> None:
    """C06-3 (hunted, recorded as known findings): "once every window has ended the system is back to its configured state" and "reduced
    capacity is in effect exactly while a window covers the target".
    (a) `_update_capacity_faults` must restore `available` exactly: moving it by the float difference of two capacities accumulates rounding
        (factor 0.3 on capacity 8: available ends at 2.9999999999999996 instead of 3, acquire(3) then waits; a valid release can trip the
        over-capacity guard inside a window);
    (b) the wake of queued acquirers on a capacity *increase* must not run before same-instant fault events have been applied: at the seam
        of back-to-back windows [1,5) [5,9) the restore of the first wakes waiters against the full capacity before the second reduces it."""
    prog = ctx.prog
    RFP = "happysimulator/faults/resource_faults.py"
    fn = prog.func(RFP, "_update_capacity_faults")
    moves = [s_ for s_ in walk_stmts(fn.node.body) if isinstance(s_, ast.AugAssign) and path_of(s_.target) == "resource._available"]
    sets = [s_ for s_ in walk_stmts(fn.node.body) if isinstance(s_, ast.Assign) and path_of(s_.targets[0]) == "resource._available"]
    need(moves or sets, "C06-3: _update_capacity_faults no longer adjusts resource._available")
    exact = not moves and bool(sets)
    ctx.ob("C06-3", "G6", fn, (moves or sets)[0], exact, "capacity faults recompute `available` from exact quantities (configured capacity and the amount held) instead of adding the float difference of two capacities")
    wakes = [k for k in calls_in(fn.node) if path_of(k.func) == "resource._wake_waiters"]
    ctx.ob("C06-3", "G5", fn, wakes[0] if wakes else "deferred wake", not wakes, "a capacity increase does not wake waiters synchronously inside the fault event: another fault event of the same instant (the next window's reduction) may still be pending")


def run(ctx: Ctx) -> None:
    ctx.guarded(rule_hunted_fixed)
    ctx.guarded(rule_capacity_fault_exactness)
    ctx.guarded(rule_crash_discipline)
    ctx.guarded(rule_closure_composability)
    ctx.guarded(rule_helpers)
    ctx.guarded(rule_symmetry)
    ctx.guarded(rule_cancel)
    ctx.guarded(rule_alias)
    ctx.guarded(rule_layer_removal)


MUTANTS = [
    ("schedule-start-does-not-clamp", "happysimulator/faults/schedule.py", "                if event.time < start_time:\n                    event.time = start_time\n", "                pass\n", "C06-5"),
    ("acquire-validates-against-reduced-capacity", "happysimulator/components/resource.py", "        if amount > self._configured_capacity():\n            raise ValueError(\n                f\"cannot acquire {amount} from resource '{self.name}' \"\n                f\"with capacity {self._configured_capacity()}\"\n            )\n\n        future = SimFuture()", "        if amount > self._capacity:\n            raise ValueError(\n                f\"cannot acquire {amount} from resource '{self.name}' \"\n                f\"with capacity {self._configured_capacity()}\"\n            )\n\n        future = SimFuture()", "C06-3"),
    ("partition-skips-already-blocked-pairs", NET, "                self._known_entities[entity_b.name] = entity_b\n                if asymmetric:", "                self._known_entities[entity_b.name] = entity_b\n                if self.is_partitioned(entity_a.name, entity_b.name):\n                    continue\n                if asymmetric:", "C06-3"),
    ("layer-walk-starts-below-head", NETF, "    outer = link.latency\n    while isinstance(outer, _CompoundLatency):", "    outer = link.latency._base\n    while isinstance(outer, _CompoundLatency):", "C06-4"),
    ("continuation-ignores-crash", EV, "        if getattr(self.target, \"_crashed\", False):\n            return []\n\n        tracing_on = _event_tracing_enabled", "        tracing_on = _event_tracing_enabled", "C06-1"),
    ("event-ignores-crash", EV, "        if getattr(self.target, \"_crashed\", False):\n            return []\n\n        if _event_tracing_enabled:", "        if _event_tracing_enabled:", "C06-1"),
    ("crashed-branch-runs-hooks", EV, "        if getattr(self.target, \"_crashed\", False):\n            return []\n\n        if _event_tracing_enabled:",
     "        if getattr(self.target, \"_crashed\", False):\n            return self._run_completion_hooks(self.time)\n\n        if _event_tracing_enabled:", "C06-1"),
    ("leave-down-clears-flag", NODE, "    entity._crashed = entity._down_windows > 0  # type: ignore[attr-defined]", "    entity._crashed = False  # type: ignore[attr-defined]", "C06-3"),
    ("enter-down-not-counted", NODE, "    entity._down_windows = getattr(entity, \"_down_windows\", 0) + 1  # type: ignore[attr-defined]\n", "", "C06-3"),
    ("crash-sets-flag-directly", NODE, "            def restart(e: Event) -> None:\n                _leave_down(entity)", "            def restart(e: Event) -> None:\n                entity._crashed = False", "C06-3"),
    ("latency-restores-captured-original", NETF, ["        layer: _CompoundLatency | None = None\n", "            if layer is not None:\n                _remove_latency_layer(link, layer)"],
     ["        layer: _CompoundLatency | None = None\n        original_latency = link.latency\n", "            link.latency = original_latency"], "C06-3"),
    ("latency-layers-on-captured", NETF, "            layer = _CompoundLatency(link.latency, extra_dist)", "            layer = _CompoundLatency(base_latency, extra_dist)", "C06-3"),
    ("loss-restores-on-first-end", NETF, "    if extras:\n        link.packet_loss_rate = min(1.0, configured + sum(extras))\n    else:", "    if extras and active:\n        link.packet_loss_rate = min(1.0, configured + sum(extras))\n    else:", "C06-3"),
    ("loss-ignores-other-extras", NETF, "        link.packet_loss_rate = min(1.0, configured + sum(extras))", "        link.packet_loss_rate = min(1.0, configured + extra)", "C06-3"),
    ("heal-subtracts-all-pairs", NET, "        self._network._partitioned_pairs -= self.pairs - kept_pairs", "        self._network._partitioned_pairs -= self.pairs", "C06-3"),
    ("partition-not-registered", NET, "        self._active_partitions.append(handle)\n", "", "C06-3"),
    ("capacity-available-not-moved", RESF, "    resource._available += change\n", "", "C06-4"),
    ("capacity-delta-after-write", RESF, "    change = new_capacity - resource._capacity\n    resource._capacity = new_capacity\n", "    resource._capacity = new_capacity\n    change = new_capacity - resource._capacity\n", "C06-4"),
    ("capacity-only-own-factor", RESF, "    for f in factors:\n        new_capacity = new_capacity * f\n", "    if active:\n        new_capacity = new_capacity * factor\n", "C06-3"),
    ("loss-deactivate-wrong-arg", NETF, "            _update_injected_loss(link, extra, active=False)", "            _update_injected_loss(link, 0.0, active=False)", "C06-4"),
    ("capacity-deactivate-also-active", RESF, "            _update_capacity_faults(resource, factor, active=False)", "            _update_capacity_faults(resource, factor, active=True)", "C06-4"),
    ("pause-never-resumes", NODE, "        def resume(e: Event) -> None:\n            _leave_down(entity)", "        def resume(e: Event) -> None:\n            pass", "C06-4"),
    ("cancel-before-start-ignored", SCHED, "            if handle.cancelled:\n                # Cancelled before the schedule was started: nothing of it may fire\n                for event in fault_events:\n                    event.cancel()\n", "", "C06-5"),
    ("handle-records-nothing", SCHED, "            handle._events = fault_events\n", "", "C06-5"),
    ("cancel-skips-events", FAULT, "        for event in self._events:\n            event.cancel()\n", "", "C06-5"),
    ("fault-event-not-daemon", RESF, "                event_type=f\"fault.capacity.restore:{resource_name}\",\n                fn=deactivate,\n                daemon=True,", "                event_type=f\"fault.capacity.restore:{resource_name}\",\n                fn=deactivate,", "C06-5"),
]
MUTANTS += [
    ("enter-down-skips-count-when-already-down", NODE, "def _enter_down(entity: object) -> None:\n    \"\"\"One more crash/pause window covers the entity: it is down.\"\"\"\n",
     "def _enter_down(entity: object) -> None:\n    \"\"\"One more crash/pause window covers the entity: it is down.\"\"\"\n    if getattr(entity, \"_crashed\", False):\n        return\n", "C06-3"),
]
REFACTORS = [
    ("crash-check-direct-attr", EV, "        if getattr(self.target, \"_crashed\", False):\n            return []\n\n        tracing_on = _event_tracing_enabled",
     "        crashed = getattr(self.target, \"_crashed\", False)\n        if crashed:\n            return []\n\n        tracing_on = _event_tracing_enabled"),
]
