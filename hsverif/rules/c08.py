"""C08 — queueing pipelines never lose, duplicate, misorder or strand work (structural clauses)."""

from __future__ import annotations

import ast

from ..astutil import calls_in, norm_stmt, path_of, unparse, walk_scope, walk_stmts
from ..cfg import own_exprs
from ..facts import Fact, atoms, enumerate_paths
from ..report import Ctx
from .common import always_before, enclosing_stmt, expand, guard, increment_of, ingredients_along, need, node_of, single_defs, stmts_matching

Q = "happysimulator/components/queue.py"
QD = "happysimulator/components/queue_driver.py"
QP = "happysimulator/components/queue_policy.py"
QPS = "happysimulator/components/queue_policies/"
SRV = "happysimulator/components/server/server.py"
TP = "happysimulator/components/server/thread_pool.py"
ASRV = "happysimulator/components/server/async_server.py"
CONC = "happysimulator/components/server/concurrency.py"
POOLED = "happysimulator/components/industrial/pooled_cycle.py"
SHIFT = "happysimulator/components/industrial/shift_schedule.py"

EXPLANATION = (
    "Sibling contract over every QueuePolicy implementation (FIFO, LIFO, Priority, CoDel, Deadline, Fair, WeightedFair, RED, "
    "AdaptiveLIFO): per feasible path of push/pop and of every helper — push returns True exactly when it inserts once under the "
    "capacity test and counts it once, returns False exactly when it inserts nothing and counts one rejection; every structural "
    "removal is matched by exactly one outflow counter (dequeued | dropped | expired), so enqueued = dequeued + dropped + held on "
    "every path; pop/peek return None on empty. Ordering keys of the heap policies (key, insertion counter, payload excluded) and "
    "deque ends of FIFO/LIFO. Queue entity: accepted|dropped exactly once, notify iff empty-before-push, poll delivers exactly what "
    "it pops. QueueDriver: same payload re-targeted with exactly one completion hook polling iff the target has capacity. Servers: "
    "every path after a successful acquire releases the same weight exactly once; failed acquire is counted."
)
RULE_TEXT = "Instances: per policy method path family, per ordering key, per Queue/Driver clause, per server acquire site. Distinct by (rule, construct)."
NOT_DECIDED = ["fairness shares of the weighted policies, CoDel/RED drop laws (numeric)",
               "'no simulated time passes while an item waits and the worker is free' beyond the notify/poll protocol clauses",
               "the notify-vs-pending-delivery over-poll race: could not be produced against the real code (a re-targeted payload keeps its older tie-break index) — not armed"]
ASSUMPTIONS = ["heapq pops the least entry under the dataclass order", "handlers are atomic between suspension points"]

INS = ("append", "appendleft")
REM = ("popleft", "pop")


def _is_store_recv(fn, recv: ast.AST) -> bool:
    p = path_of(recv)
    if p is None:
        return False
    last = p.split(".")[-1]
    return last in ("_queue", "_heap", "queue", "flow_queue") or last.endswith("_queue")


def _ins_rem(node) -> tuple[int, int]:
    ins = rem = 0
    for e in own_exprs(node):
        for c in walk_scope(e):
            if not isinstance(c, ast.Call):
                continue
            f = c.func
            p = path_of(f) or ""
            if p.endswith("heappush") and c.args and _is_store_recv(None, c.args[0]):
                ins += 1
            elif p.endswith("heappop") and c.args and _is_store_recv(None, c.args[0]):
                rem += 1
            elif isinstance(f, ast.Attribute) and _is_store_recv(None, f.value):
                if f.attr in INS:
                    ins += 1
                elif f.attr in REM and not (f.attr == "pop" and c.args and not isinstance(c.args[0], ast.Constant)):
                    rem += 1
    return ins, rem


def _policy_classes(prog):
    out = []
    for c in prog.all_classes("happysimulator/components/queue_polic"):
        if "push" in c.methods and "pop" in c.methods and "__len__" in c.methods and not c.name.startswith("_") and c.name != "QueuePolicy":
            out.append(c)
    return out


def rule_policy_contract(ctx: Ctx) -> None:
    prog = ctx.prog
    pols = _policy_classes(prog)
    need(len(pols) >= 9, f"C08-1: only {len(pols)} queue policies found (9 confirmed by hand)")
    for c in pols:
        counters = {a for m in c.methods.values() for a in ctx.effects.direct(m).writes}
        has_counters = "_enqueued" in counters
        out_counters = [a for a in counters if a.startswith("_dequeued") or a in ("_dropped", "_expired")]
        rej_counters = [a for a in counters if "rejected" in a or a.startswith("_dropped_")]
        # ---- push
        push = c.methods["push"]
        ff = ctx.flow(push)
        bad = []
        kinds = {"accept": 0, "reject": 0}
        ins_nodes = []
        for p in enumerate_paths(ff, ff.cfg.entry):
            if p.end != "exit":
                continue
            r = [n.ast for n in p.nodes if n.kind == "stmt" and isinstance(n.ast, ast.Return)]
            val = r[-1].value if r else None
            ins = sum(_ins_rem(n)[0] for n in p.nodes)
            ins_nodes += [n for n in p.nodes if _ins_rem(n)[0]]
            enq = sum((increment_of(n.ast, "self._enqueued") or 0) for n in p.nodes if n.kind == "stmt" and increment_of(n.ast, "self._enqueued") != "other")
            rej = sum(1 for n in p.nodes if n.kind == "stmt" for a in rej_counters if increment_of(n.ast, f"self.{a}") == 1)
            if isinstance(val, ast.Constant) and val.value is True:
                kinds["accept"] += 1
                if ins != 1 or (has_counters and enq != 1) or rej:
                    bad.append(f"accepting path [{p.describe()}]: inserted {ins}x, enqueued += {enq}, rejections += {rej}")
            elif isinstance(val, ast.Constant) and val.value is False:
                kinds["reject"] += 1
                if ins or enq or (rej_counters and rej != 1):
                    bad.append(f"rejecting path [{p.describe()}]: inserted {ins}x, enqueued += {enq}, rejections += {rej}")
            else:
                bad.append(f"path [{p.describe()}] returns `{unparse(val)}` instead of a constant verdict")
        need(kinds["accept"] and kinds["reject"], f"C08-1: {c.name}.push lacks accept/reject paths {kinds}")
        ctx.ob("C08-1", "G2", push, "push verdict ⇔ insertion ⇔ counters", not bad,
               f"{c.name}.push: True ⇔ exactly one insertion (+1 enqueued); False ⇔ nothing inserted (+1 rejection counter) ({kinds})" + ("" if not bad else " — " + "; ".join(bad[:2])))
        # capacity guard at the insertion
        okcap = True
        why = ""
        for n in {id(x): x for x in ins_nodes}.values():
            facts = ff.facts_at(n)
            if not any(op == "lt" and "capacity" in b.lower() and ("len(" in a or "_total_items" in a or "depth" in a) for (op, a, b) in facts):
                okcap = False
                why = f"at `{norm_stmt(n.ast)}` facts are: {ff.describe(n)}"
        ctx.ob("C08-1", "G1", push, "insertion under capacity test", okcap and bool(ins_nodes),
               f"{c.name}.push inserts only when the held count is below capacity (a policy never holds more than its capacity)" + ("" if okcap else " — " + why))
        # ---- conservation on every method: removals == outflow counter increments
        if out_counters:
            for m in c.methods.values():
                if m.name in ("__init__", "push"):
                    continue
                mff = ctx.flow(m)
                if not any(_ins_rem(n)[1] for n in mff.cfg.nodes):
                    continue
                bad = []
                npaths = 0
                for p in enumerate_paths(mff, mff.cfg.entry, unroll=1):
                    if p.end in ("raise", "back"):
                        continue
                    npaths += 1
                    rem = sum(_ins_rem(n)[1] for n in p.nodes)
                    outs = sum(1 for n in p.nodes if n.kind == "stmt" for a in out_counters if increment_of(n.ast, f"self.{a}") == 1)
                    if rem != outs:
                        bad.append(f"path [{p.describe()[:160]}]: removed {rem} item(s) but counted {outs} as dequeued/dropped/expired")
                ctx.ob("C08-2", "G2", m, "removal ↔ outflow counter", not bad and npaths > 0,
                       f"{c.name}.{m.name}: every removed item is counted exactly once as dequeued, dropped or expired over {npaths} path(s) (enqueued = dequeued + dropped + held)"
                       + ("" if not bad else " — " + bad[0]))
        # ---- pop / peek on empty
        for mname in ("pop", "peek"):
            m = c.methods.get(mname)
            if m is None:
                continue
            mff = ctx.flow(m)
            bad = []
            for p in enumerate_paths(mff, mff.cfg.entry, unroll=1):
                if p.end != "exit":
                    continue
                r = [n.ast for n in p.nodes if n.kind == "stmt" and isinstance(n.ast, ast.Return)]
                val = r[-1].value if r else None
                returns_none = val is None or (isinstance(val, ast.Constant) and val.value is None)
                rem = sum(_ins_rem(n)[1] for n in p.nodes)
                if mname == "peek" and rem:
                    bad.append("peek removes an item")
                if mname == "pop" and not returns_none and rem < 1 and not (isinstance(val, ast.Call) and path_of(val.func) == "self.pop"):
                    bad.append(f"pop returns `{unparse(val)}` on path [{p.describe()[:120]}] without removing anything")
            ctx.ob("C08-1", "G2", m, f"{mname} contract", not bad, f"{c.name}.{mname}: " + ("returns an item only by removing it" if mname == "pop" else "never removes") + ("" if not bad else " — " + bad[0]))
        # __len__/is_empty read the store that push mutates
        ln = c.methods["__len__"]
        rets = [s for s in walk_stmts(ln.node.body) if isinstance(s, ast.Return)]
        txt = unparse(rets[-1].value) if rets else ""
        ok = any(k in txt for k in ("self._queue", "self._heap", "self._total_items"))
        ctx.ob("C08-1", "G4", ln, rets[-1] if rets else None, ok, f"{c.name}.__len__ reports the store that push/pop mutate (`{txt}`)")
    ctx.floor("C08-1", 30)
    ctx.floor("C08-2", 6)


def rule_ordering(ctx: Ctx) -> None:
    prog = ctx.prog
    # heap entries: (key, insertion counter) ordered, payload excluded
    n = 0
    for rel, cname, key in ((QP, "_PriorityEntry", "priority"), (QPS + "deadline_queue.py", "_DeadlineEntry", "deadline_ns")):
        c = prog.cls(rel, cname)
        n += 1
        deco = [d for d in c.node.decorator_list if isinstance(d, ast.Call) and path_of(d.func) == "dataclass" and any(k.arg == "order" and isinstance(k.value, ast.Constant) and k.value.value is True for k in d.keywords)]
        fields = [s for s in c.node.body if isinstance(s, ast.AnnAssign)]
        names = [s.target.id for s in fields]
        cmp_false = [s.target.id for s in fields if isinstance(s.value, ast.Call) and any(k.arg == "compare" and isinstance(k.value, ast.Constant) and k.value.value is False for k in s.value.keywords)]
        ok = bool(deco) and len(names) >= 3 and names[0] == key and names[1] == "insert_order" and set(names[2:]) <= set(cmp_false)
        ctx.ob("C08-3", "G3", None, f"{cname} order key", ok, f"{cname} orders by ({key}, insertion counter) with the payload excluded — stable priority order (fields {names}, compare=False {cmp_false})",
               relpath=rel, node=c.node)
    for rel, q in ((QP, "PriorityQueue.push"), (QPS + "deadline_queue.py", "DeadlineQueue.push")):
        fn = prog.func(rel, q)
        ctor = [c for c in calls_in(fn.node) if (path_of(c.func) or "").endswith("Entry")]
        # a local read of the counter (`order = self._insert_counter`, bound once, before any write of the counter) stands for the counter
        sd = {k_: v_ for k_, v_ in single_defs(fn).items() if path_of(v_) == "self._insert_counter"}
        def _exp(st_):
            if isinstance(st_, ast.Assign) and sd:
                st2 = ast.Assign(targets=st_.targets, value=expand(st_.value, sd))
                return ast.copy_location(st2, st_)
            return st_
        writes_c = [s for s in walk_stmts(fn.node.body) if increment_of(_exp(s), "self._insert_counter") is not None]
        inc = [s for s in writes_c if increment_of(_exp(s), "self._insert_counter") == 1]
        for k_ in list(sd):
            d_ = [s for s in walk_stmts(fn.node.body) if isinstance(s, ast.Assign) and path_of(s.targets[0]) == k_]
            if writes_c and always_before(ctx, fn, lambda n_: n_.ast is d_[0], lambda n_: any(n_.ast is w for w in writes_c)):
                sd.pop(k_)  # read after (or not always before) the counter moved: not the entry's own index
        args = [unparse(expand(a, sd)) for a in ctor[0].args] + [unparse(expand(k.value, sd)) for k in ctor[0].keywords] if ctor else []
        ok = len(ctor) == 1 and len(inc) == 1 and len(writes_c) == 1 and "self._insert_counter" in args
        ctx.ob("C08-3", "G2", fn, ctor[0] if ctor else None, ok, f"{q}: each entry takes the current insertion counter, which then increases by one (FIFO among equal keys)")
    # deque ends
    for cname, rem_attr, what in (("FIFOQueue", "popleft", "opposite end (FIFO)"), ("LIFOQueue", "pop", "same end (LIFO)")):
        c = prog.cls(QP, cname)
        ins = [x.func.attr for x in calls_in(c.methods["push"].node) if isinstance(x.func, ast.Attribute) and path_of(x.func.value) == "self._queue" and x.func.attr in INS]
        rem = [x.func.attr for x in calls_in(c.methods["pop"].node) if isinstance(x.func, ast.Attribute) and path_of(x.func.value) == "self._queue" and x.func.attr in REM and not x.args]
        pk = [s for s in walk_stmts(c.methods["peek"].node.body) if isinstance(s, ast.Return) and isinstance(s.value, ast.Subscript)]
        idx = unparse(pk[0].value.slice) if pk else None
        ok = ins == ["append"] and rem == [rem_attr] and idx == ("0" if cname == "FIFOQueue" else "-1")
        ctx.ob("C08-3", "G3", c.methods["pop"], f"{cname} ends", ok, f"{cname}: push appends on the right, pop takes from the {what}, peek looks at the element pop would return (ins {ins}, rem {rem}, peek [{idx}])")
    ctx.floor("C08-3", 6)


def rule_queue_entity(ctx: Ctx) -> None:
    prog = ctx.prog
    he = prog.func(Q, "Queue._handle_enqueue")
    ff = ctx.flow(he)
    evp = [p for p in he.params() if p != "self"][0]
    we = stmts_matching(he, "was_empty = self.policy.is_empty()")
    pu = [c for c in calls_in(he.node) if path_of(c.func) == "self.policy.push"]
    need(len(we) == 1 and len(pu) == 1, "C08-6: Queue._handle_enqueue should capture emptiness once and push once")
    pn = node_of(ff.cfg, pu[0])
    before = not always_before(ctx, he, lambda n: n.ast is we[0][0], lambda n: n is pn)
    ctx.ob("C08-6", "G5", he, we[0][0], before and [path_of(a) for a in pu[0].args] == [evp], "emptiness is captured before the push it is meant to describe, and the offered event itself is pushed")
    bad = []
    for p in enumerate_paths(ff, pn):
        if p.end != "exit":
            continue
        acc = sum(1 for n in p.nodes if n.kind == "stmt" and increment_of(n.ast, "self.stats_accepted") == 1)
        drp = sum(1 for n in p.nodes if n.kind == "stmt" and increment_of(n.ast, "self.stats_dropped") == 1)
        accepted = p.decided(lambda t: t == "accepted")
        notif = [c for n in p.nodes for e in own_exprs(n) for c in walk_scope(e) if isinstance(c, ast.Call) and path_of(c.func) == "QueueNotifyEvent"]
        wase = p.decided(lambda t: t == "was_empty")
        if accepted is True and (acc, drp) != (1, 0):
            bad.append(f"accepted path counts accepted {acc} / dropped {drp}")
        if accepted is False and ((acc, drp) != (0, 1) or notif):
            bad.append(f"rejected path counts accepted {acc} / dropped {drp}, notifies {len(notif)}")
        if accepted is True and (len(notif) == 1) != (wase is True):
            bad.append(f"notify emitted {len(notif)}x while was_empty={wase}")
        for c in notif:
            kw = {k.arg: unparse(k.value) for k in c.keywords}
            if kw.get("target") != "self.egress" or kw.get("queue_entity") != "self" or kw.get("time") != "self.now":
                bad.append(f"notify event fields {kw}")
    ctx.ob("C08-6", "G2", he, "accepted|dropped once; notify iff was empty", not bad,
           "each offered event is counted accepted or dropped exactly once; the driver is woken iff the queue was empty before this push" + ("" if not bad else " — " + "; ".join(bad[:2])))
    hp = prog.func(Q, "Queue._handle_poll")
    pff = ctx.flow(hp)
    evq = [p for p in hp.params() if p != "self"][0]
    bad = []
    for p in enumerate_paths(pff, pff.cfg.entry):
        if p.end != "exit":
            continue
        pops = [n for n in p.nodes if n.kind == "stmt" and isinstance(n.ast, ast.Assign) and isinstance(n.ast.value, ast.Call) and path_of(n.ast.value.func) == "self.policy.pop"]
        dl = [c for n in p.nodes for e in own_exprs(n) for c in walk_scope(e) if isinstance(c, ast.Call) and path_of(c.func) == "QueueDeliverEvent"]
        if len(pops) != 1:
            bad.append(f"pops {len(pops)}x")
            continue
        item = pops[0].ast.targets[0].id
        none = p.decided(lambda t: t == f"{item}isNone")
        if none is True and not dl and p.decided(lambda t: t == f"{evq}.requestorisNone") is not True:
            bad.append("an empty poll of a driver is not answered: the driver's outstanding-poll record is never cleared at this instant and triggers it held back are lost")
        if none is True and dl:
            # an empty poll may be *answered* (so the driver knows its poll is no longer outstanding) but carries nothing
            kw0 = [{k.arg: unparse(k.value) for k in d_.keywords} for d_ in dl]
            if len(dl) != 1 or kw0[0].get("payload") not in ("None", item) or kw0[0].get("target") != f"{evq}.requestor" or kw0[0].get("time") != "self.now":
                bad.append(f"an empty poll may only be answered with one empty delivery to the requestor (found {kw0})")
        if none is False:
            kw = {k.arg: unparse(k.value) for k in dl[0].keywords} if len(dl) == 1 else {}
            if len(dl) != 1 or kw.get("payload") != item or kw.get("target") != f"{evq}.requestor" or kw.get("time") != "self.now":
                bad.append(f"popped item must be delivered exactly once to the requestor (deliveries {len(dl)}, fields {kw})")
    ctx.ob("C08-6", "G2", hp, "poll delivers exactly what it pops", not bad, "a poll removes at most one item and hands exactly that item to the requesting driver" + ("" if not bad else " — " + "; ".join(bad[:2])))
    hc = prog.func(Q, "Queue.has_capacity")
    rets = [s for s in walk_stmts(hc.node.body) if isinstance(s, ast.Return)]
    ok = len(rets) == 1 and {f.sig for f in atoms(rets[0].value, True)} == {("lt", "len(self.policy)", "self.policy.capacity")}
    ctx.ob("C08-6", "G4", hc, rets[0] if rets else None, ok, "Queue.has_capacity ⇔ held < capacity")
    # driver
    wp = prog.func(QD, "QueueDriver._handle_work_payload")
    pay = [p for p in wp.params() if p != "self"][0]
    hooks = [c for c in calls_in(wp.node) if isinstance(c.func, ast.Attribute) and c.func.attr == "add_completion_hook"]
    rets = [s for s in walk_stmts(wp.node.body) if isinstance(s, ast.Return)]
    tev = path_of(hooks[0].func.value) if hooks else None
    alias = [s for s in walk_stmts(wp.node.body) if isinstance(s, ast.Assign) and path_of(s.targets[0]) == tev and path_of(s.value) == pay]
    retarget = stmts_matching(wp, f"{tev}.target = self.target")
    retime = stmts_matching(wp, f"{tev}.time = self.now")
    sd_w = single_defs(wp)
    rv = expand(rets[0].value, {k_: v_ for k_, v_ in sd_w.items() if k_ != tev}) if len(rets) == 1 and rets[0].value is not None else None
    elts = rv.elts if isinstance(rv, ast.List) else []
    ok = len(hooks) == 1 and (tev == pay or len(alias) == 1) and len(retarget) == 1 and len(retime) == 1 and len(rets) == 1 and sum(1 for e_ in elts if path_of(e_) == tev) == 1
    ctx.ob("C08-6", "G2", wp, "same payload, one hook", ok, "the driver re-targets the very payload object (it keeps its creation index) to the worker at the current instant, exactly once, with exactly one completion hook")
    # burst re-check: the queue notifies only on empty → non-empty, so after handing an item over the driver must look again at the same instant,
    # *after* the target has taken the item (an event built here is created after the payload, hence delivered after it)
    rechecks = [e_ for e_ in elts if isinstance(e_, ast.Call) and path_of(e_.func) == "QueueNotifyEvent"]
    kw = {k_.arg: unparse(k_.value) for k_ in rechecks[0].keywords} if len(rechecks) == 1 else {}
    okr = len(elts) == 2 and len(rechecks) == 1 and kw.get("time") == "self.now" and kw.get("target") == "self"
    ctx.ob("C08-6", "G2", wp, "burst re-check", okr, "after forwarding an item the driver re-examines the target's capacity at the same instant (a notify to itself, ordered after the payload): "
           "of k items arriving together a worker with c free slots takes min(k, c) at once — no simulated time passes while an item waits and the worker has capacity")
    hook_fn = [f for f in wp.module.all_functions if f.parent is wp and hooks and f.name == path_of(hooks[0].args[0])]
    need(hook_fn, "C08-6: completion hook closure not found")
    hf = hook_fn[0]
    hff = ctx.flow(hf)
    # one outstanding poll per instant: a poll shows up in has_capacity() only after poll → deliver → work event → acquire, all at one instant;
    # a second trigger in between would dequeue an item for which there is no free slot (Server/ThreadPool then discard it).  So: polls are
    # built in one place that records the instant; every request for a poll is refused while a poll of this instant is unanswered (and
    # remembered); the delivery clears the record and a held-back trigger is looked at again.
    drv = prog.cls(QD, "QueueDriver")
    builders = [(m, c) for m in [f for f in drv.module.all_functions if f.cls is drv or (f.parent is not None and f.parent.cls is drv)] for c in calls_in(m.node) if path_of(c.func) == "QueuePollEvent"]
    pb = prog.func(QD, "QueueDriver._poll")
    okb = len(builders) == 1 and builders[0][0] is pb and len(stmts_matching(pb, "self._poll_sent_at = time")) == 1
    kw = {k.arg: unparse(k.value) for k in builders[0][1].keywords} if builders else {}
    okb = okb and kw.get("target") == "self.queue" and kw.get("requestor") == "self" and kw.get("time") == "time"
    ctx.ob("C08-6", "G2", pb, builders[0][1] if builders else None, okb, "QueuePollEvents are built only by QueueDriver._poll, which records the instant of the outstanding poll")
    inflight = prog.func(QD, "QueueDriver._poll_in_flight")
    rets_i = [s_ for s_ in walk_stmts(inflight.node.body) if isinstance(s_, ast.Return)]
    oki = len(rets_i) == 1 and {f.sig for f in atoms(rets_i[0].value, True)} == {("isnot", "self._poll_sent_at", "None"), ("eq", "self._poll_sent_at", "self.now")}
    ctx.ob("C08-6", "G3", inflight, rets_i[0] if rets_i else None, oki, "a poll counts as outstanding only at the instant it was sent (an unanswered poll cannot block the driver at later instants)")
    for fn_, when, timearg in ((hf, "on completion", hf.params()[0]), (prog.func(QD, "QueueDriver._handle_notify"), "on a notify", "self.now")):
        fff = ctx.flow(fn_)
        pcs = [c for c in calls_in(fn_.node) if path_of(c.func) == "self._poll"]
        okp = len(pcs) == 1 and fff.holds_at(node_of(fff.cfg, pcs[0]), Fact("truthy", "self.target.has_capacity()")) and fff.holds_at(node_of(fff.cfg, pcs[0]), Fact("falsy", "self._poll_in_flight()")) \
            and [unparse(a_) for a_ in pcs[0].args] == [timearg]
        ctx.ob("C08-6", "G1", fn_, pcs[0] if pcs else None, okp, f"{when} the driver polls the queue iff the target has capacity and no poll of this instant is unanswered, at the current instant")
        # a refused trigger is remembered
        held = [s_ for s_ in walk_stmts(fn_.node.body) if isinstance(s_, ast.Assign) and path_of(s_.targets[0]) == "self._poll_wanted" and isinstance(s_.value, ast.Constant) and s_.value.value is True]
        okh = len(held) == 1 and fff.holds_at(node_of(fff.cfg, held[0]), Fact("truthy", "self._poll_in_flight()"))
        ctx.ob("C08-6", "G2", fn_, held[0] if held else None, okh, f"{when}, a trigger that arrives while a poll is outstanding is remembered (`_poll_wanted`), not dropped")
    hd = prog.func(QD, "QueueDriver._handle_delivery")
    calls = [c for c in calls_in(hd.node) if path_of(c.func) == "self._handle_work_payload"]
    okd = len(calls) == 1 and unparse(calls[0].args[0]).endswith(".payload")
    ctx.ob("C08-6", "G2", hd, calls[0] if calls else None, okd, "a delivery hands its payload to the worker exactly once")
    hdf = ctx.flow(hd)
    clr = [n_ for n_ in hdf.cfg.nodes if n_.kind == "stmt" and isinstance(n_.ast, ast.Assign) and path_of(n_.ast.targets[0]) == "self._poll_sent_at" and isinstance(n_.ast.value, ast.Constant) and n_.ast.value.value is None]
    okc = len(clr) == 1 and all(any(nd is clr[0] for nd in p_.nodes) for p_ in enumerate_paths(hdf, hdf.cfg.entry) if p_.end == "exit")
    # an empty delivery with a held-back trigger re-examines the queue; a real delivery is followed by the burst re-check (above)
    bad_e = []
    for p_ in enumerate_paths(hdf, hdf.cfg.entry):
        if p_.end != "exit":
            continue
        empty = p_.decided(lambda t: t in ("event.payloadisNone",))
        wanted = p_.decided(lambda t: t == "self._poll_wanted")
        notes = [k for nd in p_.nodes if nd.kind == "stmt" for k in calls_in(nd.ast) if path_of(k.func) == "QueueNotifyEvent"]
        if empty is True and wanted is True and len(notes) != 1:
            bad_e.append(p_.describe()[:80])
    ctx.ob("C08-6", "G2", hd, clr[0].ast if clr else None, okc and not bad_e, "every delivery (empty or not) clears the outstanding-poll record, and a trigger held back during an empty poll is looked at again")
    ctx.floor("C08-6", 12)


def rule_acquire_release(ctx: Ctx) -> None:
    prog = ctx.prog
    for rel, q, model, rejected in ((SRV, "Server.handle_queued_event", "self._concurrency_model", "self._requests_rejected"),
                                    (TP, "ThreadPool.handle_queued_event", "self._worker_pool", "self._tasks_rejected")):
        fn = prog.func(rel, q)
        ff = ctx.flow(fn)
        acq = [c for c in calls_in(fn.node) if path_of(c.func) == f"{model}.acquire"]
        need(len(acq) == 1, f"C08-5: {q} should acquire exactly once")
        an = node_of(ff.cfg, acq[0])
        holder = an.ast.targets[0].id if isinstance(an.ast, ast.Assign) else None
        bad = []
        for p in enumerate_paths(ff, an):
            if p.end != "exit":
                continue
            rel_calls = [c for n in p.nodes for e in own_exprs(n) for c in walk_scope(e) if isinstance(c, ast.Call) and path_of(c.func) == f"{model}.release"]
            got = p.decided(lambda t: t == holder) if holder else None
            rej = sum(1 for n in p.nodes if n.kind == "stmt" and increment_of(n.ast, rejected) == 1)
            if got is True:
                if len(rel_calls) != 1 or [unparse(a) for a in rel_calls[0].args] != [unparse(a) for a in acq[0].args] or rej:
                    bad.append(f"path [{p.describe()[:100]}] after a successful acquire releases {len(rel_calls)}x")
            elif got is False:
                if rel_calls or rej != 1:
                    bad.append(f"failed-acquire path releases {len(rel_calls)}x / counts {rej} rejection(s)")
            else:
                bad.append("the result of acquire() is not tested")
        ctx.ob("C08-5", "G2", fn, acq[0], not bad, f"{q}: every path after a successful acquire releases the same weight exactly once; a failed acquire is counted as rejected" + ("" if not bad else " — " + "; ".join(bad[:2])))
    # try/finally in-service counters of the industrial variants
    for rel, q, attr in ((SHIFT, "ShiftedServer.handle_queued_event", "self._active"), (POOLED, "PooledCycleResource._start_cycle", "self._active")):
        fn = prog.try_func(rel, q)
        if fn is None:
            cands = [f for f in prog.module(rel).all_functions if f.name == q.split(".")[1]]
            need(cands, f"C08-5: {q} missing")
            fn = cands[0]
        ff = ctx.flow(fn)
        bad = []
        for p in enumerate_paths(ff, ff.cfg.entry):
            if p.end != "exit":
                continue
            net = 0
            for n in p.nodes:
                if n.kind == "stmt":
                    k = increment_of(n.ast, attr)
                    if k not in (None, "other"):
                        net += k
            # a unit handed to the queue head (the hand-off event is remembered in `_handed_off`) stays in service on behalf of that event, and
            # a cycle started for such an event (`reserved`) did not take a unit itself: net == [handed off] − [started reserved]
            handed = sum(1 for n in p.nodes if n.kind == "stmt" and any(path_of(k.func) == "self._handed_off.add" for k in calls_in(n.ast)))
            reserved = 1 if p.decided(lambda t: t == "reserved") is True else 0
            if net != handed - reserved:
                bad.append(f"path [{p.describe()[:100]}] leaves the in-service count changed by {net} (handed off {handed}, started reserved {reserved})")
        tries = [s for s in walk_stmts(fn.node.body) if isinstance(s, ast.Try) and s.finalbody and any(increment_of(x, attr) == -1 for x in s.finalbody)]
        ctx.ob("C08-5", "G2", fn, tries[0] if tries else None, not bad and bool(tries), f"{fn.qual}: the in-service count is restored on every exit (decrement in `finally`)" + ("" if not bad else " — " + bad[0]))
    asv = prog.func(ASRV, "AsyncServer.handle_event")
    guard(ctx, "C08-5", asv, "self._active_connections += 1", "self.has_capacity()", "AsyncServer accepts a connection only with capacity")
    ctx.floor("C08-5", 5)


GATE = "happysimulator/components/industrial/gate_controller.py"


def rule_round2(ctx: Ctx) -> None:
    prog = ctx.prog
    from .common import counting_symmetry
    n = counting_symmetry(ctx, "C08-5", CONC)
    need(n >= 3, f"C08-5: expected >= 3 counting concurrency models, found {n}")
    # heap discipline: a list managed with heapq is re-bound or edited by hand only together with a heapify of what is installed
    n_h = 0
    for fn in prog.all_functions(QPS):
        cls_txt = unparse(fn.cls.node) if fn.cls is not None else ""
        if "heapq.heappush(self._heap" not in cls_txt or fn.name == "__init__":
            continue
        ff = None
        for st in walk_stmts(fn.node.body):
            hand = None
            if isinstance(st, ast.Assign) and path_of(st.targets[0]) == "self._heap" and not (isinstance(st.value, ast.List) and not st.value.elts):
                hand = ("rebind", path_of(st.value) or unparse(st.value))
            elif isinstance(st, ast.Expr) and isinstance(st.value, ast.Call) and isinstance(st.value.func, ast.Attribute) and path_of(st.value.func.value) == "self._heap" \
                    and st.value.func.attr in ("remove", "pop", "insert", "append", "extend", "sort", "reverse"):
                hand = ("edit", "self._heap")
            elif isinstance(st, ast.Delete) and any(isinstance(t, ast.Subscript) and path_of(t.value) == "self._heap" for t in st.targets):
                hand = ("edit", "self._heap")
            if hand is None:
                continue
            n_h += 1
            ff = ff or ctx.flow(fn)
            sn = node_of(ff.cfg, st)
            hs = [c for c in calls_in(fn.node) if path_of(c.func) == "heapq.heapify" and c.args and path_of(c.args[0]) in (hand[1], "self._heap")]
            ok = False
            if hand[0] == "rebind" and hs:
                # the installed list was heapified before it is installed, or the attribute is heapified afterwards on every path
                ok = any(not always_before(ctx, fn, lambda x, h=h: x is node_of(ff.cfg, h), lambda x: x is sn) for h in hs if path_of(h.args[0]) == hand[1])
            if not ok and hs:
                after = [node_of(ff.cfg, h) for h in hs if path_of(h.args[0]) == "self._heap"]
                if after:
                    ok = all(any(n2 in after for n2 in p.nodes) for p in enumerate_paths(ff, sn) if p.end == "exit")
            ctx.ob("C08-3", "G2", fn, st, ok, f"{fn.qual}: the heap list is {'replaced' if hand[0] == 'rebind' else 'edited by hand'} only together with heapq.heapify (a filtered or edited list is not a heap; pop would no longer return the minimum)")
    need(n_h >= 1, "C08-3: no hand edit / rebind of a heapq-managed list found (expected DeadlineQueue.purge_expired)")
    # gate schedule: open and close of a window are created together, windows in schedule order (creation order breaks same-instant ties)
    se = prog.func(GATE, "GateController.start_events")
    loops = [st for st in se.node.body if isinstance(st, ast.For) and path_of(st.iter) == "self.schedule"]
    ok = len(loops) == 1
    if ok:
        kinds = [unparse(k.value) for c in calls_in(loops[0]) if path_of(c.func) == "Event" for k in c.keywords if k.arg == "event_type"]
        ok = kinds == ["_GATE_OPEN", "_GATE_CLOSE"] and not any(isinstance(x, (ast.ListComp, ast.GeneratorExp)) and "Event" in unparse(x) for x in ast.walk(se.node))
        rets = [st for st in se.node.body if isinstance(st, ast.Return)]
        ok = ok and len(rets) == 1 and path_of(rets[0].value) is not None
    ctx.ob("C08-3", "G2", se, loops[0] if loops else None, ok, "GateController creates each window's open event and then its close event, window by window: a close and the next window's open at the same instant are delivered close-first")


def rule_capacity_rise_repolls(ctx: Ctx) -> None:
    """C08-7: the queue notifies its driver only on empty → non-empty and the driver otherwise polls on completions, so a queue-fronted
    component that *raises its own capacity* at run time must tell the driver to look at the queue — else queued work waits (for ever, if
    the capacity was 0) although the worker has room.  For every QueuedResource subclass whose `has_capacity` is `<in service> < self.<CAP>`:
    every run-time write of `self.<CAP>` sits in a function that returns a QueueNotifyEvent for the driver, guarded at most by a comparison
    of the new value with the old one."""
    prog = ctx.prog
    n_cls = n_w = 0
    for c in prog.subclasses_of_name("QueuedResource", "happysimulator/components/"):
        hc = c.methods.get("has_capacity")
        if hc is None:
            continue
        rets = [s_ for s_ in walk_stmts(hc.node.body) if isinstance(s_, ast.Return) and s_.value is not None]
        if len(rets) != 1:
            continue
        sigs = [f.sig for f in atoms(rets[0].value, True)]
        if len(sigs) != 1 or sigs[0][0] != "lt" or not sigs[0][2].startswith("self.") or "." in sigs[0][2][5:] or "(" in sigs[0][2]:
            continue  # capacity delegated to a model object / not a plain attribute bound: other rules
        cap = sigs[0][2]
        n_cls += 1
        for m in c.methods.values():
            if m.name == "__init__":
                continue
            ws = [s_ for s_ in walk_stmts(m.node.body) if isinstance(s_, (ast.Assign, ast.AugAssign)) and any(path_of(t_) == cap for t_ in (s_.targets if isinstance(s_, ast.Assign) else [s_.target]))]
            for w in ws:
                n_w += 1
                # exempt: the write is part of handling an arriving item and that very item is enqueued afterwards on every path
                # (`super().handle_event(event)`): the enqueue itself notifies the driver when the queue was empty, and it was — nothing
                # could have been queued before the first item
                mf0 = ctx.flow(m)
                wn0 = node_of(mf0.cfg, w)
                enq = [nd for nd in mf0.cfg.nodes if nd.kind == "stmt" and any(unparse(k.func).replace(" ", "") == "super().handle_event" for k in calls_in(nd.ast))]
                first_item = all(p_.decided(lambda t: t == "self._initialized") is False for p_ in enumerate_paths(mf0, mf0.cfg.entry, stop=lambda x: x is wn0) if p_.end == "stop" and p_.nodes[-1] is wn0)
                if enq and first_item and all(any(any(nd is e_ for e_ in enq) for nd in p_.nodes) for p_ in enumerate_paths(mf0, wn0, stop=lambda x: x is mf0.cfg.exit) if p_.end in ("exit", "stop")):
                    ctx.ob("C08-7", "G2", m, w, True, f"{c.name}.{m.name}: capacity set while handling the first arriving item, which is then enqueued (the enqueue notifies the driver)")
                    continue
                notes = [k for k in calls_in(m.node) if path_of(k.func) == "QueueNotifyEvent"
                         and {kw.arg: unparse(kw.value) for kw in k.keywords}.get("target") in ("self.driver", "self._driver")
                         and {kw.arg: unparse(kw.value) for kw in k.keywords}.get("time") == "self.now"]
                ok, why = bool(notes), "no QueueNotifyEvent(time=self.now, target=self.driver) in this function"
                if ok:
                    mf = ctx.flow(m)
                    st = enclosing_stmt(m, notes[0])
                    nn = node_of(mf.cfg, st)
                    wn = node_of(mf.cfg, w)
                    # the notify comes after the write, and the only tests between them compare the new capacity with the old one
                    ok = not always_before(ctx, m, lambda x: x is wn, lambda x: x is nn)
                    why = "the notify can be reached without the capacity having been written"
                    if ok:
                        newv = path_of(w.value) if isinstance(w, ast.Assign) else None
                        olds = {path_of(s_.targets[0]) for s_ in walk_stmts(m.node.body) if isinstance(s_, ast.Assign) and path_of(s_.value) == cap and isinstance(s_.targets[0], ast.Name)}
                        for p_ in enumerate_paths(mf, wn, stop=lambda x: x is mf.cfg.exit):
                            if any(x is nn for x in p_.nodes):
                                continue
                            # a path from the write to the exit without the notify: allowed only when it decided `new > old` false
                            dec = [(n_, l_) for n_, l_ in zip(p_.nodes, p_.labels) if n_.kind == "test" and l_ is not None]
                            rose = None
                            for n_, l_ in dec:
                                fs = {f.sig for f in atoms(n_.ast, True)}
                                if newv and any(sg[0] == "lt" and sg[1] in olds and sg[2] == newv for sg in fs):
                                    rose = l_[1]
                            if rose is not False:
                                ok, why = False, f"a path leaves the function after the write without notifying the driver [{p_.describe()[:100]}]"
                                break
                # writes at construction-time helpers are exempt only through the __init__ skip above
                ctx.ob("C08-7", "G2", m, w, ok, f"{c.name}.{m.name}: a run-time change of the capacity `{cap}` tells the driver to look at the queue (QueueNotifyEvent to the driver at the same instant), "
                       "otherwise items queued while there was no room wait although there is room now" + ("" if ok else " — " + why))
    # capacity *models* (plain objects a Server delegates has_capacity() to): a method that can raise the limit at run time has no way to emit
    # an event, so unless the owning server is told, queued work waits for the next completion although slots are free
    for c in prog.module(CONC).classes.values():
        hc = c.methods.get("has_capacity")
        if hc is None or prog.is_subclass(c, "Entity"):
            continue
        rets = [s_ for s_ in walk_stmts(hc.node.body) if isinstance(s_, ast.Return) and s_.value is not None]
        lims = {sg[2] for r_ in rets for sg in (f.sig for f in atoms(r_.value, True)) if sg[0] in ("lt", "le") and sg[2].startswith("self.") and "(" not in sg[2]}
        for lim in sorted(lims):
            for m in c.methods.values():
                if m.name in ("__init__", "__post_init__"):
                    continue
                for w in [s_ for s_ in walk_stmts(m.node.body) if isinstance(s_, (ast.Assign, ast.AugAssign)) and any(path_of(t_) == lim for t_ in (s_.targets if isinstance(s_, ast.Assign) else [s_.target]))]:
                    n_w += 1
                    tells = [k for k in calls_in(m.node) if isinstance(k.func, ast.Attribute) and k.func.attr in ("_on_limit_raised", "on_limit_raised", "notify", "_notify")]
                    ctx.ob("C08-7", "G2", m, w, bool(tells), f"{c.name}.{m.name} can raise the concurrency limit `{lim}` of a running server but nothing tells the server's queue driver: queued items "
                           "wait for the next completion although slots are free")
    need(n_cls >= 1 and n_w >= 1, f"C08-7: expected at least one queue-fronted component with a run-time capacity attribute (ShiftedServer), found {n_cls} classes / {n_w} writes")


def rule_timer_handle_not_stale(ctx: Ctx) -> None:
    """C08-8: a pending-timer handle kept in an attribute (`self._timeout_event = Event(...)` armed by one handler) and cancelled / cleared by a
    *generator* handler is cancelled before that generator's first clock-advancing suspension.  After the suspension the attribute may already
    name the timer the arming handler created for the *next* batch: cancelling it strands that batch (no flush ever comes)."""
    from ..suspend import event_class_names, node_suspension

    prog = ctx.prog
    ev = event_class_names(prog)
    n = 0
    for c in prog.all_classes("happysimulator/components/"):
        armed: dict[str, set[str]] = {}
        for m in c.methods.values():
            for st in walk_stmts(m.node.body):
                if isinstance(st, ast.Assign) and isinstance(st.value, ast.Call) and (path_of(st.value.func) or "").split(".")[-1] in ev:
                    for t_ in st.targets:
                        p_ = path_of(t_) or ""
                        if p_.startswith("self.") and p_.count(".") == 1:
                            armed.setdefault(p_, set()).add(m.name)
        if not armed:
            continue
        for m in c.methods.values():
            if not m.is_generator:
                continue
            mf = ctx.flow(m)
            susp = [nd for nd in mf.cfg.nodes if nd.kind in ("stmt", "test", "for", "with") and node_suspension(prog, m, nd) == "advance"]
            after: set[int] = set()
            todo = list(susp)
            while todo:
                x = todo.pop()
                for y, _lbl in x.succ:
                    if y.id not in after:
                        after.add(y.id)
                        todo.append(y)
            for a, armers in armed.items():
                if armers <= {m.name}:
                    continue  # only this generator arms it: nothing else can replace the handle meanwhile
                for nd in mf.cfg.nodes:
                    if nd.kind != "stmt":
                        continue
                    cancels = any(isinstance(k.func, ast.Attribute) and k.func.attr == "cancel" and path_of(k.func.value) == a for k in calls_in(nd.ast))
                    clears = isinstance(nd.ast, ast.Assign) and any(path_of(t_) == a for t_ in nd.ast.targets) and isinstance(nd.ast.value, ast.Constant) and nd.ast.value.value is None
                    if cancels or clears:
                        n += 1
                        ok = nd.id not in after
                        ctx.ob("C08-8", "G5", m, nd.ast, ok, f"{c.name}.{m.name}: the timer handle `{a}` (armed by {sorted(armers)}) is cancelled / cleared before the generator's first clock-advancing suspension "
                               "— afterwards the attribute may already hold the next batch's timer")
    need(n >= 2, f"C08-8: expected >= 2 cancel/clear sites of an armed timer handle inside generator handlers (BatchProcessor), found {n}")


def rule_hunted_industrial(ctx: Ctx) -> None:
    """C08-7/C08-1 (hunted defects): capacity that comes back or is first established must be looked at by the driver, and a unit handed to the
    queue head is reserved for it.
    (a) ShiftedServer starts its shift chain on the first item with the schedule's capacity *for that time* (boundaries before the first arrival
        were never processed);
    (b) a component that takes another entity out of service and puts it back (`<target>._broken = False`) notifies that entity's queue driver;
    (c) PooledCycleResource reserves the freed unit when it pops the queue head and remembers the hand-off event, so a same-instant arrival
        cannot take the unit and jump the queue."""
    prog = ctx.prog
    he = prog.func(SHIFT, "ShiftedServer.handle_event")
    hf = ctx.flow(he)
    chain = [nd for nd in hf.cfg.nodes if nd.kind == "stmt" and any(path_of(k.func) == "self._schedule_next_shift" for k in calls_in(nd.ast))]
    caps = [nd for nd in hf.cfg.nodes if nd.kind == "stmt" and isinstance(nd.ast, ast.Assign) and path_of(nd.ast.targets[0]) == "self._current_capacity"
            and isinstance(nd.ast.value, ast.Call) and path_of(nd.ast.value.func) == "self.schedule.capacity_at" and "self.now" in unparse(nd.ast.value)]
    ok = len(chain) == 1 and bool(caps) and not always_before(ctx, he, lambda x: any(x is c_ for c_ in caps), lambda x: x is chain[0])
    ctx.ob("C08-7", "G2", he, chain[0].ast if chain else None, ok, "ShiftedServer: when the shift-change chain is started (first item) the capacity in force is first set to `schedule.capacity_at(now)` — "
           "a shift that began before the first arrival is on duty")
    n_b = 0
    for fn in prog.all_functions("happysimulator/components/industrial/"):
        ups = [s_ for s_ in walk_stmts(fn.node.body) if isinstance(s_, ast.Assign) and isinstance(s_.targets[0], ast.Attribute) and s_.targets[0].attr == "_broken" and path_of(s_.targets[0].value) not in (None, "self")
               and isinstance(s_.value, ast.Constant) and s_.value.value is False and fn.name not in ("__init__", "__post_init__")]
        for u in ups:
            n_b += 1
            tgt = path_of(u.targets[0].value)
            ff = ctx.flow(fn)
            un = node_of(ff.cfg, u)
            notes = [nd for nd in ff.cfg.nodes if nd.kind == "stmt" and any(path_of(k.func) == "QueueNotifyEvent" for k in calls_in(nd.ast))]
            drv = [s_ for s_ in walk_stmts(fn.node.body) if isinstance(s_, ast.Assign) and unparse(s_.value).replace(" ", "") in (f"getattr({tgt},'driver',None)", f"{tgt}.driver")]
            okb = bool(notes) and bool(drv)
            if okb:
                dname = path_of(drv[0].targets[0])
                for p_ in enumerate_paths(ff, un, stop=lambda x: x is ff.cfg.exit):
                    if p_.end not in ("exit", "stop"):
                        continue
                    sent = any(any(nd is x for x in notes) for nd in p_.nodes)
                    no_driver = p_.decided(lambda t: t == f"{dname}isnotNone") is False or p_.decided(lambda t: t.endswith("isnotNone") and t != f"{dname}isnotNone") is False
                    if not (sent or no_driver):
                        okb = False
            ctx.ob("C08-7", "G2", fn, u, okb, f"{fn.qual}: putting `{tgt}` back in service is followed by a queue notify to its driver whenever it has one (a queue-fronted target fetches work only on a notify or a completion)")
    need(n_b >= 1, "C08-7: no repair site (`<target>._broken = False`) found in components/industrial")
    sc = [f for f in prog.module(POOLED).all_functions if f.name == "_start_cycle"]
    need(sc, "C08-1: PooledCycleResource._start_cycle missing")
    sc = sc[0]
    pops = [s_ for s_ in walk_stmts(sc.node.body) if isinstance(s_, ast.Assign) and isinstance(s_.value, ast.Call) and (path_of(s_.value.func) or "").endswith(("popleft", "pop")) and "self._queue" in unparse(s_.value)]
    okc = False
    if len(pops) == 1:
        blk = [b for x in ast.walk(sc.node) for fld in ("body", "orelse", "finalbody") for b in [getattr(x, fld, None)] if isinstance(b, list) and pops[0] in b]
        if blk:
            rest = blk[0][blk[0].index(pops[0]):]
            okc = any(increment_of(x, "self._available") == -1 for x in rest) and any(increment_of(x, "self._active") == 1 for x in rest) \
                and any(isinstance(x, ast.Expr) and isinstance(x.value, ast.Call) and path_of(x.value.func) == "self._handed_off.add" for x in rest)
    ctx.ob("C08-1", "G2", sc, pops[0] if pops else None, okc, "PooledCycleResource: popping the queue head reserves the freed unit for it (available −1, active +1) and remembers the hand-off event — "
           "the head keeps its place against same-instant arrivals")


def rule_sized_collaborator_defaults(ctx: Ctx) -> None:
    """C08-3: a queue policy handed to a component is the one that orders its queue.  `policy or FIFOQueue()` is not a None test: every
    queue policy defines `__len__`, a fresh (empty) policy object is falsy, and the expression silently replaces it by the default.  For
    every constructor in components/: a parameter whose class (by annotation, or by the class of the default next to it) — or any subclass
    of it — defines `__len__` or `__bool__` is never defaulted with `or`."""
    prog = ctx.prog
    sized: dict[str, bool] = {}

    def is_sized(cname: str) -> bool:
        if cname not in sized:
            sized[cname] = False
            for c in prog.all_classes("happysimulator/"):
                if c.name == cname or prog.is_subclass(c, cname):
                    if any(m in c.methods for m in ("__len__", "__bool__")):
                        sized[cname] = True
                        break
        return sized[cname]
    n = 0
    for fn in prog.all_functions("happysimulator/components/"):
        if fn.name not in ("__init__", "__post_init__") or fn.cls is None:
            continue
        ann = {}
        for a in fn.node.args.args + fn.node.args.kwonlyargs:
            if a.annotation is not None:
                ann[a.arg] = {x.id for x in ast.walk(a.annotation) if isinstance(x, ast.Name)} | {x.attr for x in ast.walk(a.annotation) if isinstance(x, ast.Attribute)}
        for x in walk_scope(fn.node, include_root=False):
            if isinstance(x, ast.BoolOp) and isinstance(x.op, ast.Or) and isinstance(x.values[0], ast.Name) and x.values[0].id in fn.params() and isinstance(x.values[1], ast.Call):
                pname = x.values[0].id
                cands = set(ann.get(pname, set())) | {(path_of(x.values[1].func) or "").split(".")[-1]}
                hit = sorted(c_ for c_ in cands if c_ and c_[:1].isupper() and is_sized(c_))
                if hit:
                    n += 1
                    ctx.ob("C08-3", "G7", fn, x, False, f"{fn.qual}: `{unparse(x)[:60]}` discards a supplied `{pname}` whenever it is falsy — {hit} define __len__/__bool__, so a fresh, empty object is replaced by the default; use `is not None`")
    # the pattern must stay absent; the instance floor is the three repaired constructors, recognised by their `is not None` spelling
    ok_sites = 0
    for fn in prog.all_functions("happysimulator/components/"):
        if fn.name == "__init__" and fn.cls is not None:
            for x in walk_scope(fn.node, include_root=False):
                if isinstance(x, ast.IfExp) and isinstance(x.body, ast.Name) and x.body.id in fn.params() and {f.sig for f in atoms(x.test, True)} == {("isnot", x.body.id, "None")} \
                        and isinstance(x.orelse, ast.Call) and is_sized((path_of(x.orelse.func) or "").split(".")[-1]):
                    ok_sites += 1
                    ctx.ob("C08-3", "G7", fn, x, True, f"{fn.qual}: `{unparse(x)[:70]}` keeps a supplied (possibly empty) object")
    need(ok_sites + n >= 3, f"C08-3: expected >= 3 constructors defaulting a sized collaborator, found {ok_sites + n}")


def rule_wfq_weight_floor(ctx: Ctx) -> None:
    """C08-3 (weighted fair queue): `pop` finds an item within its bounded search only if every backlogged flow gets at least one credit per
    round, i.e. a flow's weight is >= 1 wherever it is stored — at flow creation *and* at any later refresh.  A weight of 0 (the weight
    function is user code and is documented as "treated as 1") leaves the flow at zero credits: pop() returns None while items are held, the
    driver parks and the non-empty queue suppresses later notifies."""
    prog = ctx.prog
    c = prog.cls(QPS + "weighted_fair_queue.py", "WeightedFairQueue")
    n = 0
    for fn in c.methods.values():
        sites = []
        for k in calls_in(fn.node):
            if path_of(k.func) == "_FlowState":
                sites += [(k, kw.value) for kw in k.keywords if kw.arg == "weight"]
        for st in walk_stmts(fn.node.body):
            if isinstance(st, ast.Assign) and isinstance(st.targets[0], ast.Attribute) and st.targets[0].attr == "weight" and path_of(st.targets[0].value) != "self":
                sites.append((st, st.value))
        if not sites:
            continue
        ff = ctx.flow(fn)
        for site, v in sites:
            n += 1
            ok = isinstance(v, ast.Call) and path_of(v.func) == "max" and any(isinstance(a, ast.Constant) and isinstance(a.value, (int, float)) and a.value >= 1 for a in v.args)
            why = ""
            if not ok and isinstance(v, ast.Name):
                node = next((x for x in ff.cfg.nodes if x.kind == "stmt" and any(y is site for y in ast.walk(x.ast))), None)
                ok = node is not None
                for p_ in (enumerate_paths(ff, ff.cfg.entry, stop=lambda x: x is node) if node is not None else []):
                    if p_.end != "stop":
                        continue
                    floored = ("le", "1", v.id) in p_.facts or ("lt", "0", v.id) in p_.facts
                    if not floored:
                        last = None
                        for x in p_.nodes[:-1]:
                            if x.kind == "stmt" and isinstance(x.ast, (ast.Assign, ast.AnnAssign, ast.AugAssign)) and any(path_of(t) == v.id for t in (x.ast.targets if isinstance(x.ast, ast.Assign) else [x.ast.target])):
                                last = x.ast
                        floored = isinstance(last, ast.Assign) and isinstance(last.value, ast.Constant) and isinstance(last.value.value, int) and last.value.value >= 1
                    if not floored:
                        ok = False
                        why = f" — not on the path [{p_.describe()}]"
                        break
            elif not ok:
                why = f" — `{unparse(v)}` is neither `max(1, …)` nor a local floored on every path"
            ctx.ob("C08-3", "G6", fn, site, ok, f"{fn.qual}: the weight stored for a flow (`{unparse(v)}`) is at least 1 on every path" + why)
    need(n >= 1, "C08-3: no flow-weight store found in WeightedFairQueue")


def run(ctx: Ctx) -> None:
    ctx.guarded(rule_wfq_weight_floor)
    ctx.guarded(rule_sized_collaborator_defaults)
    ctx.guarded(rule_hunted_industrial)
    ctx.guarded(rule_policy_contract)
    ctx.guarded(rule_ordering)
    ctx.guarded(rule_queue_entity)
    ctx.guarded(rule_acquire_release)
    ctx.guarded(rule_round2)
    ctx.guarded(rule_capacity_rise_repolls)
    ctx.guarded(rule_timer_handle_not_stale)


CODEL = QPS + "codel.py"
DEADL = QPS + "deadline_queue.py"
FAIR = QPS + "fair_queue.py"
MUTANTS = [
    ("wfq-refill-rereads-unclamped-weight", QPS + "weighted_fair_queue.py", "            # Flow has no credits, reset and move to end\n            flow_state.credits = flow_state.weight\n", "            # Flow has no credits, reset and move to end\n            flow_state.weight = self._get_weight(flow_id)\n            flow_state.credits = flow_state.weight\n", "C08-3"),
    ("wfq-weight-floor-dropped", QPS + "weighted_fair_queue.py", "            if weight < 1:\n                weight = 1  # Minimum weight is 1\n", "", "C08-3"),
    ("shifted-server-policy-or-default", SHIFT, "policy=policy if policy is not None else FIFOQueue()", "policy=policy or FIFOQueue()", "C08-3"),
    ("shifted-server-first-item-keeps-t0-capacity", SHIFT, "            self._current_capacity = self.schedule.capacity_at(self.now.to_seconds())\n            next_event = self._schedule_next_shift()", "            next_event = self._schedule_next_shift()", "C08-7"),
    ("breakdown-repair-does-not-notify", "happysimulator/components/industrial/breakdown.py", "                events.append(QueueNotifyEvent(time=self.now, target=driver, queue_entity=queue))\n", "                pass\n", "C08-7"),
    ("pooled-handoff-not-reserved", POOLED, "            self._handed_off.add(handoff)\n", "", "C08-1"),
    ("driver-notify-polls-while-poll-outstanding", QD, "        if self._poll_in_flight():\n            # One poll per free slot: the delivery of the outstanding poll is\n            # followed by a re-check, which polls again if capacity remains.\n            self._poll_wanted = True\n            return []\n\n", "", "C08-6"),
    ("driver-delivery-keeps-poll-record", QD, "        self._poll_sent_at = None\n        if event.payload is None:", "        if event.payload is None:", "C08-6"),
    ("queue-empty-poll-unanswered", Q, "            if event.requestor is None:\n                return []\n", "            return []\n", "C08-6"),
    ("batch-timeout-cancelled-after-processing", "happysimulator/components/industrial/batch_processor.py", '        # Cancel any pending timeout\n        if self._timeout_event is not None:\n            self._timeout_event.cancel()\n            self._timeout_event = None\n\n        self._processing = True\n        yield self.process_time\n        self._processing = False\n', '        self._processing = True\n        yield self.process_time\n        self._processing = False\n        if self._timeout_event is not None:\n            self._timeout_event.cancel()\n            self._timeout_event = None\n', "C08-8"),
    ("shifted-server-no-repoll", SHIFT, '        if new_capacity > old_capacity:\n            # Items queued while there was no free capacity are only fetched on\n            # a notify or a completion: tell the driver to look at the queue.\n            events.append(QueueNotifyEvent(time=self.now, target=self.driver, queue_entity=self.queue))\n', "", "C08-7"),
    ("shifted-server-repoll-on-drop-only", SHIFT, "        if new_capacity > old_capacity:\n            # Items queued", "        if new_capacity < old_capacity:\n            # Items queued", "C08-7"),
    ("driver-no-burst-recheck", QD, '        recheck = QueueNotifyEvent(time=self.now, target=self, queue_entity=self.queue)\n        return [target_event, recheck]\n', "        return [target_event]\n", "C08-6"),
    ("driver-recheck-later", QD, "recheck = QueueNotifyEvent(time=self.now, target=self,", "recheck = QueueNotifyEvent(time=self.now + 0.001, target=self,", "C08-6"),
    ("dynamic-release-by-weight", CONC, "            weight: Ignored for DynamicConcurrency (always 1).\n        \"\"\"\n        self._active = max(0, self._active - 1)", "            weight: Ignored for DynamicConcurrency (always 1).\n        \"\"\"\n        self._active = max(0, self._active - weight)", "C08-5"),
    ("purge-expired-without-heapify", DEADL, "            heapq.heapify(new_heap)\n            self._heap = new_heap", "            self._heap = new_heap", "C08-3"),
    ("gate-opens-then-closes", GATE, ["        events: list[Event] = []\n        for open_at, close_at in self.schedule:\n            events.append(\n                Event(\n                    time=Instant.from_seconds(open_at),\n                    event_type=_GATE_OPEN,\n                    target=self,\n                    daemon=True,\n                )\n            )\n"],
     ["        events: list[Event] = [Event(time=Instant.from_seconds(o), event_type=_GATE_OPEN, target=self, daemon=True) for o, _ in self.schedule]\n        for open_at, close_at in self.schedule:\n"], "C08-3"),
    ("fifo-push-over-capacity", QP, "class FIFOQueue(QueuePolicy[T]):", "class FIFOQueue(QueuePolicy[T]):\n    _SLACK = 1", "C08-NONE"),
    ("fifo-capacity-off-by-one", QP, "    def push(self, item: T) -> bool:\n        if len(self._queue) >= self.capacity:\n            return False\n        self._queue.append(item)\n        return True\n\n    def pop(self) -> T | None:\n        if not self._queue:\n            return None\n        return self._queue.popleft()",
     "    def push(self, item: T) -> bool:\n        if len(self._queue) > self.capacity:\n            return False\n        self._queue.append(item)\n        return True\n\n    def pop(self) -> T | None:\n        if not self._queue:\n            return None\n        return self._queue.popleft()", "C08-1"),
    ("fifo-pops-newest", QP, "        return self._queue.popleft()", "        return self._queue.pop()", "C08-3"),
    ("lifo-pops-oldest", QP, "        return self._queue.pop()  # LIFO: pop from right", "        return self._queue.popleft()  # LIFO: pop from right", "C08-3"),
    ("priority-entry-compares-payload", QP, "    item: T = field(compare=False)\n\n\nclass PriorityQueue", "    item: T = field(compare=True)\n\n\nclass PriorityQueue", "C08-3"),
    ("priority-counter-not-advanced", QP, "        self._insert_counter += 1\n        heapq.heappush(self._heap, entry)\n        return True", "        heapq.heappush(self._heap, entry)\n        return True", "C08-3"),
    ("codel-push-uncounted", CODEL, "        self._queue.append(queued)\n        self._enqueued += 1\n        return True", "        self._queue.append(queued)\n        return True", "C08-1"),
    ("codel-reject-still-inserts", CODEL, "        if len(self._queue) >= self._capacity:\n            self._capacity_rejected += 1\n            return False", "        if len(self._queue) >= self._capacity:\n            self._capacity_rejected += 1\n            self._queue.append(item)\n            return False", "C08-1"),
    ("codel-pop-uncounted", CODEL, "        self._codel_dequeue(now, sojourn_time)\n\n        self._dequeued += 1\n        return queued.item", "        self._codel_dequeue(now, sojourn_time)\n\n        return queued.item", "C08-2"),
    ("codel-drop-uncounted", CODEL, "            self._queue.popleft()\n            self._dropped += 1", "            self._queue.popleft()", "C08-2"),
    ("deadline-expired-uncounted", DEADL, "            if now is not None and entry.deadline < now:\n                self._expired += 1\n                continue", "            if now is not None and entry.deadline < now:\n                continue", "C08-2"),
    ("fair-push-ignores-flow-capacity", FAIR, "        if len(flow_queue) >= self._per_flow_capacity:\n            self._rejected_flow_capacity += 1\n            return False\n", "", "C08-1"),
    ("queue-notify-after-push-emptiness", Q, "        was_empty = self.policy.is_empty()\n\n        accepted = self.policy.push(event)", "        accepted = self.policy.push(event)\n        was_empty = self.policy.is_empty()", "C08-6"),
    ("queue-notify-always", Q, "        if was_empty:\n            logger.debug(\"[%s] Queue was empty, notifying driver\", self.name)", "        if True:\n            logger.debug(\"[%s] Queue was empty, notifying driver\", self.name)", "C08-6"),
    ("queue-drop-uncounted", Q, "        if not accepted:\n            self.stats_dropped += 1", "        if not accepted:", "C08-6"),
    ("queue-poll-delivers-peek", Q, "        next_item = self.policy.pop()\n        if next_item is None:", "        next_item = self.policy.peek()\n        if next_item is None:", "C08-6"),
    ("driver-polls-without-capacity-check", QD, "        if not self.target.has_capacity():\n            logger.debug(\"[%s] Notify received but target at capacity\", self.name)\n            return []", "", "C08-6"),
    ("driver-hook-polls-always", QD, "            if self.target.has_capacity():\n                logger.debug(\"[%s] Target has capacity, scheduling poll\", self.name)\n                return self._poll(time)",
     "            if True:\n                logger.debug(\"[%s] Target has capacity, scheduling poll\", self.name)\n                return self._poll(time)", "C08-6"),
    ("driver-copies-payload", QD, "        target_event = payload\n", "        target_event = Event(time=self.now, event_type=payload.event_type, target=self.target, context=payload.context)\n", "C08-6"),
    ("server-release-skipped-without-downstream", SRV, "        # Release processing capacity\n        self._concurrency_model.release(weight)\n", "        # Release processing capacity\n        if self._downstream is not None:\n            self._concurrency_model.release(weight)\n", "C08-5"),
    ("server-releases-default-weight", SRV, "        self._concurrency_model.release(weight)", "        self._concurrency_model.release()", "C08-5"),
    ("server-reject-uncounted", SRV, "            self._requests_rejected += 1\n            return None", "            return None", "C08-5"),
    ("threadpool-double-release", TP, "        self._worker_pool.release()\n", "        self._worker_pool.release()\n        self._worker_pool.release()\n", "C08-5"),
    ("pooled-cycle-no-finally", POOLED, "        try:\n            yield self.cycle_time\n        finally:\n            self._active -= 1\n            self._available += 1", "        yield self.cycle_time\n        self._available += 1", "C08-5"),
]
MUTANTS = [m for m in MUTANTS if m[4] != "C08-NONE"]
REFACTORS = [
    ("driver-recheck-listed-first", QD, '        recheck = QueueNotifyEvent(time=self.now, target=self, queue_entity=self.queue)\n        return [target_event, recheck]\n', '        recheck = QueueNotifyEvent(time=self.now, target=self, queue_entity=self.queue)\n        return [recheck, target_event]\n'),
    ("fifo-push-lt", QP, "    def push(self, item: T) -> bool:\n        if len(self._queue) >= self.capacity:\n            return False\n        self._queue.append(item)\n        return True\n\n    def pop(self) -> T | None:\n        if not self._queue:\n            return None\n        return self._queue.popleft()",
     "    def push(self, item: T) -> bool:\n        if len(self._queue) < self.capacity:\n            self._queue.append(item)\n            return True\n        return False\n\n    def pop(self) -> T | None:\n        if not self._queue:\n            return None\n        return self._queue.popleft()"),
    ("queue-enqueue-positive-branch", Q, "        if not accepted:\n            self.stats_dropped += 1", "        if accepted is False or not accepted:\n            self.stats_dropped += 1"),
]
