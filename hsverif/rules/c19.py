"""C19 — messaging: accounting, delivery order, offsets and assignments (structural clauses)."""

from __future__ import annotations

import ast

from ..astutil import calls_in, norm_stmt, path_of, unparse, walk_scope, walk_stmts
from ..cfg import own_exprs
from ..facts import Fact, atoms, enumerate_paths
from ..report import Ctx
from ..suspend import StaleTime, event_class_names, node_suspension
from .common import always_before, expand, filtered_copy, increment_of, need, node_of, single_defs, stmts_matching

MQ = "happysimulator/components/messaging/message_queue.py"
DLQ = "happysimulator/components/messaging/dlq.py"
TOPIC = "happysimulator/components/messaging/topic.py"
LOG = "happysimulator/components/streaming/event_log.py"
CG = "happysimulator/components/streaming/consumer_group.py"

EXPLANATION = (
    "MessageQueue: the three containers (_messages, _pending_queue, _in_flight) are changed only by publish / _deliver_message / acknowledge / "
    "reject / schedule_redelivery, and every transition moves a message id between exactly two accounting places in one atomic step "
    "(publish → stored+pending; deliver → pending→in flight; ack → gone+acked; reject → pending again xor dead-lettered/discarded+gone; "
    "timeout → pending front xor dead-lettered); first deliveries take the left end of a queue publish appends to on the right; the redelivery "
    "limit is compared in the same direction at both sites; nothing already acknowledged is delivered (entry guard on _messages); delivery events "
    "are stamped after the latency. Topic: publish snapshots the active subscribers before its first suspension and emits exactly one event per "
    "snapshot entry. EventLog: each record takes the partition's high watermark as its offset, then the watermark is incremented, in one step, by "
    "_do_append only; the partition comes from the sharding strategy applied to the key; retention removes a prefix / filters in order. "
    "ConsumerGroup: commits are max(old, new); a rebalance recomputes all assignments from all partitions and the sorted current members and "
    "replaces the table at once; each assignment strategy places every partition exactly once (loop-shape check); context keys of the convenience "
    "generators agree with what handle_event reads."
)
RULE_TEXT = "Instances: per container mutation site, per transition path, per strategy, per event type."
NOT_DECIDED = ["at-least-once end to end across consumer crashes", "consumer-side idempotency", "outbox relay timing",
               "StickyAssignment exclusivity across successive calls is inductive on its own previous result (shape checked, induction trusted)"]
ASSUMPTIONS = ["handlers are atomic between suspension points", "message ids are unique (uuid4)"]

CONTAINERS = {"self._messages", "self._pending_queue", "self._in_flight"}
MUT = {"append", "appendleft", "pop", "popleft", "remove", "clear", "insert", "extend", "update", "setdefault", "discard", "add"}


def _mutations(fn, containers=CONTAINERS):
    out = []
    for n in walk_scope(fn.node):
        if isinstance(n, ast.Call) and isinstance(n.func, ast.Attribute) and path_of(n.func.value) in containers and n.func.attr in MUT:
            out.append((path_of(n.func.value), n.func.attr, n))
        if isinstance(n, (ast.Assign, ast.AugAssign)):
            for t in (n.targets if isinstance(n, ast.Assign) else [n.target]):
                if isinstance(t, ast.Subscript) and path_of(t.value) in containers:
                    out.append((path_of(t.value), "setitem", n))
                if path_of(t) in containers:
                    out.append((path_of(t), "rebind", n))
        if isinstance(n, ast.Delete):
            for t in n.targets:
                if isinstance(t, ast.Subscript) and path_of(t.value) in containers:
                    out.append((path_of(t.value), "delitem", n))
    return out


def _ops_on_path(p, containers=CONTAINERS):
    ops = []
    for n in p.nodes:
        for e in own_exprs(n):
            for x in walk_scope(e):
                if isinstance(x, ast.Call) and isinstance(x.func, ast.Attribute) and path_of(x.func.value) in containers and x.func.attr in MUT:
                    ops.append(f"{path_of(x.func.value).split('._')[-1]}.{x.func.attr}")
                if isinstance(x, ast.Call) and path_of(x.func) == "self._discard_pending":
                    ops.append("pending_queue.discard")
        if n.kind == "stmt" and isinstance(n.ast, ast.Assign):
            for t in n.ast.targets:
                if isinstance(t, ast.Subscript) and path_of(t.value) in containers:
                    ops.append(f"{path_of(t.value).split('._')[-1]}.set")
        if n.kind == "stmt" and isinstance(n.ast, ast.Delete):
            for t in n.ast.targets:
                if isinstance(t, ast.Subscript) and path_of(t.value) in containers:
                    ops.append(f"{path_of(t.value).split('._')[-1]}.del")
    return ops


def rule_queue(ctx: Ctx) -> None:
    prog = ctx.prog
    q = prog.cls(MQ, "MessageQueue")
    allowed = {"__init__", "publish", "_deliver_message", "acknowledge", "reject", "schedule_redelivery", "_discard_pending"}
    dp = q.methods.get("_discard_pending")
    need(dp is not None, "C19-2: MessageQueue._discard_pending not found")
    dmut = sorted({(c, a) for c, a, _ in _mutations(dp)})
    ctx.ob("C19-2", "G2", dp, "helper only removes the id from pending", dmut == [("self._pending_queue", "remove")] and not dp.is_generator, "_discard_pending only removes the given id from the pending queue")
    for m in q.methods.values():
        muts = _mutations(m)
        if muts and m.name not in allowed:
            ctx.ob("C19-2", "G2", m, muts[0][2], False, f"MessageQueue.{m.name} changes {muts[0][0]} outside the five transition methods")
    # publish
    pub = q.methods["publish"]
    pf = ctx.flow(pub)
    st = [s for s in walk_stmts(pub.node.body) if isinstance(s, ast.Assign) and unparse(s.targets[0]).replace(" ", "") == "self._messages[message_id]"]
    ap = [c for c in calls_in(pub.node) if path_of(c.func) == "self._pending_queue.append" and [path_of(a) for a in c.args] == ["message_id"]]
    susp = [n for n in pf.cfg.nodes if n.kind == "stmt" and node_suspension(prog, pub, n)]
    ok = len(st) == 1 and len(ap) == 1 and all(not always_before(ctx, pub, lambda x: x.ast is st[0], lambda x, s=s: x is s) and not always_before(ctx, pub, lambda x: x is node_of(pf.cfg, ap[0]), lambda x, s=s: x is s) for s in susp)
    full = [s for s in walk_stmts(pub.node.body) if isinstance(s, ast.If) and unparse(s.test) == "self.is_full" and any(isinstance(b, ast.Raise) for b in s.body)]
    ok = ok and len(full) == 1 and increment_of(next((s for s in walk_stmts(pub.node.body) if increment_of(s, "self._messages_published") is not None), None), "self._messages_published") == 1
    ctx.ob("C19-2", "G2", pub, st[0] if st else None, ok, "publish stores the message and queues its id at the right end in one step, before its latency, after the capacity check, and counts it once")
    # deliver
    dl = q.methods["_deliver_message"]
    df = ctx.flow(dl)
    ins = [s for s in walk_stmts(dl.node.body) if isinstance(s, ast.Assign) and unparse(s.targets[0]).replace(" ", "") == "self._in_flight[message_id]"]
    rm = [c for c in calls_in(dl.node) if path_of(c.func) == "self._pending_queue.remove" and [path_of(a) for a in c.args] == ["message_id"]]
    via_helper = False
    if not rm:
        # the same step through the class's own helper (checked above: it only removes the given id from pending, if present)
        rm = [c for c in calls_in(dl.node) if path_of(c.func) == "self._discard_pending" and [path_of(a) for a in c.args] == ["message_id"]]
        via_helper = bool(rm)
    need(len(ins) == 1 and len(rm) == 1, "C19-2: _deliver_message should move the id from pending to in flight at one site each")
    inn, rmn = node_of(df.cfg, ins[0]), node_of(df.cfg, rm[0])
    ok = df.holds_at(inn, Fact("in", "message_id", "self._messages")) and df.holds_at(inn, Fact("isnot", "consumer", "None"))
    for p in enumerate_paths(df, rmn, stop=lambda x: x is inn):
        if p.end == "stop" and any(node_suspension(prog, dl, n) for n in p.nodes):
            ok = False
    # every path that reaches the in-flight insertion went through the `in pending → remove` test
    for p in enumerate_paths(df, df.cfg.entry, stop=lambda x: x is inn):
        if p.end == "stop" and p.nodes[-1] is inn:
            inp = p.decided(lambda t: t == "message_idinself._pending_queue")
            if via_helper:
                if rmn not in p.nodes:
                    ok = False
            elif inp is None or (inp is True and rmn not in p.nodes):
                ok = False
    dc = [s for s in walk_stmts(dl.node.body) if increment_of(s, "msg.delivery_count") == 1]
    ok = ok and len(dc) == 1 and not always_before(ctx, dl, lambda x: x.ast is dc[0], lambda x: x is inn)
    ctx.ob("C19-2", "G2", dl, ins[0], ok, "_deliver_message moves a stored message from pending to in flight in one atomic step, only with a consumer, counting the attempt once")
    # after the delivery latency: every path either emits the delivery (message still stored, consumer subscribed now) or ends with the message
    # accounted for (gone already, or the attempt undone: in flight → pending front, count restored)
    lat = [n for n in df.cfg.nodes if n.kind == "stmt" and node_suspension(prog, dl, n)]
    need(len(lat) == 1, "C19-2: _deliver_message should suspend once (the delivery latency)")
    evn = [n for n in df.cfg.nodes if any(isinstance(c, ast.Call) and path_of(c.func) == "Event" for e in own_exprs(n) for c in walk_scope(e))]
    bad = []
    kinds = {"deliver": 0, "gone": 0, "undo": 0, "lost": 0}
    for p in enumerate_paths(df, lat[0]):
        if p.end != "exit":
            continue
        ops = _ops_on_path(type("P", (), {"nodes": p.nodes[1:]})())
        stored = p.decided(lambda t: t == "self._messages.get(message_id)isnotmsg")
        left = p.decided(lambda t: t == "consumernotinself._consumers")
        none = p.decided(lambda t: t == "consumerisNone")
        emits = any(n in evn for n in p.nodes)
        if emits:
            kinds["deliver"] += 1
            repick = any(n.kind == "stmt" and isinstance(n.ast, ast.Assign) and path_of(n.ast.targets[0]) == "consumer" and unparse(n.ast.value) == "self._get_next_consumer()" for n in p.nodes[1:])
            if stored is not False:
                bad.append(f"[{p.describe()[:100]}] delivers without re-checking that the message is still stored (it may have been acknowledged during the latency)")
            if not (left is False or (left is True and repick and none is False)):
                bad.append(f"[{p.describe()[:100]}] delivers to a consumer not known to be subscribed at the delivery instant")
            if ops:
                bad.append(f"delivery path touches {ops}")
        elif stored is True:
            kinds["gone"] += 1
            if ops:
                bad.append(f"message gone but {ops}")
        elif ops:
            kinds["undo"] += 1
            dec = [n for n in p.nodes if n.kind == "stmt" and increment_of(n.ast, "msg.delivery_count") == -1]
            if sorted(ops) != ["in_flight.del", "pending_queue.appendleft"] or len(dec) != 1 or none is not True:
                bad.append(f"undo path [{p.describe()[:100]}] ops {ops}, count restored {len(dec)}x")
        else:
            mine = p.decided(lambda t: t == "self._in_flight.get(message_id)ismsg")
            if mine is False:
                kinds["gone"] += 1  # taken over by someone else meanwhile: nothing of this attempt is left to undo
            else:
                kinds["lost"] += 1
                bad.append(f"[{p.describe()[:120]}] ends without delivering and without returning the message to pending")
    need(kinds["deliver"] >= 2 and kinds["gone"] >= 1 and kinds["undo"] >= 1, f"C19-2: post-latency path kinds {kinds}")
    ctx.ob("C19-2", "G5", dl, lat[0].ast, not bad, f"after the delivery latency the message is delivered only if still stored and to a consumer subscribed at that instant; otherwise the attempt is dropped or undone, never lost ({kinds})"
           + ("" if not bad else " — " + bad[0]))
    g = [s for s in dl.node.body if isinstance(s, ast.If) and {f.sig for f in atoms(s.test, True)} == {("notin", "message_id", "self._messages")} and any(isinstance(b, ast.Return) for b in s.body)]
    first_real = [s for s in dl.node.body if not (isinstance(s, ast.Expr) and isinstance(s.value, ast.Constant))][0]
    ctx.ob("C19-2", "G1", dl, g[0] if g else None, len(g) == 1 and g[0] is first_real, "nothing acknowledged or dead-lettered is delivered again: _deliver_message returns at once for an id no longer stored")
    # delivery event: one per call, stamped after the latency, to the chosen consumer, carrying the message id and payload
    evs = [c for c in calls_in(dl.node) if path_of(c.func) == "Event"]
    kw = {k.arg: k.value for k in evs[0].keywords} if len(evs) == 1 else {}
    ctxd = {k.value: unparse(v) for k, v in zip(kw["context"].keys, kw["context"].values)} if isinstance(kw.get("context"), ast.Dict) else {}
    stt = StaleTime(prog, dl, df.cfg, event_class_names(prog))
    ok = len(evs) == 1 and path_of(kw.get("target")) == "consumer" and ctxd.get("message_id") == "message_id" and ctxd.get("payload") == "msg.payload" and not stt.uses
    ctx.ob("C19-1", "G5", dl, evs[0] if evs else None, ok, "the delivery event goes to the chosen consumer with the message id and payload, stamped with a clock read after the delivery latency" + ("" if not stt.uses else f" — stale: {stt.uses[0]}"))
    # acknowledge
    ack = q.methods["acknowledge"]
    ops = sorted({(c, a) for c, a, _ in _mutations(ack)})
    dpc = [c for c in calls_in(ack.node) if path_of(c.func) == "self._discard_pending" and [path_of(x) for x in c.args] == ["message_id"]]
    ok = ops == [("self._in_flight", "pop"), ("self._messages", "pop")] and not ack.is_generator and len(dpc) == 1
    inc = [s for s in walk_stmts(ack.node.body) if increment_of(s, "self._messages_acknowledged") == 1]
    rd = [c for c in calls_in(ack.node) if path_of(c.func) == "self._redelivery_scheduled.discard"]
    ctx.ob("C19-2", "G2", ack, "ack: in flight → gone, counted", ok and len(inc) == 1 and len(rd) == 1, "acknowledge removes the message from in flight, from pending (a timeout may have put it back there) and from the store, cancels its redelivery marker and counts it once")
    # reject: path table
    rj = q.methods["reject"]
    rf = ctx.flow(rj)
    bad = []
    kinds = {"requeue": 0, "gone": 0, "unknown": 0}
    for p in enumerate_paths(rf, rf.cfg.entry):
        if p.end != "exit":
            continue
        ops = _ops_on_path(p)
        known = p.decided(lambda t: t == "message_idnotinself._messages")
        if known is True:
            kinds["unknown"] += 1
            if ops:
                bad.append(f"unknown id but {ops}")
            continue
        dlq_calls = [c for n in p.nodes for e in own_exprs(n) for c in walk_scope(e) if isinstance(c, ast.Call) and path_of(c.func) == "self._dead_letter_queue.add_message"]
        has_dlq = p.decided(lambda t: t == "self._dead_letter_queueisnotNone")
        if "pending_queue.append" in ops:
            kinds["requeue"] += 1
            lim = p.decided(lambda t: t == "msg.delivery_count<=self._max_redeliveries")  # delivery_count includes the first delivery: count-1 redeliveries so far
            rq = p.decided(lambda t: t == "requeue")
            if sorted(ops) != ["in_flight.pop", "pending_queue.append", "pending_queue.discard"] or ops.index("pending_queue.discard") > ops.index("pending_queue.append") or lim is not True or rq is not True or dlq_calls:
                bad.append(f"requeue path [{p.describe()[:80]}] ops {ops}")
        else:
            kinds["gone"] += 1
            if sorted(ops) != ["in_flight.pop", "messages.pop", "pending_queue.discard"] or (has_dlq is True) != bool(dlq_calls):
                bad.append(f"dead-letter path [{p.describe()[:80]}] ops {ops} dlq={bool(dlq_calls)}")
            if has_dlq is True and not any(increment_of(n.ast, "self._messages_dead_lettered") == 1 for n in p.nodes if n.kind == "stmt"):
                bad.append("dead-lettered message not counted")
    need(kinds["requeue"] >= 1 and kinds["gone"] >= 2, f"C19-2: reject lacks a path kind {kinds}")
    ctx.ob("C19-2", "G2", rj, "reject: in flight → pending xor dead-lettered/discarded", not bad and not rj.is_generator,
           f"every path of reject leaves the message in exactly one place: requeued at the back (under the limit) or removed and handed to the DLQ when one is configured ({kinds})" + ("" if not bad else " — " + bad[0]))
    # schedule_redelivery
    sr = q.methods["schedule_redelivery"]
    sf = ctx.flow(sr)
    bad = []
    kinds = {"requeue": 0, "dead": 0, "noop": 0}
    for p in enumerate_paths(sf, sf.cfg.entry):
        if p.end != "exit":
            continue
        ops = _ops_on_path(p)
        rej = [c for n in p.nodes for e in own_exprs(n) for c in walk_scope(e) if isinstance(c, ast.Call) and path_of(c.func) == "self.reject"]
        if rej:
            kinds["dead"] += 1
            lim = p.decided(lambda t: t == "msg.delivery_count>self._max_redeliveries")
            kws = {k.arg: unparse(k.value) for k in rej[0].keywords}
            if ops or lim is not True or kws.get("requeue") != "False" or [path_of(a) for a in rej[0].args] != ["message_id"]:
                bad.append(f"limit path ops {ops} / {unparse(rej[0])}")
        elif ops:
            kinds["requeue"] += 1
            infl = p.decided(lambda t: t == "message_idnotinself._in_flight")
            dup = p.decided(lambda t: t == "message_idinself._redelivery_scheduled")
            marks = [c for n in p.nodes for e in own_exprs(n) for c in walk_scope(e) if isinstance(c, ast.Call) and path_of(c.func) == "self._redelivery_scheduled.add"]
            if sorted(ops) != ["in_flight.pop", "pending_queue.appendleft"] or infl is not False or dup is not False or len(marks) != 1:
                bad.append(f"requeue path [{p.describe()[:80]}] ops {ops}")
            rets = [n.ast for n in p.nodes if n.kind == "stmt" and isinstance(n.ast, ast.Return)]
            if not (rets and isinstance(rets[-1].value, ast.Call) and path_of(rets[-1].value.func) == "Event"):
                bad.append("requeue path returns no redelivery event")
        else:
            kinds["noop"] += 1
    need(kinds["requeue"] == 1 and kinds["dead"] == 1, f"C19-2: schedule_redelivery path kinds {kinds}")
    ctx.ob("C19-2", "G2", sr, "timeout: in flight → pending front xor dead-lettered", not bad and not sr.is_generator,
           "schedule_redelivery acts only on an in-flight message not already scheduled; it either dead-letters it at the limit or puts it at the front of the queue, marks it and returns the redelivery event" + ("" if not bad else " — " + bad[0]))
    # the limit is compared the same way at both sites
    a = [f.sig for n in rf.cfg.nodes if n.kind == "test" for f in atoms(n.ast, True) if "delivery_count" in f.a + f.b]
    b = [f.sig for n in sf.cfg.nodes if n.kind == "test" for f in atoms(n.ast, True) if "delivery_count" in f.a + f.b]
    # delivery_count counts the first delivery too, so `max_redeliveries` redeliveries are allowed while delivery_count <= max, and the
    # message is dead-lettered once delivery_count > max (max = 1 gives exactly one redelivery, not the behaviour of max = 0)
    ok = a == [("le", "msg.delivery_count", "self._max_redeliveries")] and b == [("lt", "self._max_redeliveries", "msg.delivery_count")]
    ctx.ob("C19-2", "G4", sr, "limit direction", ok, f"reject requeues while delivery_count <= max (i.e. fewer than max redeliveries so far), schedule_redelivery dead-letters when delivery_count > max: complementary tests, "
           f"and max_redeliveries = k allows exactly k redeliveries (reject {a}, timeout {b})")
    # redelivery event: to the queue itself, carrying the id, at now + delay; handler delivers that id
    ev = [c for c in calls_in(sr.node) if path_of(c.func) == "Event"]
    kw = {k.arg: k.value for k in ev[0].keywords} if len(ev) == 1 else {}
    he = q.methods["handle_event"]
    hd = [c for c in calls_in(he.node) if path_of(c.func) == "self._deliver_message"]
    ok = len(ev) == 1 and path_of(kw.get("target")) == "self" and unparse(kw.get("event_type")) == "'message_redelivery'" and "'message_id': message_id" in unparse(kw.get("context")) and len(hd) == 1 and [path_of(x) for x in hd[0].args] == ["message_id"] \
        and "'message_redelivery'" in unparse(he.node) and len(stmts_matching(he, "message_id = event.context.get('message_id')")) == 1
    ctx.ob("C19-2", "G8", sr, ev[0] if ev else None, ok, "a requested redelivery is an event to the queue itself naming the message; its handler delivers exactly that message")
    hef = ctx.flow(he)
    # the timer's marker is cleared on every path on which the timer fired (stale or not): otherwise no later timeout can schedule a redelivery
    badm = []
    n_timer = 0
    for p in enumerate_paths(hef, hef.cfg.entry):
        if p.end not in ("exit",):
            continue
        if p.decided(lambda t: t == "event_type=='message_redelivery'") is True and p.decided(lambda t: t == "message_id") is True:
            n_timer += 1
            if not any(isinstance(c, ast.Call) and path_of(c.func) == "self._redelivery_scheduled.discard" and [path_of(a) for a in c.args] == ["message_id"] for n in p.nodes for e in own_exprs(n) for c in walk_scope(e)):
                badm.append(p.describe()[:140])
    ctx.ob("C19-2", "G2", he, "timer fired ⇒ marker cleared", n_timer >= 2 and not badm, "every path on which a redelivery timer fires clears the message's redelivery marker (a stale timer too), so the next timeout can schedule again"
           + ("" if not badm else " — " + badm[0]))
    okg = len(hd) == 1 and hef.holds_at(node_of(hef.cfg, hd[0]), Fact("in", "message_id", "self._pending_queue"))
    ctx.ob("C19-2", "G1", he, hd[0] if hd else None, okg, "the redelivery timer delivers only a message that is still pending (a poll may have delivered it already: one timeout, one redelivery)")
    # order: poll takes the left end
    pl = q.methods["poll"]
    take = stmts_matching(pl, "message_id = self._pending_queue[0]")
    dv = [c for c in calls_in(pl.node) if path_of(c.func) == "self._deliver_message" and [path_of(x) for x in c.args] == ["message_id"]]
    plf = ctx.flow(pl)
    ok = len(take) == 1 and len(dv) == 1
    if ok:
        for p in enumerate_paths(plf, node_of(plf.cfg, take[0][0]), stop=lambda x: x is node_of(plf.cfg, dv[0])):
            if any(node_suspension(prog, pl, n) for n in p.nodes[:-1]):
                ok = False
    ctx.ob("C19-3", "G2", pl, take[0][0] if take else None, ok, "poll delivers the message at the left end of the pending queue (publish appends on the right: first deliveries follow publish order), with no suspension between choosing and claiming it")
    dq = prog.cls(DLQ, "DeadLetterQueue")
    am = dq.methods["add_message"]
    ap = [c for c in calls_in(am.node) if path_of(c.func) == "self._messages.append" and [path_of(x) for x in c.args] == ["message"]]
    tp = [c for c in calls_in(am.node) if path_of(c.func) == "self._message_times.append"]
    ctx.ob("C19-2", "G2", am, ap[0] if ap else None, len(ap) == 1 and len(tp) == 1 and not am.is_generator, "the dead-letter queue stores the message handed to it (message and arrival time appended together)")
    # a dead letter leaves the DLQ only by age *since it was dead-lettered*: every removal from the two parallel deques removes from both, and the
    # age tested before an expiry removal is measured from `_message_times` (the arrival in the DLQ), not from a field of the message
    for m in dq.methods.values():
        pops_m = [c for c in calls_in(m.node) if path_of(c.func) in ("self._messages.popleft", "self._messages.pop", "self._messages.remove", "self._messages.clear")]
        pops_t = [c for c in calls_in(m.node) if path_of(c.func) in ("self._message_times.popleft", "self._message_times.pop", "self._message_times.remove", "self._message_times.clear")]
        if pops_m or pops_t:
            ctx.ob("C19-2", "G2", m, (pops_m or pops_t)[0], len(pops_m) == len(pops_t), f"DeadLetterQueue.{m.name}: messages and their arrival times are removed together ({len(pops_m)} vs {len(pops_t)} removals)")
    ce = dq.methods["_cleanup_expired"]
    sd_ce = single_defs(ce)
    cef = ctx.flow(ce)
    popn = [n_ for n_ in cef.cfg.nodes if n_.kind == "stmt" and any(path_of(k.func) == "self._messages.popleft" for k in calls_in(n_.ast))]
    tests = [n_ for n_ in cef.cfg.nodes if n_.kind == "test" and "self._retention_period" in unparse(n_.ast) and not (isinstance(n_.ast, ast.Compare) and isinstance(n_.ast.ops[0], (ast.Is, ast.IsNot)))]
    okc = len(popn) == 1 and len(tests) == 1
    if okc:
        te = unparse(expand(tests[0].ast, sd_ce)).replace(" ", "")
        okc = "self._message_times[0]" in te and "self._retention_period" in te and "self._messages[" not in te
        # the removal happens only on the "older than the retention period" side of that test, however the branch is written
        age = [f.sig for f in atoms(tests[0].ast, True)]
        for p_ in enumerate_paths(cef, tests[0], stop=lambda x: x is popn[0]):
            if p_.end == "stop" and p_.nodes[-1] is popn[0]:
                side = p_.labels[0][1] if p_.labels and p_.labels[0] is not None else None
                fs = {f.sig for f in atoms(tests[0].ast, bool(side))}
                if not any(sg[0] == "lt" and sg[1] == "self._retention_period" for sg in fs):
                    okc = False
    tests = [t_.ast for t_ in tests]
    ctx.ob("C19-2", "G7", ce, tests[0] if tests else None, okc, "DeadLetterQueue._cleanup_expired discards a dead letter only when the time since it *entered the DLQ* (`_message_times[0]`) exceeds the retention period "
           "— a message that spent long in the queue before being dead-lettered is not lost on arrival")


def q_cg_all(prog):
    return [f for f in prog.module(CG).all_functions if f.cls is not None and f.cls.name == "ConsumerGroup"]


def rule_topic(ctx: Ctx) -> None:
    prog = ctx.prog
    t = prog.cls(TOPIC, "Topic")
    pub = t.methods["publish"]
    pf = ctx.flow(pub)
    # the snapshot, however written (comprehension, or a fresh list filled by one loop under one `if`): the active subscriptions
    involved, snap_st, sigs = filtered_copy(pub, "active_subscribers", "self._subscriptions.values()")
    ok = sigs == frozenset({("truthy", "E.active", "")})
    susp = [n for n in pf.cfg.nodes if n.kind == "stmt" and node_suspension(prog, pub, n)]
    ok = ok and bool(susp) and all(not always_before(ctx, pub, lambda x, i=i: x.ast is i, lambda x, s=s: x is s) for s in susp for i in involved)
    ctx.ob("C19-4", "G5", pub, snap_st, ok, "Topic.publish snapshots the subscribers active at publish time before its first suspension")
    loops = [s for s in pub.node.body if isinstance(s, ast.For) and not any(s is i for i in involved)]
    okl = len(loops) == 2 and all(path_of(l.iter) == "active_subscribers" for l in loops)
    evl = [l for l in loops if any(path_of(c.func) == "Event" for c in calls_in(l))]
    ok = okl and len(evl) == 1
    if ok:
        l = evl[0]
        evs = [c for c in calls_in(l) if path_of(c.func) == "Event"]
        app = [c for c in calls_in(l) if path_of(c.func) == "delivery_events.append"]
        kw = {k.arg: unparse(k.value) for k in evs[0].keywords}
        ok = len(evs) == 1 and len(app) == 1 and kw.get("target") == f"{path_of(l.target)}.subscriber" and "'payload': message" in kw.get("context", "") and not any(isinstance(s, (ast.Break, ast.Continue, ast.Return, ast.If)) for s in walk_stmts(l.body))
        rets = [s for s in pub.node.body if isinstance(s, ast.Return)]
        ok = ok and len(rets) == 1 and path_of(rets[0].value) == "delivery_events"
    if not ok:
        # the same thing written as a comprehension: `return [Event(...) for subscription in active_subscribers]` (no filter)
        rets = [s for s in pub.node.body if isinstance(s, ast.Return)]
        rv = rets[0].value if len(rets) == 1 else None
        if isinstance(rv, ast.Name):
            rv = single_defs(pub).get(rv.id)  # one step only: the comprehension itself must still name the snapshot it iterates
        if isinstance(rv, ast.ListComp) and len(rv.generators) == 1 and not rv.generators[0].ifs and path_of(rv.generators[0].iter) == "active_subscribers" \
                and isinstance(rv.elt, ast.Call) and path_of(rv.elt.func) == "Event" and all(path_of(l.iter) == "active_subscribers" for l in loops) and len(loops) == 1:
            kw = {k.arg: unparse(k.value) for k in rv.elt.keywords}
            ok = kw.get("target") == f"{path_of(rv.generators[0].target)}.subscriber" and "'payload': message" in kw.get("context", "")
            evl = [rets[0]]
    stt = StaleTime(prog, pub, pf.cfg, event_class_names(prog))
    ctx.ob("C19-4", "G2", pub, evl[0] if evl else None, ok and not stt.uses, "Topic.publish emits exactly one delivery per snapshot entry, unconditionally, carrying the message, stamped after the latencies")
    ps = t.methods["publish_sync"]
    lp = [s for s in ps.node.body if isinstance(s, ast.For) and unparse(s.iter) == "self._subscriptions.values()"]
    evc = [c for c in calls_in(lp[0]) if path_of(c.func) == "Event"] if lp else []
    psf = ctx.flow(ps)
    ok = len(lp) == 1 and len(evc) == 1 and psf.holds_at(node_of(psf.cfg, evc[0]), Fact("truthy", f"{path_of(lp[0].target)}.active")) and not ps.is_generator
    ctx.ob("C19-4", "G2", ps, lp[0] if lp else None, ok, "Topic.publish_sync emits one delivery per active subscription")
    sub = t.methods["subscribe"]
    sf = ctx.flow(sub)
    new = [s for s in walk_stmts(sub.node.body) if isinstance(s, ast.Assign) and unparse(s.targets[0]).replace(" ", "") == "self._subscriptions[subscriber]"]
    ok = len(new) == 1 and sf.holds_at(node_of(sf.cfg, new[0]), Fact("notin", "subscriber", "self._subscriptions"))
    ctx.ob("C19-4", "G2", sub, new[0] if new else None, ok, "a subscriber has one subscription record (re-subscribing reactivates it): no duplicate deliveries from duplicate records")


def rule_log(ctx: Ctx) -> None:
    prog = ctx.prog
    log = prog.cls(LOG, "EventLog")
    da = log.methods["_do_append"]
    rec = [c for c in calls_in(da.node) if path_of(c.func) == "Record"]
    kw = {k.arg: unparse(k.value) for k in rec[0].keywords} if len(rec) == 1 else {}
    ap = [c for c in calls_in(da.node) if path_of(c.func) == "partition.records.append" and [path_of(x) for x in c.args] == ["record"]]
    inc = [s for s in walk_stmts(da.node.body) if increment_of(s, "partition.high_watermark") is not None]
    df = ctx.flow(da)
    ok = len(rec) == 1 and kw.get("offset") == "partition.high_watermark" and kw.get("partition") == "pid" and kw.get("key") == "key" and kw.get("value") == "value" and len(ap) == 1 and len(inc) == 1 \
        and increment_of(inc[0], "partition.high_watermark") == 1 and not da.is_generator
    if ok:
        rn = node_of(df.cfg, rec[0])
        ok = not always_before(ctx, da, lambda x: x is rn, lambda x: x.ast is inc[0]) and not always_before(ctx, da, lambda x: x is node_of(df.cfg, ap[0]), lambda x: x.ast is inc[0]) is False or ok
        ok = ok and not always_before(ctx, da, lambda x: x is rn, lambda x: x.ast is inc[0])
    ctx.ob("C19-5", "G2", da, rec[0] if rec else None, ok, "each record takes the partition's high watermark as its offset, is appended, and only then the watermark advances by one: offsets are gap-free and increasing")
    pid = stmts_matching(da, "pid = self._get_partition_for_key(key)")
    part = stmts_matching(da, "partition = self._partitions[pid]")
    gp = log.methods["_get_partition_for_key"]
    r = [s for s in gp.node.body if isinstance(s, ast.Return)]
    ok = len(pid) == 1 and len(part) == 1 and len(r) == 1 and unparse(r[0].value) == "self._sharding.get_shard(key, self._num_partitions)"
    ctx.ob("C19-5", "G7", da, pid[0][0] if pid else None, ok, "the partition of a record is the sharding strategy's choice for its key over the fixed partition count, and the record is stored in that partition")
    # who writes high_watermark / records
    for fn in prog.all_functions("happysimulator/components/streaming/"):
        for s in walk_stmts(fn.node.body):
            if isinstance(s, (ast.Assign, ast.AugAssign)):
                for t in (s.targets if isinstance(s, ast.Assign) else [s.target]):
                    if isinstance(t, ast.Attribute) and t.attr == "high_watermark" and fn.qual != "EventLog._do_append":
                        ctx.ob("C19-5", "G6", fn, s, False, "the high watermark is written outside _do_append")
                    if isinstance(t, ast.Attribute) and t.attr == "records" and fn.qual not in ("EventLog._apply_retention",):
                        ctx.ob("C19-5", "G6", fn, s, False, "a partition's record list is replaced outside the retention sweep")
    rt = log.methods["_apply_retention"]
    ws = [s for s in walk_stmts(rt.node.body) if isinstance(s, ast.Assign) and unparse(s.targets[0]) == "partition.records"]
    ok = len(ws) == 2
    sd_rt = single_defs(rt)
    for w in ws:
        v = expand(w.value, sd_rt)  # the filtered list may go through a local first
        if isinstance(w.value, ast.Subscript):
            v = w.value
        if isinstance(v, ast.Subscript):
            ok = ok and unparse(v).replace(" ", "") == "partition.records[excess:]"
        elif isinstance(v, ast.ListComp):
            ok = ok and unparse(v.generators[0].iter) == "partition.records" and path_of(v.elt) == path_of(v.generators[0].target) and len(v.generators) == 1
        else:
            ok = False
    rf = ctx.flow(rt)
    sl = [w for w in ws if isinstance(w.value, ast.Subscript)]
    ok = ok and len(sl) == 1 and rf.holds_at(node_of(rf.cfg, sl[0]), Fact("lt", "0", "excess")) and not rt.is_generator
    ctx.ob("C19-5", "G6", rt, ws[0] if ws else None, ok, "retention drops a prefix (size) or filters in place keeping order (time): surviving offsets stay increasing")
    dr = log.methods["_do_read"]
    lp = [s for s in dr.node.body if isinstance(s, ast.For) and unparse(s.iter) == "partition.records"]
    ok = len(lp) == 1 and any(isinstance(s, ast.If) and {f.sig for f in atoms(s.test, True)} == {("le", "offset", "rec.offset")} for s in lp[0].body)
    ctx.ob("C19-5", "G3", dr, lp[0] if lp else None, ok, "a read returns, in log order, the records whose offset is >= the requested offset")
    he = log.methods["handle_event"]
    hf = ctx.flow(he)
    calls = [c for c in calls_in(he.node) if path_of(c.func) == "self._do_append"]
    res = [c for c in calls_in(he.node) if path_of(c.func) == "reply_future.resolve" and [path_of(x) for x in c.args] == ["record"]]
    ok = len(calls) == 1 and len(res) == 1 and not always_before(ctx, he, lambda x: x is node_of(hf.cfg, calls[0]), lambda x: x is node_of(hf.cfg, res[0]))
    if ok:
        for p in enumerate_paths(hf, node_of(hf.cfg, calls[0]), stop=lambda x: x is node_of(hf.cfg, res[0])):
            if any(node_suspension(prog, he, n) for n in p.nodes[1:-1]):
                ok = False
    ctx.ob("C19-5", "G2", he, calls[0] if calls else None, ok, "an Append is answered with the record just appended, in the same step")


def _context_keys(call: ast.Call) -> set[str]:
    for k in call.keywords:
        if k.arg == "context" and isinstance(k.value, ast.Dict):
            return {x.value for x in k.value.keys if isinstance(x, ast.Constant)}
    return set()


def rule_group(ctx: Ctx) -> None:
    prog = ctx.prog
    g = prog.cls(CG, "ConsumerGroup")
    he = g.methods["handle_event"]
    hf = ctx.flow(he)
    cw = [s for s in walk_stmts(he.node.body) if isinstance(s, ast.Assign) and unparse(s.targets[0]).replace(" ", "") == "committed[pid]"]
    ok = len(cw) == 1 and unparse(cw[0].value).replace(" ", "") in ("max(committed.get(pid,0),offset)", "max(offset,committed.get(pid,0))")
    ctx.ob("C19-6", "G6", he, cw[0] if cw else None, ok, "a commit can only move a partition's committed offset forwards: committed[pid] = max(old, new)")
    for fn in prog.module(CG).all_functions:
        for s in walk_stmts(fn.node.body):
            if isinstance(s, (ast.Assign, ast.AugAssign, ast.Delete)):
                for t in (s.targets if not isinstance(s, ast.AugAssign) else [s.target]):
                    txt = unparse(t).replace(" ", "")
                    if txt.startswith("self._committed_offsets[") and not (isinstance(s, ast.Assign) and isinstance(s.value, ast.Dict) and not s.value.keys):
                        ctx.ob("C19-6", "G6", fn, s, False, "committed offsets are overwritten outside the monotone commit")
                    if isinstance(s, ast.Delete) and "self._committed_offsets" in txt:
                        ctx.ob("C19-6", "G6", fn, s, False, "committed offsets are deleted")
    for c in calls_in(he.node):
        if isinstance(c.func, ast.Attribute) and c.func.attr in ("pop", "clear", "popitem") and "_committed_offsets" in unparse(c.func.value):
            ctx.ob("C19-6", "G6", he, c, False, "committed offsets are dropped")
    rb = g.methods["_rebalance"]
    gen = [s for s in rb.node.body if increment_of(s, "self._generation") == 1]
    parts = stmts_matching(rb, "partitions = list(range(self._event_log.num_partitions))")
    names = stmts_matching(rb, "consumer_names = sorted(self._consumers.keys())")
    asg = stmts_matching(rb, "self._assignments = self._strategy.assign(partitions, consumer_names)")
    ctx.ob("C19-7", "G5", rb, asg[0][0] if asg else None, len(gen) == 1 and len(parts) == 1 and len(names) == 1 and len(asg) == 1 and not rb.is_generator,
           "a rebalance bumps the generation and replaces the whole assignment table by the strategy's result over all partitions and the sorted current members, in one step")
    for et in ("Join", "Leave"):
        # the rebalance follows the delay directly: membership is read at rebalance time
        calls = [c for c in calls_in(he.node) if path_of(c.func) == "self._rebalance"]
        need(len(calls) == 2, "C19-7: Join and Leave should each rebalance once")
    for c in [c for c in calls_in(he.node) if path_of(c.func) == "self._rebalance"]:
        cn = node_of(hf.cfg, c)
        ok = False
        for p in enumerate_paths(hf, hf.cfg.entry, stop=lambda x: x is cn):
            if p.end == "stop" and p.nodes[-1] is cn:
                last = max([i for i, n in enumerate(p.nodes) if node_suspension(prog, he, n)] or [-1])
                member = [i for i, n in enumerate(p.nodes) if n.kind == "stmt" and ("self._consumers[consumer_name]" in unparse(n.ast) or "self._consumers.pop(consumer_name" in unparse(n.ast))]
                ok = bool(member) and last > member[-1]
        ctx.ob("C19-7", "G2", he, c, ok, "the membership change is recorded before the rebalance delay and the rebalance runs after it, reading the membership current at that moment")
    for et, gname in (("Join", "join"), ("Leave", "leave"), ("Poll", "poll"), ("Commit", "commit")):
        gen_fn = g.methods[gname]
        ev = [c for c in calls_in(gen_fn.node) if path_of(c.func) == "Event" and any(k.arg == "event_type" and unparse(k.value) == repr(et) for k in c.keywords)]
        need(len(ev) == 1, f"C19-8: {gname} should build one {et} event")
        written = _context_keys(ev[0])
        branch = [s for s in walk_stmts(he.node.body) if isinstance(s, ast.If) and unparse(s.test) == f"event_type == {et!r}"]
        need(len(branch) == 1, f"C19-8: handle_event has no branch for {et}")
        read = {c.args[0].value for b in branch[0].body for c in calls_in(b) if unparse(c.func) == "event.context.get" and c.args and isinstance(c.args[0], ast.Constant)}
        ctx.ob("C19-8", "G8", gen_fn, ev[0], read == written, f"ConsumerGroup.{gname} writes exactly the context keys the {et} handler reads (written {sorted(written)}, read {sorted(read)})")
    lg = prog.cls(LOG, "EventLog")
    lhe = lg.methods["handle_event"]
    for et, gname in (("Append", "append"), ("Read", "read")):
        gen_fn = lg.methods[gname]
        ev = [c for c in calls_in(gen_fn.node) if path_of(c.func) == "Event" and any(k.arg == "event_type" and unparse(k.value) == repr(et) for k in c.keywords)]
        need(len(ev) == 1, f"C19-8: EventLog.{gname} should build one {et} event")
        written = _context_keys(ev[0])
        branch = [s for s in walk_stmts(lhe.node.body) if isinstance(s, ast.If) and unparse(s.test) == f"event_type == {et!r}"]
        need(len(branch) == 1, f"C19-8: EventLog.handle_event has no branch for {et}")
        read = {c.args[0].value for b in branch[0].body for c in calls_in(b) if unparse(c.func) == "event.context.get" and c.args and isinstance(c.args[0], ast.Constant)}
        ctx.ob("C19-8", "G8", gen_fn, ev[0], read == written, f"EventLog.{gname} writes exactly the context keys the {et} handler reads (written {sorted(written)}, read {sorted(read)})")
    # strategies: every partition placed exactly once
    rr = prog.func(CG, "RoundRobinAssignment.assign")
    lp = [s for s in rr.node.body if isinstance(s, ast.For)]
    ok = len(lp) == 1 and unparse(lp[0].iter) == "enumerate(sorted_parts)" and len([c for c in calls_in(lp[0]) if isinstance(c.func, ast.Attribute) and c.func.attr == "append"]) == 1 \
        and not any(isinstance(s, (ast.If, ast.Break, ast.Continue, ast.Return)) for s in walk_stmts(lp[0].body)) and len(stmts_matching(rr, "consumer = sorted_consumers[i % len(sorted_consumers)]")) == 1 \
        and len(stmts_matching(rr, "sorted_parts = sorted(partitions)")) == 1
    ctx.ob("C19-7", "G2", rr, lp[0] if lp else None, ok, "RoundRobinAssignment appends every partition to exactly one consumer's list (one unconditional append per partition)")
    ra = prog.func(CG, "RangeAssignment.assign")
    lp = [s for s in ra.node.body if isinstance(s, ast.For)]
    ok = len(lp) == 1 and unparse(lp[0].iter) == "enumerate(sorted_consumers)" and len(stmts_matching(ra, "base = n // c")) == 1 and len(stmts_matching(ra, "remainder = n % c")) == 1 \
        and len(stmts_matching(ra, "count = base + (1 if i < remainder else 0)")) == 1 and len(stmts_matching(ra, "result[name] = sorted_parts[idx:idx + count]")) == 1 \
        and len([s for s in lp[0].body if isinstance(s, ast.AugAssign) and path_of(s.target) == "idx"]) == 1 and any(isinstance(s, ast.AugAssign) and path_of(s.target) == "idx" and isinstance(s.op, ast.Add) and path_of(s.value) == "count" for s in lp[0].body) and len(stmts_matching(ra, "idx = 0")) == 1 \
        and len(stmts_matching(ra, "n = len(sorted_parts)")) == 1 and len(stmts_matching(ra, "c = len(sorted_consumers)")) == 1
    ctx.ob("C19-7", "G2", ra, lp[0] if lp else None, ok, "RangeAssignment hands out consecutive disjoint slices [idx, idx+count) with idx advanced by count and the counts summing to n (base + one extra for the first n mod c consumers)")
    sa = prog.func(CG, "StickyAssignment.assign")
    kept = [s for s in walk_stmts(sa.node.body) if isinstance(s, ast.Assign) and path_of(s.targets[0]) == "kept"]
    ok = len(kept) == 1 and unparse(kept[0].value).replace(" ", "") == "[pforpinself._previous[name]ifpinall_parts]" and any(unparse(c).replace(" ", "") == "assigned.update(kept)" for c in calls_in(sa.node)) \
        and len(stmts_matching(sa, "unassigned = sorted(all_parts - assigned)")) == 1 and len(stmts_matching(sa, "all_parts = set(partitions)")) == 1
    lp = [s for s in sa.node.body if isinstance(s, ast.For) and path_of(s.iter) == "unassigned"]
    ok = ok and len(lp) == 1 and len([c for c in calls_in(lp[0]) if isinstance(c.func, ast.Attribute) and c.func.attr == "append" and [path_of(a) for a in c.args] == [path_of(lp[0].target)]]) == 1 \
        and not any(isinstance(s, (ast.If, ast.Break, ast.Continue, ast.Return)) for s in walk_stmts(lp[0].body))
    prev = [s for s in walk_stmts(sa.node.body) if isinstance(s, ast.Assign) and path_of(s.targets[0]) == "self._previous"]
    ok = ok and len(prev) == 2 and any(unparse(s.value).replace(" ", "") == "{k:list(v)fork,vinresult.items()}" for s in prev)
    ctx.ob("C19-7", "G2", sa, kept[0] if kept else None, ok, "StickyAssignment keeps only still-existing partitions of still-present consumers, assigns each remaining partition once, and remembers a copy of exactly the result it returns")
    pl = [s for s in walk_stmts(he.node.body) if isinstance(s, ast.If) and unparse(s.test) == "event_type == 'Poll'"]
    rd = [c for c in calls_in(pl[0]) if path_of(c.func) == "self._event_log._do_read"] if pl else []
    offs = [s for s in walk_stmts(pl[0].body) if isinstance(s, ast.Assign) and path_of(s.targets[0]) == "offset"] if pl else []
    otxt = unparse(offs[0].value).replace(" ", "") if len(offs) == 1 else ""
    # the read position is the larger of the member's own commit and the group's per-partition high-water mark (a partition may have been
    # consumed by another member before a rebalance): committed offsets never move backwards across an ownership change
    ok = len(rd) == 1 and [unparse(a) for a in rd[0].args] == ["pid", "offset", "remaining"] and otxt.startswith("max(") and "offsets.get(pid,0)" in otxt and "self._group_offsets.get(pid,0)" in otxt \
        and any(unparse(s).replace(" ", "") == "assigned=self._assignments.get(consumer_name,[])" for s in walk_stmts(pl[0].body))
    ctx.ob("C19-7", "G7", he, rd[0] if rd else None, ok, "a poll reads only the partitions currently assigned to the polling consumer, from max(its own committed offset, the group's committed offset of the partition)")
    cm = [s for s in walk_stmts(he.node.body) if isinstance(s, ast.If) and unparse(s.test) == "event_type == 'Commit'"]
    gw = [s for s in walk_stmts(cm[0].body) if isinstance(s, ast.Assign) and unparse(s.targets[0]).replace(" ", "") == "self._group_offsets[pid]"] if cm else []
    okg = len(gw) == 1 and unparse(gw[0].value).replace(" ", "") == "max(self._group_offsets.get(pid,0),offset)"
    ctx.ob("C19-7", "G6", he, gw[0] if gw else None, okg, "every commit raises the group's per-partition committed offset monotonically (max with the previous value)")
    for fn_ in q_cg_all(prog):
        for st in walk_stmts(fn_.node.body):
            if isinstance(st, (ast.Assign, ast.AugAssign, ast.Delete)) and fn_.name != "__init__":
                tg = st.targets if isinstance(st, (ast.Assign, ast.Delete)) else [st.target]
                if any("self._group_offsets" in unparse(t_) for t_ in tg) and st not in gw:
                    ctx.ob("C19-7", "G6", fn_, st, False, f"{fn_.qual}: the group's committed offsets are only ever raised by Commit (found `{norm_stmt(st)}`)")
        for c_ in calls_in(fn_.node):
            if isinstance(c_.func, ast.Attribute) and path_of(c_.func.value) == "self._group_offsets" and c_.func.attr in ("pop", "clear", "popitem", "update", "setdefault"):
                ctx.ob("C19-7", "G6", fn_, c_, False, f"{fn_.qual}: the group's committed offsets are never removed or rewritten wholesale (found `{unparse(c_)[:60]}`)")


def rule_dlq_replay_and_flag(ctx: Ctx) -> None:
    """C19-2 (hunted defects): (a) every event type the dead-letter queue aims at a message queue is one `MessageQueue.handle_event` acts on —
    `reprocess()` has already removed the message from the DLQ, an unhandled event type loses it; (b) a delivery clears the
    "redelivery scheduled" flag of the message it delivers, before its suspension: the flag belongs to the *previous* delivery's timer,
    and a flag that survives makes the next `schedule_redelivery()` refuse (the message then sits in flight for ever)."""
    prog = ctx.prog
    dq = prog.cls(DLQ, "DeadLetterQueue")
    emitted = set()
    for m in dq.methods.values():
        for c in calls_in(m.node):
            if path_of(c.func) == "Event":
                kw = {k.arg: k.value for k in c.keywords}
                if path_of(kw.get("target")) == "target_queue" and isinstance(kw.get("event_type"), ast.Constant):
                    emitted.add(kw["event_type"].value)
    he = prog.func(MQ, "MessageQueue.handle_event")
    handled = set()
    for t_ in [x for x in ast.walk(he.node) if isinstance(x, ast.Compare) and len(x.ops) == 1 and isinstance(x.ops[0], (ast.Eq, ast.In))]:
        sides = [t_.left] + list(t_.comparators)
        if any(path_of(sd_) in ("event_type", "event.event_type") for sd_ in sides):
            for sd_ in sides:
                for cst in ast.walk(sd_):
                    if isinstance(cst, ast.Constant) and isinstance(cst.value, str):
                        handled.add(cst.value)
    need(emitted, "C19-2: the DLQ no longer emits any event towards a target queue")
    miss = sorted(emitted - handled)
    ctx.ob("C19-2", "G8", he, "DLQ → queue event types are handled", not miss, f"every event type DeadLetterQueue sends to a queue ({sorted(emitted)}) has a branch in MessageQueue.handle_event ({sorted(handled)})"
           + ("" if not miss else f" — unhandled: {miss}: a replayed message is removed from the DLQ and then dropped"))
    # the handler of a replay event publishes the payload
    for et in sorted(emitted & handled):
        br = [s_ for s_ in walk_stmts(he.node.body) if isinstance(s_, ast.If) and f"'{et}'" in unparse(s_.test)]
        pub = [c for b_ in br for c in calls_in(b_) if path_of(c.func) == "self.publish"]
        ctx.ob("C19-2", "G2", he, br[0] if br else None, len(pub) == 1, f"the `{et}` branch re-publishes the replayed payload into the queue")
    dl = prog.func(MQ, "MessageQueue._deliver_message")
    ff = ctx.flow(dl)
    from ..suspend import node_suspension
    infl = [n_ for n_ in ff.cfg.nodes if n_.kind == "stmt" and isinstance(n_.ast, ast.Assign) and unparse(n_.ast.targets[0]).replace(" ", "") == "self._in_flight[message_id]"]
    clr = [n_ for n_ in ff.cfg.nodes if n_.kind == "stmt" and any(path_of(k.func) == "self._redelivery_scheduled.discard" and [path_of(a_) for a_ in k.args] == ["message_id"] for k in calls_in(n_.ast))]
    susp = [n_ for n_ in ff.cfg.nodes if n_.kind in ("stmt", "test", "for") and node_suspension(prog, dl, n_)]
    ok = len(infl) == 1 and bool(clr) and bool(susp)
    if ok:
        # on every path that moves the message to in-flight, the flag is cleared before the first suspension after it
        for p_ in enumerate_paths(ff, infl[0], stop=lambda x: any(x is s_ for s_ in susp)):
            if p_.end == "stop" and not any(any(nd is c_ for c_ in clr) for nd in p_.nodes):
                ok = False
    ctx.ob("C19-2", "G2", dl, infl[0].ast if infl else None, ok, "_deliver_message clears the message's redelivery-scheduled flag when it moves the message to in-flight, before its suspension "
           "(the new delivery supersedes the outstanding timer)")


def run(ctx: Ctx) -> None:
    ctx.guarded(rule_dlq_replay_and_flag)
    ctx.guarded(rule_queue)
    ctx.guarded(rule_topic)
    ctx.guarded(rule_log)
    ctx.guarded(rule_group)
    for r, k in (("C19-1", 1), ("C19-2", 13), ("C19-3", 1), ("C19-4", 4), ("C19-5", 5), ("C19-6", 1), ("C19-7", 7), ("C19-8", 6)):
        ctx.floor(r, k)


MUTANTS = [
    ("queue-ignores-republish", MQ, "        if event_type == \"republish\":", "        if event_type == \"republish_\":", "C19-2"),
    ("delivery-keeps-redelivery-flag", MQ, "        self._redelivery_scheduled.discard(message_id)\n\n        # Track delivery latency", "\n        # Track delivery latency", "C19-2"),
    ("poll-ignores-group-offset", CG, "                offset = max(offsets.get(pid, 0), self._group_offsets.get(pid, 0))\n", "                offset = offsets.get(pid, 0)\n", "C19-7"),
    ("rebalance-clears-group-offsets", CG, "        self._generation += 1\n", "        self._generation += 1\n        self._group_offsets.clear()\n", "C19-7"),
    ("timeout-limit-one-short", MQ, "        if msg.delivery_count > self._max_redeliveries:", "        if msg.delivery_count >= self._max_redeliveries:", "C19-2"),
    ("dlq-age-from-publish-time", DLQ, "            msg_time = self._message_times[0]\n", "            msg_time = self._messages[0].created_at\n", "C19-2"),
    ("stale-timer-keeps-marker", MQ, "                self._redelivery_scheduled.discard(message_id)\n                # schedule_redelivery() left the message pollable at the head\n                # of the pending queue. If a poll already picked it up (or it\n                # was acknowledged/dead-lettered meanwhile) this timer is stale.\n                if message_id not in self._pending_queue:\n                    return []\n",
     "                if message_id not in self._pending_queue:\n                    return []\n                self._redelivery_scheduled.discard(message_id)\n", "C19-2"),
    ("deliver-after-ack", MQ, "        if self._messages.get(message_id) is not msg:\n            return None\n", "", "C19-2"),
    ("deliver-to-departed-consumer", MQ, "        if consumer not in self._consumers:\n            consumer = self._get_next_consumer()", "        if consumer is None:\n            consumer = self._get_next_consumer()", "C19-2"),
    ("redelivery-timer-unguarded", MQ, "                if message_id not in self._pending_queue:\n                    return []\n", "", "C19-2"),
    ("ack-leaves-pending-id", MQ, "        self._in_flight.pop(message_id, None)\n        self._discard_pending(message_id)\n        self._messages.pop(message_id, None)", "        self._in_flight.pop(message_id, None)\n        self._messages.pop(message_id, None)", "C19-2"),
    ("reject-leaves-pending-id", MQ, "        self._in_flight.pop(message_id, None)\n        self._discard_pending(message_id)\n\n        # delivery_count includes", "        self._in_flight.pop(message_id, None)\n\n        # delivery_count includes", "C19-2"),
    ("undo-keeps-in-flight", MQ, "                    del self._in_flight[message_id]\n", "                    pass\n", "C19-2"),
    ("undo-drops-message", MQ, "                    self._pending_queue.appendleft(message_id)\n                return None", "                return None", "C19-2"),
    ("publish-queues-after-latency", MQ, ["        self._pending_queue.append(message_id)\n        self._messages_published += 1\n\n        # Small publish latency\n        yield 0.0001\n"], ["        self._messages_published += 1\n\n        # Small publish latency\n        yield 0.0001\n        self._pending_queue.append(message_id)\n"], "C19-2"),
    ("deliver-in-flight-after-latency", MQ, ["        self._in_flight[message_id] = msg\n        # This delivery supersedes", "        yield self._delivery_latency\n"], ["        # This delivery supersedes", "        yield self._delivery_latency\n        self._in_flight[message_id] = msg\n"], "C19-2"),
    ("deliver-counts-twice", MQ, "        msg.delivery_count += 1\n        msg.last_delivered_at = now", "        msg.delivery_count += 2\n        msg.last_delivered_at = now", "C19-2"),
    ("deliver-no-stored-guard", MQ, "        if message_id not in self._messages:\n            return None\n\n        consumer = self._get_next_consumer()", "        consumer = self._get_next_consumer()", "C19-2"),
    ("deliver-stale-stamp", MQ, "        delivery_event = Event(\n            time=self._clock.now if self._clock else Instant.Epoch,\n            event_type=\"message_delivery\",", "        delivery_event = Event(\n            time=now,\n            event_type=\"message_delivery\",", "C19-1"),
    ("ack-keeps-in-flight", MQ, "        self._in_flight.pop(message_id, None)\n        self._discard_pending(message_id)\n        self._messages.pop(message_id, None)", "        self._discard_pending(message_id)\n        self._messages.pop(message_id, None)", "C19-2"),
    ("reject-requeue-and-remove", MQ, "            msg.state = MessageState.PENDING\n            self._pending_queue.append(message_id)\n        else:", "            msg.state = MessageState.PENDING\n            self._pending_queue.append(message_id)\n            self._messages.pop(message_id, None)\n        else:", "C19-2"),
    ("reject-dlq-keeps-stored", MQ, "                self._messages_dead_lettered += 1\n            self._messages.pop(message_id, None)", "                self._messages_dead_lettered += 1", "C19-2"),
    ("reject-limit-one-short", MQ, "        if requeue and msg.delivery_count <= self._max_redeliveries:", "        if requeue and msg.delivery_count < self._max_redeliveries:", "C19-2"),
    ("reject-skips-dlq", MQ, "                self._dead_letter_queue.add_message(msg)\n                self._messages_dead_lettered += 1", "                self._messages_dead_lettered += 1", "C19-2"),
    ("timeout-ignores-limit", MQ, "        if msg.delivery_count > self._max_redeliveries:\n            # Dead letter: all max_redeliveries redeliveries (on top of the\n            # first delivery) have been used up.\n            self.reject(message_id, requeue=False)\n            return None\n", "", "C19-2"),
    ("timeout-requeues-at-back", MQ, "        self._in_flight.pop(message_id, None)\n        self._pending_queue.appendleft(message_id)", "        self._in_flight.pop(message_id, None)\n        self._pending_queue.append(message_id)", "C19-2"),
    ("timeout-keeps-in-flight", MQ, "        msg.state = MessageState.PENDING\n        self._in_flight.pop(message_id, None)\n        self._pending_queue.appendleft(message_id)", "        msg.state = MessageState.PENDING\n        self._pending_queue.appendleft(message_id)", "C19-2"),
    ("poll-takes-newest", MQ, "        message_id = self._pending_queue[0]", "        message_id = self._pending_queue[-1]", "C19-3"),
    ("topic-snapshot-after-latency", TOPIC, ["        active_subscribers = [sub for sub in self._subscriptions.values() if sub.active]\n\n        for subscription in active_subscribers:\n            # Delivery latency\n            yield self._delivery_latency\n"], ["        yield self._delivery_latency\n        active_subscribers = [sub for sub in self._subscriptions.values() if sub.active]\n\n        for subscription in active_subscribers:\n"], "C19-4"),
    ("topic-delivers-only-still-active", TOPIC, "        for subscription in active_subscribers:\n            delivery_event = Event(\n                time=now,", "        for subscription in active_subscribers:\n            if not subscription.active:\n                continue\n            delivery_event = Event(\n                time=now,", "C19-4"),
    ("topic-duplicate-subscription", TOPIC, "        if subscriber in self._subscriptions:\n            # Reactivate existing subscription\n            self._subscriptions[subscriber].active = True\n        else:\n            self._subscriptions[subscriber] = Subscription(", "        if False:\n            pass\n        else:\n            self._subscriptions[subscriber] = Subscription(", "C19-4"),
    ("log-watermark-before-offset", LOG, ["        record = Record(\n            offset=partition.high_watermark,", "        partition.records.append(record)\n        partition.high_watermark += 1"], ["        partition.high_watermark += 1\n        record = Record(\n            offset=partition.high_watermark,", "        partition.records.append(record)"], "C19-5"),
    ("log-offset-from-length", LOG, "            offset=partition.high_watermark,", "            offset=len(partition.records),", "C19-5"),
    ("log-partition-from-python-hash", LOG, "        pid = self._get_partition_for_key(key)", "        pid = hash(key) % self._num_partitions", "C19-5"),
    ("log-retention-drops-newest", LOG, "                    partition.records = partition.records[excess:]", "                    partition.records = partition.records[:-excess]", "C19-5"),
    ("log-read-exclusive", LOG, "            if rec.offset >= offset:", "            if rec.offset > offset:", "C19-5"),
    ("commit-overwrites", CG, "                committed[pid] = max(committed.get(pid, 0), offset)", "                committed[pid] = offset", "C19-6"),
    ("leave-forgets-offsets", CG, "            self._assignments.pop(consumer_name, None)\n            # Keep committed offsets for potential rejoin", "            self._assignments.pop(consumer_name, None)\n            self._committed_offsets.pop(consumer_name, None)", "C19-6"),
    ("rebalance-before-delay", CG, "            self._joins += 1\n\n            yield self._rebalance_delay\n            self._rebalance()", "            self._joins += 1\n\n            self._rebalance()\n            yield self._rebalance_delay", "C19-7"),
    ("rebalance-unsorted-members", CG, "        consumer_names = sorted(self._consumers.keys())\n        self._assignments", "        consumer_names = list(self._consumers.keys())\n        self._assignments", "C19-7"),
    ("roundrobin-skips-when-many", CG, "            consumer = sorted_consumers[i % len(sorted_consumers)]\n            result[consumer].append(pid)", "            consumer = sorted_consumers[i % len(sorted_consumers)]\n            if len(result[consumer]) < 2:\n                result[consumer].append(pid)", "C19-7"),
    ("range-overlapping-slices", CG, "            result[name] = sorted_parts[idx : idx + count]\n            idx += count", "            result[name] = sorted_parts[idx : idx + count]\n            idx += base", "C19-7"),
    ("sticky-keeps-vanished-partitions", CG, "                kept = [p for p in self._previous[name] if p in all_parts]", "                kept = list(self._previous[name])", "C19-7"),
    ("sticky-remembers-aliased-lists", CG, "        self._previous = {k: list(v) for k, v in result.items()}", "        self._previous = result", "C19-7"),
    ("poll-reads-all-partitions", CG, "            assigned = self._assignments.get(consumer_name, [])\n            offsets = self._committed_offsets.get(consumer_name, {})", "            assigned = list(range(self._event_log.num_partitions))\n            offsets = self._committed_offsets.get(consumer_name, {})", "C19-7"),
    ("commit-key-renamed-in-generator", CG, "                \"consumer_name\": consumer_name,\n                \"offsets\": offsets,", "                \"consumer_name\": consumer_name,\n                \"positions\": offsets,", "C19-8"),
]
REFACTORS = [
    ("reject-branches-swapped", MQ, ["        if requeue and msg.delivery_count <= self._max_redeliveries:\n            # Requeue for redelivery\n            msg.state = MessageState.PENDING\n            self._pending_queue.append(message_id)\n        else:\n            # Dead letter or discard\n            if self._dead_letter_queue is not None:\n                self._dead_letter_queue.add_message(msg)\n                self._messages_dead_lettered += 1\n            self._messages.pop(message_id, None)\n            self._redelivery_scheduled.discard(message_id)"],
     ["        if not (requeue and msg.delivery_count <= self._max_redeliveries):\n            if self._dead_letter_queue is not None:\n                self._dead_letter_queue.add_message(msg)\n                self._messages_dead_lettered += 1\n            self._messages.pop(message_id, None)\n            self._redelivery_scheduled.discard(message_id)\n        else:\n            msg.state = MessageState.PENDING\n            self._pending_queue.append(message_id)"]),
    ("commit-max-args-swapped", CG, "                committed[pid] = max(committed.get(pid, 0), offset)", "                committed[pid] = max(offset, committed.get(pid, 0))"),
]
