"""C03 — the same model and seeds give the same run, in every process (source-provenance clauses)."""

from __future__ import annotations

import ast

from ..astutil import calls_in, path_of, unparse, walk_scope, walk_stmts
from ..effects import write_targets
from ..report import Ctx
from .common import always_before, need, node_of

SCOPE = ("happysimulator/components/", "happysimulator/faults/", "happysimulator/load/", "happysimulator/core/",
         "happysimulator/instrumentation/", "happysimulator/parallel/", "happysimulator/sketching/", "happysimulator/distributions/",
         "happysimulator/utils/", "happysimulator/numerics/")
SIM = "happysimulator/core/simulation.py"

EXPLANATION = (
    "Whole-package provenance scan (core, components, load, distributions, faults, sketching, parallel, instrumentation, utils, numerics): "
    "(1) process-dependent sources — builtin hash() outside __hash__, uuid, os.urandom/secrets, wall-clock reads, id(), unseedable RNG "
    "construction — are located and each is followed forward (intra-procedural taint over assignments and self-attributes) to "
    "order/time/placement sinks: emission timestamps, yields, branch conditions, sort keys, modulus/bucket indices, heap pushes; "
    "(2) iteration of str-capable sets whose consumer is order-sensitive; (3) Simulation.__init__ resets the event counter before "
    "anything can construct an Event and both loops run only inside the active-simulation context."
)
RULE_TEXT = (
    "One instance per located source occurrence (with its forward slice) and per set-iteration site; an instance is non-trivial when a "
    "source/iteration exists at that construct. Distinct by (rule, function, construct)."
)
NOT_DECIDED = [
    "that seeding `random` / `numpy.random` makes their streams reproducible (trusted)",
    "repr() of user objects being address-free",
    "thread interleaving of ParallelSimulation (wall-clock values returned through executor futures are not followed)",
    "components that take `seed: int | None = None` are only reproducible when the caller passes a seed — the property quantifies over 'the same seeds'",
]
ASSUMPTIONS = ["dict iteration order is insertion order (language guarantee)", "module-level random / numpy.random are seeded by the user as the tests do"]

WALL = {"time.time", "time.monotonic", "time.perf_counter", "time.time_ns", "time.monotonic_ns", "time.perf_counter_ns", "time.process_time",
        "datetime.now", "datetime.utcnow", "datetime.today", "datetime.datetime.now", "datetime.datetime.utcnow", "date.today"}
ENTROPY = {"uuid.uuid1", "uuid.uuid4", "uuid1", "uuid4", "os.urandom", "urandom", "secrets.token_hex", "secrets.token_bytes", "secrets.randbelow",
           "secrets.choice", "secrets.token_urlsafe"}

# Set-iteration sites whose body is order-insensitive for a reason the recogniser cannot see (one line of reason each).
SET_ITER_EXCEPTIONS = {
    ("happysimulator/components/load_balancer/strategies.py", "ConsistentHash._rebuild_ring", "ring_names"):
        "body only removes ring points / backends keyed by the element: removals commute",
}


def _source_kind(mod, call: ast.Call) -> str | None:
    p = path_of(call.func)
    if p is None:
        return None
    head = p.split(".")[0]
    imp = mod.imports.get(head)
    full = p
    if imp is not None:
        base = imp[0] if imp[1] is None else f"{imp[0]}.{imp[1]}"
        full = base + p[len(head):]
    if full in WALL or (full.startswith("time.") and full.split(".")[-1] in ("time", "monotonic", "perf_counter", "time_ns", "monotonic_ns")):
        return "wall-clock"
    if full in ENTROPY or full.startswith("secrets."):
        return "entropy"
    if p == "hash" and len(call.args) == 1:
        return "builtin-hash"
    if p == "id" and len(call.args) == 1:
        return "identity"
    if isinstance(call.func, ast.Attribute) and call.func.attr == "seed" and not call.keywords and \
            (not call.args or (len(call.args) == 1 and isinstance(call.args[0], ast.Constant) and call.args[0].value is None)):
        return "reseed-entropy"
    if full in ("random.Random", "random.SystemRandom", "numpy.random.default_rng", "numpy.random.RandomState") or p.endswith("SystemRandom"):
        if p.endswith("SystemRandom"):
            return "unseedable-rng"
        if not call.args and not call.keywords:
            return "unseedable-rng"
    return None


SINK_DESC = {
    "yield": "a yielded delay/value",
    "time-ctor": "an Event/Instant/Duration constructor argument",
    "test": "a branch condition",
    "sort": "a sort key / sorted() / min() / max() argument",
    "index": "a subscript index / modulus operand (placement)",
    "heap": "a heap push",
    "return": "the function's return value",
    "rng-seed": "an RNG seed",
}


def _taint_sinks(fn, sources: list[ast.AST], tainted_attrs: set[str]) -> tuple[set[str], set[str]]:
    """Forward closure over assignments (flow-insensitive).  Returns (sink kinds reached, self attrs tainted)."""
    src_ids = {id(s) for s in sources}
    tainted: set[str] = set()

    def mentions(e: ast.AST) -> bool:
        # a value *looked up* under a tainted key (d[k], d.get(k), k in d) is an association, not a function of the key's value
        skip: set[int] = set()
        for n in walk_scope(e):
            if isinstance(n, ast.Subscript) and not isinstance(n.slice, ast.Slice):
                skip |= {id(x) for x in ast.walk(n.slice)}
            elif isinstance(n, ast.Call) and isinstance(n.func, ast.Attribute) and n.func.attr in ("get", "pop", "setdefault", "__contains__"):
                for a in n.args[:1]:
                    skip |= {id(x) for x in ast.walk(a)}
        for n in walk_scope(e):
            if id(n) in skip:
                continue
            if id(n) in src_ids:
                return True
            p = path_of(n) if isinstance(n, (ast.Name, ast.Attribute)) else None
            if p and (p in tainted or (p.startswith("self.") and p.split(".")[1] in tainted_attrs)):
                return True
        return False

    changed = True
    while changed:
        changed = False
        for st in walk_stmts(fn.node.body):
            if isinstance(st, (ast.Assign, ast.AnnAssign, ast.AugAssign)) and getattr(st, "value", None) is not None and mentions(st.value):
                for t in write_targets(st):
                    base = t
                    while isinstance(base, ast.Subscript):
                        base = base.value
                    p = path_of(base)
                    if p and p not in tainted:
                        tainted.add(p)
                        changed = True
            elif isinstance(st, ast.For) and mentions(st.iter):
                for t in write_targets(st):
                    p = path_of(t)
                    if p and p not in tainted:
                        tainted.add(p)
                        changed = True
    sinks: set[str] = set()
    for n in walk_scope(fn.node, include_root=False):
        if isinstance(n, (ast.Yield, ast.YieldFrom)) and n.value is not None and mentions(n.value):
            sinks.add("yield")
        elif isinstance(n, ast.Call):
            p = path_of(n.func) or ""
            last = p.split(".")[-1]
            args = list(n.args) + [k.value for k in n.keywords]
            if last in ("Event", "Instant", "Duration", "from_seconds", "once") and any(mentions(a) for a in args):
                sinks.add("time-ctor")
            if last in ("sorted", "sort", "min", "max", "nsmallest", "nlargest") and any(mentions(a) for a in args):
                sinks.add("sort")
            if last in ("heappush", "push") and any(mentions(a) for a in args):
                sinks.add("heap")
            if last in ("Random", "seed", "default_rng") and any(mentions(a) for a in args):
                sinks.add("rng-seed")
        elif isinstance(n, (ast.If, ast.While, ast.IfExp)):
            # only *ordering* comparisons of the tainted value against something non-constant decide anything:
            # presence / equality / membership tests and `x > 0` division guards do not depend on the numeric value's order
            for cmp_ in [x for x in walk_scope(n.test) if isinstance(x, ast.Compare)]:
                operands = [cmp_.left] + list(cmp_.comparators)
                if not any(mentions(o) for o in operands):
                    continue
                if all(isinstance(o, (ast.Eq, ast.NotEq, ast.In, ast.NotIn, ast.Is, ast.IsNot)) for o in cmp_.ops):
                    continue
                if any(isinstance(o, ast.Constant) for o in operands):
                    continue
                sinks.add("test")
        elif isinstance(n, ast.Subscript) and isinstance(n.ctx, ast.Load) and mentions(n.slice) and not isinstance(n.slice, ast.Slice):
            # dictionary lookup keyed by an identity / uuid is a pure association, flagged only for modulus below
            pass
        elif isinstance(n, ast.BinOp) and isinstance(n.op, ast.Mod) and mentions(n.left):
            sinks.add("index")
        elif isinstance(n, ast.Return) and n.value is not None and mentions(n.value):
            # summary objects / (name, elapsed) tuples are the designated carriers of wall-clock measurements
            v = n.value
            last_ = (path_of(v.func) or "").split(".")[-1] if isinstance(v, ast.Call) else ""
            carrier = last_.endswith(("Summary", "State", "Stats")) or "summary" in last_.lower()
            if isinstance(v, ast.Tuple):
                carrier = all((not mentions(el)) or (isinstance(el, ast.Name) and any(t in el.id for t in ("elapsed", "wall"))) for el in v.elts)
            if not carrier:
                sinks.add("return")
    attrs = {p.split(".")[1] for p in tainted if p.startswith("self.") and p.count(".") >= 1}
    return sinks, attrs


def rule_sources(ctx: Ctx) -> None:
    prog = ctx.prog
    n_src = 0
    # class-level tainted attributes (wall clock stored on self)
    class_taint: dict[str, set[str]] = {}
    occurrences = []
    for fn in prog.all_functions("happysimulator/"):
        if not fn.module.relpath.startswith(SCOPE):
            continue
        for c in calls_in(fn.node):
            k = _source_kind(fn.module, c)
            if k is None:
                continue
            occurrences.append((fn, c, k))
        # default argument `clock_func or time.time` (a reference, not a call)
        for n in walk_scope(fn.node, include_root=False):
            if isinstance(n, ast.Attribute) and not isinstance(getattr(n, "ctx", None), ast.Store):
                p = path_of(n)
                if p in ("time.time", "time.monotonic", "time.perf_counter") and fn.module.imports.get("time", ("time", None))[0] == "time":
                    parent_is_call = any(isinstance(c, ast.Call) and c.func is n for c in calls_in(fn.node))
                    if not parent_is_call:
                        occurrences.append((fn, n, "wall-clock-ref"))
    # first pass: which self attributes carry wall-clock values
    for fn, c, k in occurrences:
        if k == "wall-clock" and fn.cls is not None:
            _, attrs = _taint_sinks(fn, [c], set())
            class_taint.setdefault(fn.cls.key, set()).update(attrs)
    for fn, c, k in occurrences:
        n_src += 1
        if k == "builtin-hash":
            ok = fn.name == "__hash__"
            ctx.ob("C03-1", "G7", fn, c, ok,
                   "builtin hash() is process-randomised for str/bytes (PYTHONHASHSEED); outside __hash__ it must not decide placement, order or "
                   f"statistics — `{unparse(c)}` in {fn.qual}" + ("" if ok else ": use a hashlib-based family with an explicit seed"))
            continue
        if k == "reseed-entropy":
            ctx.ob("C03-1", "G7", fn, c, False, f"`{unparse(c)}` in {fn.qual} re-seeds a generator from OS entropy (`seed()` without a value): every draw after it differs "
                   "from run to run although the model was built with a seed")
            continue
        if k == "unseedable-rng":
            # acceptable only as `param or random.Random()` fallback
            ok = False
            for n in walk_scope(fn.node, include_root=False):
                if isinstance(n, ast.BoolOp) and isinstance(n.op, ast.Or) and any(v is c for v in n.values):
                    first = n.values[0]
                    if isinstance(first, ast.Name) and first.id in fn.params():
                        ok = True
            ctx.ob("C03-1", "G7", fn, c, ok, f"`{unparse(c)}` draws OS entropy and cannot be seeded; allowed only as the fallback of an rng parameter")
            continue
        if k == "wall-clock-ref":
            ctx.ob("C03-1", "G7", fn, f"{unparse(c)} (reference)", False,
                   f"`{unparse(c)}` (wall clock) is used as a default time source in {fn.qual}: component behaviour then depends on real time "
                   "instead of simulated time", node=c)
            continue
        extra = class_taint.get(fn.cls.key, set()) if fn.cls is not None else set()
        sinks, _ = _taint_sinks(fn, [c], set())
        bad = sorted(sinks - ({"return"} if k in ("identity", "entropy") else set()))
        if k == "wall-clock":
            bad = [s for s in bad if s != "return" or not _returns_only_to_summary(fn)]
        if k == "entropy":
            # ids used as dictionary keys / context labels are fine; ordering or timing use is not
            bad = [s for s in bad if s not in ("return",)]
        ok = not bad
        ctx.ob("C03-1", "G7", fn, c, ok,
               f"{k} source `{unparse(c)}` in {fn.qual}: " + ("reaches no order/time/placement sink (labels, dictionary keys, wall-clock summary fields only)"
                                                              if ok else "flows into " + ", ".join(SINK_DESC[s] for s in bad)))
    # reads of wall-clock attributes elsewhere in their class
    for ckey, attrs in class_taint.items():
        if not attrs:
            continue
        for fn in prog.all_functions("happysimulator/"):
            if fn.cls is None or fn.cls.key != ckey:
                continue
            reads = [n for n in walk_scope(fn.node, include_root=False) if isinstance(n, ast.Attribute) and isinstance(n.ctx, ast.Load)
                     and path_of(n) and path_of(n).startswith("self.") and path_of(n).split(".")[1] in attrs]
            if not reads:
                continue
            sinks, _ = _taint_sinks(fn, reads, set())
            bad = sorted(s for s in sinks if s not in ("return",))
            ctx.ob("C03-1", "G7", fn, f"reads wall-clock attribute(s) {sorted(attrs)}", not bad,
                   "wall-clock values stored on the object must only feed wall-clock summary fields — "
                   + ("ok" if not bad else "flows into " + ", ".join(SINK_DESC[s] for s in bad)), node=reads[0])
    # reads of wall-clock attributes through another object (control surface reading sim._wall_start)
    ctx.stats["nondeterminism_sources_located"] = n_src
    ctx.floor("C03-1", 20)


def _returns_only_to_summary(fn) -> bool:
    """A wall-clock value may be returned when the function is a summary/elapsed helper (name says so)."""
    return any(tok in fn.name for tok in ("summary", "elapsed", "wall", "_run_partition_window", "get_state", "stats"))


def _set_typed(prog, fn, e, localsets) -> bool:
    p = path_of(e)
    if p and p.startswith("self.") and p.count(".") == 1 and fn.cls:
        ai = prog.attr_info(fn.cls, p.split(".")[1])
        return ai is not None and ai.kind == "set"
    if isinstance(e, ast.Name):
        return e.id in localsets
    if isinstance(e, (ast.Set, ast.SetComp)):
        return True
    if isinstance(e, ast.Call) and path_of(e.func) in ("set", "frozenset"):
        return True
    if isinstance(e, ast.BinOp) and isinstance(e.op, (ast.BitOr, ast.BitAnd, ast.Sub, ast.BitXor)):
        return _set_typed(prog, fn, e.left, localsets) or _set_typed(prog, fn, e.right, localsets)
    if isinstance(e, ast.Call) and isinstance(e.func, ast.Attribute) and e.func.attr in ("union", "intersection", "difference", "copy", "symmetric_difference") \
            and _set_typed(prog, fn, e.func.value, localsets):
        return True
    return False


_ORDER_FREE_CONSUMERS = {"sorted", "min", "max", "sum", "any", "all", "len", "set", "frozenset", "Counter"}


def _body_order_insensitive(loop: ast.For) -> bool:
    """all/any flag loops, set/dict accumulation keyed by the element, counters."""
    var = path_of(loop.target)

    def ok_stmt(st: ast.stmt) -> bool:
        if isinstance(st, (ast.Pass, ast.Continue, ast.Break)):
            return True
        if isinstance(st, ast.If):
            return all(ok_stmt(s) for s in st.body) and all(ok_stmt(s) for s in st.orelse)
        if isinstance(st, ast.Return):
            return st.value is None or isinstance(st.value, ast.Constant)
        if isinstance(st, ast.Assign) and len(st.targets) == 1:
            t = st.targets[0]
            if isinstance(st.value, ast.Constant) and isinstance(t, (ast.Name, ast.Subscript, ast.Attribute)):
                return True  # flag = True / flag[0] = False
            if isinstance(t, ast.Subscript) and var is not None and path_of(t.slice) == var:
                return True  # d[elem] = f(elem)
            if isinstance(t, ast.Name):
                return not isinstance(st.value, (ast.Yield, ast.YieldFrom))  # pure local computation
            return False
        if isinstance(st, ast.AugAssign):
            return isinstance(st.op, (ast.Add, ast.Sub, ast.BitOr, ast.BitAnd)) and not isinstance(st.value, (ast.Yield, ast.YieldFrom))
        if isinstance(st, ast.Expr) and isinstance(st.value, ast.Call) and isinstance(st.value.func, ast.Attribute):
            return st.value.func.attr in ("add", "discard", "update") and isinstance(st.value.func.value, ast.Name)
        return False

    return all(ok_stmt(s) for s in loop.body)


def rule_set_iteration(ctx: Ctx) -> None:
    prog = ctx.prog
    n = 0
    for fn in prog.all_functions("happysimulator/"):
        if not fn.module.relpath.startswith(SCOPE):
            continue
        localsets: set[str] = set()
        for st in walk_stmts(fn.node.body):
            if isinstance(st, (ast.Assign, ast.AnnAssign)):
                t = st.targets[0] if isinstance(st, ast.Assign) else st.target
                if isinstance(t, ast.Name) and st.value is not None and _set_typed(prog, fn, st.value, localsets):
                    localsets.add(t.id)
                if isinstance(st, ast.AnnAssign) and isinstance(t, ast.Name) and unparse(st.annotation).lower().split("[")[0] in ("set", "frozenset"):
                    localsets.add(t.id)
        parents: dict[int, ast.AST] = {}
        for p_ in walk_scope(fn.node):
            for ch in ast.iter_child_nodes(p_):
                parents[id(ch)] = p_
        for node in walk_scope(fn.node, include_root=False):
            it = None
            kind = None
            if isinstance(node, ast.For):
                it, kind = node.iter, "for"
            elif isinstance(node, (ast.ListComp, ast.GeneratorExp, ast.DictComp)):
                it, kind = node.generators[0].iter, "comprehension"
            elif isinstance(node, ast.Call) and path_of(node.func) in ("list", "tuple", "next", "iter", "enumerate") and node.args:
                it, kind = node.args[0], path_of(node.func)
            elif isinstance(node, ast.Call) and isinstance(node.func, ast.Attribute) and node.func.attr == "pop" and not node.args \
                    and _set_typed(prog, fn, node.func.value, localsets):
                it, kind = node.func.value, "pop"
            if it is None or not _set_typed(prog, fn, it, localsets):
                continue
            n += 1
            itxt = unparse(it)
            exc = SET_ITER_EXCEPTIONS.get((fn.module.relpath, fn.qual, itxt))
            ok = False
            why = ""
            par = parents.get(id(node))
            if exc:
                ok, why = True, "frozen exception: " + exc
            elif kind == "for" and _body_order_insensitive(node):
                ok, why = True, "loop body is order-insensitive (flag / keyed accumulation)"
            elif kind in ("comprehension", "list", "tuple", "enumerate", "iter") and isinstance(par, ast.Call) and path_of(par.func) in _ORDER_FREE_CONSUMERS:
                ok, why = True, f"consumed by {path_of(par.func)}()"
            elif kind == "comprehension" and isinstance(node, ast.DictComp):
                ok, why = False, "dict built in set order (its iteration order then depends on the hash seed)"
            ctx.ob("C03-2", "G7", fn, f"{kind} over {itxt}", ok,
                   f"iteration order of a set of possibly-str elements depends on PYTHONHASHSEED: `{kind}` over `{itxt}` in {fn.qual} — "
                   + (why if ok else "the consumer is order-sensitive (drives writes / choices / returned order); wrap in sorted() or keep an insertion-ordered dict"),
                   node=node)
    ctx.stats["set_iteration_sites"] = n
    ctx.floor("C03-2", 5)


def rule_counter_reset_and_context(ctx: Ctx) -> None:
    prog = ctx.prog
    init = prog.func(SIM, "Simulation.__init__")
    ff = ctx.flow(init)
    resets = [c for c in calls_in(init.node) if path_of(c.func) == "reset_event_counter"]
    need(resets, "C03-3: Simulation.__init__ does not call reset_event_counter()")
    rn = node_of(ff.cfg, resets[0])

    def may_construct_event(n) -> bool:
        if n.kind not in ("stmt", "for", "with", "test") or n is rn:
            return False
        from ..cfg import own_exprs

        for e in own_exprs(n):
            for c in walk_scope(e):
                if isinstance(c, ast.Call):
                    p = path_of(c.func) or ""
                    if p.split(".")[-1] in ("start", "Event", "schedule", "push") or p.endswith(".start"):
                        return True
        return False

    bad = always_before(ctx, init, lambda n: n is rn, may_construct_event)
    ctx.ob("C03-3", "G2", init, resets[0], not bad,
           "each Simulation starts its tie-break indices afresh: reset_event_counter() precedes every statement of __init__ that can construct or push an Event"
           + ("" if not bad else f" — not before line {bad[0].lineno}"))
    # the process-wide counter never moves backwards except at the documented reset: events of *another* Simulation alive in the same process
    # (built, not yet run) already hold indices from it, and a later event of that Simulation must sort after them
    n_gw = 0
    for fn in prog.all_functions("happysimulator/core/"):
        for st in walk_scope(fn.node, include_root=False):
            if isinstance(st, (ast.Assign, ast.AugAssign)) and any(path_of(t_) == "_global_event_counter" for t_ in (st.targets if isinstance(st, ast.Assign) else [st.target])):
                n_gw += 1
                v = st.value
                start = v.args[0] if isinstance(v, ast.Call) and path_of(v.func) in ("count", "itertools.count") and v.args else None
                if fn.name == "reset_event_counter":
                    okg = isinstance(v, ast.Call) and path_of(v.func) in ("count", "itertools.count") and not v.args and not v.keywords
                    msg = "reset_event_counter() is the one place where the process-wide counter restarts (at 0)"
                else:
                    okg = isinstance(start, ast.Call) and path_of(start.func) == "max" and any(
                        "_global_event_counter" in unparse(a_) and ("__next__" in unparse(a_) or "next(" in unparse(a_)) for a_ in start.args)
                    msg = f"{fn.qual}: the process-wide counter is only ever replaced by count(max(<its own next index>, …)) — it never moves backwards (found `{unparse(v)[:70]}`)"
                ctx.ob("C03-3", "G6", fn, st, okg, msg)
    need(n_gw >= 2, f"C03-3: expected >= 2 writes of the module counter in core/event.py, found {n_gw}")
    # loops only run inside the active simulation context
    for caller_q, callee in (("Simulation.run", "_run_loop"), ("Simulation._run_window", "_execute_until")):
        fn = prog.func(SIM, caller_q)
        calls = [c for c in calls_in(fn.node) if isinstance(c.func, ast.Attribute) and c.func.attr == callee]
        need(calls, f"C03-3: {caller_q} does not call {callee}")
        for c in calls:
            inside = False
            for st in walk_stmts(fn.node.body):
                if isinstance(st, ast.With) and any(isinstance(i.context_expr, ast.Call) and path_of(i.context_expr.func) == "_active_sim_context" for i in st.items):
                    if any(x is c for x in ast.walk(st)):
                        inside = True
                        args = [path_of(a) for i in st.items if isinstance(i.context_expr, ast.Call) and path_of(i.context_expr.func) == "_active_sim_context" for a in i.context_expr.args]
                        inside = inside and args == ["self._event_heap", "self._clock"]
            ctx.ob("C03-3", "G2", fn, c, inside, f"{callee}() runs inside `_active_sim_context(self._event_heap, self._clock)` (per-simulation index counter and future context)")
    # who calls the loops at all
    for fn in prog.all_functions("happysimulator/"):
        for c in calls_in(fn.node):
            if isinstance(c.func, ast.Attribute) and c.func.attr in ("_run_loop", "_execute_until") and fn.qual not in (
                    "Simulation.run", "Simulation._run_window", "Simulation._run_loop_fast"):
                ctx.ob("C03-3", "G2", fn, c, False, f"{c.func.attr}() called from {fn.qual}, outside the active-simulation context set up by run()/_run_window()")
    ctx.floor("C03-3", 3)


# `global` rebinding sites that are part of the design, one line of reason each
GLOBAL_ALLOW = {
    ("happysimulator/core/event.py", "reset_event_counter", "_global_event_counter"): "reset at the start of every Simulation (C03-3)",
    ("happysimulator/core/event.py", "_advance_global_event_counter", "_global_event_counter"): "only ever advanced; indices matter relatively within one heap (C01-8)",
    ("happysimulator/core/event.py", "enable_event_tracing", "_event_tracing_enabled"): "observer flag (C04-2: tracing blocks only observe)",
    ("happysimulator/core/event.py", "disable_event_tracing", "_event_tracing_enabled"): "observer flag (C04-2)",
    ("happysimulator/utils/ids.py", "get_id", "_counter"): "label generator: ids are never ordered or used for placement",
}


def rule_process_global_state(ctx: Ctx) -> None:
    """C03-4: nothing a simulation mutates is shared between simulations through module- or class-level containers."""
    from ..effects import MUTATORS
    from ..model import _kind_of_value

    prog = ctx.prog
    n_mod = 0
    for rel, mod in prog.modules.items():
        if not rel.startswith(SCOPE):
            continue
        n_mod += 1
        mglob = {}
        for st in mod.tree.body:
            if isinstance(st, (ast.Assign, ast.AnnAssign)):
                t = st.targets[0] if isinstance(st, ast.Assign) else st.target
                if isinstance(t, ast.Name) and st.value is not None and _kind_of_value(st.value)[0] in ("list", "dict", "set", "deque"):
                    mglob[t.id] = st
        cattrs = {}
        for c in mod.classes.values():
            for st in c.node.body:
                if isinstance(st, (ast.Assign, ast.AnnAssign)):
                    t = st.targets[0] if isinstance(st, ast.Assign) else st.target
                    if isinstance(t, ast.Name) and st.value is not None and _kind_of_value(st.value)[0] in ("list", "dict", "set", "deque"):
                        cattrs[(c.name, t.id)] = st
        for fn in mod.all_functions:
            # a memoising decorator is a process-wide container keyed by argument *equality* (1 == 1.0 == True share an entry): what an earlier
            # simulation asked decides what a later one is told
            for d in fn.node.decorator_list:
                dn = path_of(d.func if isinstance(d, ast.Call) else d) or ""
                if dn.split(".")[-1] in ("lru_cache", "cache", "cached") or dn in ("functools.lru_cache", "functools.cache"):
                    ctx.ob("C03-4", "G7", fn, f"memoised by @{dn}", False,
                           f"{fn.qual} is memoised by `@{dn}`: the cache lives as long as the interpreter and is looked up by equality of the arguments, so results of "
                           "one simulation leak into the next (and keys that are equal but not identical are conflated)", node=fn.node)
            for n in walk_scope(fn.node, include_root=False):
                recvs = []
                if isinstance(n, ast.Call) and isinstance(n.func, ast.Attribute) and n.func.attr in MUTATORS:
                    recvs.append(n.func.value)
                elif isinstance(n, (ast.Assign, ast.AugAssign, ast.Delete)):
                    for t in (n.targets if isinstance(n, (ast.Assign, ast.Delete)) else [n.target]):
                        if isinstance(t, ast.Subscript):
                            recvs.append(t.value)
                for recv in recvs:
                    p = path_of(recv)
                    if p is None:
                        continue
                    shared = None
                    if p in mglob and p not in fn.params():
                        shared = f"module-level container `{p}`"
                    elif fn.cls is not None and p.startswith("self.") and (fn.cls.name, p[5:]) in cattrs and not any(
                            isinstance(s2, (ast.Assign, ast.AnnAssign)) and path_of(s2.targets[0] if isinstance(s2, ast.Assign) else s2.target) == p
                            for m in fn.cls.methods.values() for s2 in walk_stmts(m.node.body)):
                        shared = f"class-level container `{fn.cls.name}.{p[5:]}` (never re-bound per instance)"
                    elif fn.cls is not None and (p.startswith(fn.cls.name + ".") or p.startswith("cls.") or p.startswith("type(self).")):
                        shared = f"class attribute `{p}`"
                    if shared:
                        ctx.ob("C03-4", "G7", fn, f"mutates {shared}", False,
                               f"{fn.qual} mutates a {shared}: its contents survive from one simulation to the next in the same interpreter, so a run depends on what ran before it", node=n)
            for st in walk_stmts(fn.node.body):
                if isinstance(st, ast.Global):
                    for nm in st.names:
                        why = GLOBAL_ALLOW.get((rel, fn.qual, nm))
                        ctx.ob("C03-4", "G7", fn, f"global {nm}", why is not None,
                               f"{fn.qual} rebinds module global `{nm}`" + (f" — allowed: {why}" if why else ": process-wide state that outlives a simulation"), node=st)
    # the process-wide generator of the `random` module handed around as if it were an instance RNG (`rng = random`, `x if seed else random`):
    # every draw then depends on whatever else drew from it earlier in the interpreter
    n_alias = 0
    for rel, mod in prog.modules.items():
        if not rel.startswith(SCOPE):
            continue
        names = {nm for nm, (src, what) in mod.imports.items() if src == "random" and what is None}
        if not names:
            continue
        for fn in mod.all_functions:
            attr_bases = {id(n.value) for n in walk_scope(fn.node) if isinstance(n, ast.Attribute)}
            for n in walk_scope(fn.node, include_root=False):
                if isinstance(n, ast.Name) and n.id in names and isinstance(n.ctx, ast.Load) and id(n) not in attr_bases and n.id not in fn.params():
                    n_alias += 1
                    ctx.ob("C03-4", "G7", fn, f"uses module `{n.id}` as an RNG object", False,
                           f"{fn.qual} passes the `random` module itself around as a generator: draws come from the process-wide RNG, shared with everything else in the interpreter (an explicit seed — 0 included — must give `random.Random(seed)`)", node=n)
    ctx.ob("C03-4", "G7", None, "package-wide shared-state scan", True, f"{n_mod} modules scanned for module-/class-level containers mutated at run time and for the random module used as an object ({n_alias} found)", relpath="happysimulator/")
    ctx.floor("C03-4", 5)


def rule_dependencies(ctx: Ctx) -> None:
    """C03-5 (dependency clause on C04-4): what reset() replays is a snapshot taken at schedule time and every replay builds fresh events
    from copies — otherwise a handler that mutates an event's metadata changes the model that the next run of the same Simulation executes,
    and "same model, same seeds" no longer gives the same deliveries."""
    from .c04 import replay_snapshot_rules
    replay_snapshot_rules(ctx, "C03-5")


def run(ctx: Ctx) -> None:
    ctx.guarded(rule_dependencies)
    ctx.guarded(rule_sources)
    ctx.guarded(rule_set_iteration)
    ctx.guarded(rule_counter_reset_and_context)
    ctx.guarded(rule_process_global_state)


CS_ = "happysimulator/components/datastore/cached_store.py"
EP_ = "happysimulator/components/datastore/eviction_policies.py"
MUTANTS = [
    ("sampled-lru-clear-reseeds-from-entropy", EP_, "        self._access_times.clear()\n        self._clock = 0\n", "        self._access_times.clear()\n        self._clock = 0\n        self._rng.seed()\n", "C03-1"),
    ("replay-spec-aliases-live-metadata", "happysimulator/core/simulation.py", "(e.time, e.event_type, e.target, e.daemon, dict(meta))", "(e.time, e.event_type, e.target, e.daemon, meta)", "C03-5"),
    ("cms-hash-memoised", "happysimulator/sketching/count_min_sketch.py", "    def _hash(self, item: T, row: int) -> int:", "    @functools.lru_cache(maxsize=None)\n    def _hash(self, item: T, row: int) -> int:", "C03-4"),
    ("global-counter-rebased-to-floor", "happysimulator/core/event.py", "    _global_event_counter = count(max(_global_event_counter.__next__(), floor))", "    _global_event_counter = count(floor)", "C03-3"),
    ("zipf-falls-back-to-global-rng", "happysimulator/distributions/zipf.py", "        self._rng = random.Random(seed)", "        self._rng = random.Random(seed) if seed else random", "C03-4"),
    ("random-eviction-unsorted-choice", EP_, "        key = self._rng.choice(sorted(self._keys))", "        key = self._rng.choice(list(self._keys))", "C03-2"),
    ("invalidate-all-iterates-set", CS_, "        for key in sorted(self._dirty_keys):\n            self._write_back_if_dirty(key)", "        for key in self._dirty_keys:\n            self._write_back_if_dirty(key)", "C03-2"),
    ("partition-from-builtin-hash", "happysimulator/components/streaming/event_log.py", "        pid = self._get_partition_for_key(key)", "        pid = hash(key) % self._num_partitions", "C03-1"),
    ("sim-does-not-reset-counter", "happysimulator/core/simulation.py", "        reset_event_counter()\n\n        if duration is not None and end_time is not None:", "        if duration is not None and end_time is not None:", "C03-3"),
    ("queue-stats-list-on-class", "happysimulator/components/messaging/message_queue.py", ["        self._delivery_latencies: list[float] = []\n", "    def downstream_entities(self) -> list[Entity]:\n        result = list(self._consumers)"],
     ["", "    _delivery_latencies: list[float] = []\n\n    def downstream_entities(self) -> list[Entity]:\n        result = list(self._consumers)"], "C03-4"),
]
REFACTORS = [
    ("random-eviction-sorted-list", EP_, "        key = self._rng.choice(sorted(self._keys))", "        ordered = sorted(self._keys)\n        key = self._rng.choice(ordered)"),
]
