"""C01 — every live event is delivered exactly once, in time order with FIFO ties (structural clauses)."""

from __future__ import annotations

import ast

from .. import AnalysisError
from ..astutil import calls_in, norm_stmt, parse_expr, path_of, unparse, walk_scope, walk_stmts
from ..cfg import own_exprs
from ..facts import FactFlow, Fact, atoms, enumerate_paths
from ..report import Ctx
from .common import (
    NotTabulable, OrderEval, always_before, decision_table, enclosing_stmt, expand, increment_of, guard, holds_with_callers, local_aliases, need, node_of, single_defs, stmts_matching, xpath,
)

SIM = "happysimulator/core/simulation.py"
EV = "happysimulator/core/event.py"
HEAP = "happysimulator/core/event_heap.py"
TEMP = "happysimulator/core/temporal.py"
FUT = "happysimulator/core/sim_future.py"

EXPLANATION = (
    "Static rule checking of the engine core (event.py, event_heap.py, simulation.py, temporal.py, sim_future.py): "
    "G3 decision tables of the ordering dunders over all orderings of the compared quantities; G2 pairing of heap "
    "mutation with the primary-event counter; G1/G2 path rules over both pop-invoke-push loops (cancel/past/invoke "
    "trichotomy, monotone clock, clock==event time at delivery, produced events pushed, auto-termination test, "
    "horizon guard); provenance of tie-break indices (single counter domain)."
)
RULE_TEXT = (
    "Rule instances are enumerated from the anchored functions: one per ordering dunder, per heap mutation site, per "
    "loop (x2) and per feasible path through each loop body. An instance is non-trivial when its anchor construct exists "
    "and the obligation has something to decide; distinct = distinct (rule, construct) keys."
)
NOT_DECIDED = [
    "that user handlers themselves emit only non-past events (C07)",
    "heap correctness of the stdlib heapq",
    "numeric equality of clock and timestamp beyond 'the same value is written'",
]
ASSUMPTIONS = [
    "CPython heapq implements a binary min-heap using only __lt__",
    "handlers run atomically between suspension points (cooperative scheduling)",
]

LOOPS = [(SIM, "Simulation._run_loop"), (SIM, "Simulation._execute_until")]


def _cmp_expected(op: str, a, b) -> bool:
    return {"__lt__": a < b, "__le__": a <= b, "__gt__": a > b, "__ge__": a >= b, "__eq__": a == b, "__ne__": a != b}[op]


def rule_ordering_tables(ctx: Ctx) -> None:
    prog = ctx.prog
    # C01-1: Event.__lt__ is the lexicographic order on (time, _sort_index)
    ev_cls = prog.cls(EV, "Event")
    lt = prog.func(EV, "Event.__lt__")
    cases = []
    for (t1, t2) in ((0, 1), (1, 1), (1, 0)):
        for (i1, i2) in ((0, 1), (1, 1), (1, 0)):
            env = {"self.time": t1, "other.time": t2, "self._sort_index": i1, "other._sort_index": i2}
            cases.append((f"time{'<=>'[(t1 > t2) - (t1 < t2) + 1]} idx{'<=>'[(i1 > i2) - (i1 < i2) + 1]}", env, (t1, i1) < (t2, i2)))
    decision_table(ctx, "C01-1", lt, cases, "heap order key is lexicographic (time, creation index)")
    # no class in the Event hierarchy may re-define the order differently
    for sc in [ev_cls] + prog.subclasses(ev_cls):
        for dn in ("__lt__", "__le__", "__gt__", "__ge__"):
            m = sc.methods.get(dn)
            if m is None or m is lt:
                continue
            cs = []
            for (t1, t2) in ((0, 1), (1, 1), (1, 0)):
                for (i1, i2) in ((0, 1), (1, 1), (1, 0)):
                    env = {"self.time": t1, "other.time": t2, "self._sort_index": i1, "other._sort_index": i2}
                    cs.append((f"{t1}{t2}{i1}{i2}", env, _cmp_expected(dn, (t1, i1), (t2, i2))))
            decision_table(ctx, "C01-1", m, cs, f"{sc.name}.{dn} must agree with the lexicographic (time, index) order")
    ctx.floor("C01-1", 1)

    # C01-2: Instant / Duration comparison dunders are the integer order on nanoseconds; Infinity is a top element
    for cname in ("Instant", "Duration"):
        for dn in ("__lt__", "__le__", "__gt__", "__ge__", "__eq__"):
            fn = prog.func(TEMP, f"{cname}.{dn}")
            cs = []
            for (a, b) in ((0, 1), (1, 1), (1, 0)):
                env = {"self.nanoseconds": a, "other.nanoseconds": b, "other": {"__class__": (cname,)}}
                cs.append((f"ns {a} vs {b}", env, _cmp_expected(dn, a, b)))
            decision_table(ctx, "C01-2", fn, cs, f"{cname}.{dn} is the integer order on nanoseconds")
    inf_expect = {
        "__lt__": lambda other_inf: False,
        "__le__": lambda other_inf: other_inf,
        "__gt__": lambda other_inf: not other_inf,
        "__ge__": lambda other_inf: True,
        "__eq__": lambda other_inf: other_inf,
    }
    for dn, exp in inf_expect.items():
        fn = prog.func(TEMP, f"_InfiniteInstant.{dn}")
        cs = []
        for other_inf in (False, True):
            klass = ("_InfiniteInstant", "Instant") if other_inf else ("Instant",)
            env = {"other": {"__class__": klass}, "self.nanoseconds": 9, "other.nanoseconds": 9 if other_inf else 1}
            cs.append((f"other is {'Infinity' if other_inf else 'finite'}", env, exp(other_inf)))
        decision_table(ctx, "C01-2", fn, cs, f"_InfiniteInstant.{dn}: Infinity is the top element")
    ctx.floor("C01-2", 15)


def _heap_mutations(fn) -> list[tuple[ast.AST, str]]:
    """(node, kind) for every construct in ``fn`` that mutates ``self._heap``."""
    out = []
    for n in walk_scope(fn.node, include_root=False):
        if isinstance(n, ast.Call):
            f = n.func
            fname = path_of(f) or ""
            last = fname.split(".")[-1]
            if last in ("heappush", "heappop", "heapify", "heapreplace", "heappushpop") and n.args and path_of(n.args[0]) == "self._heap":
                out.append((n, last))
            elif isinstance(f, ast.Attribute) and path_of(f.value) == "self._heap" and f.attr in (
                    "append", "pop", "remove", "clear", "extend", "insert", "sort", "reverse"):
                out.append((n, "raw:" + f.attr))
        elif isinstance(n, (ast.Assign, ast.AugAssign, ast.Delete)):
            tg = n.targets if isinstance(n, (ast.Assign, ast.Delete)) else [n.target]
            for t in tg:
                base = t
                while isinstance(base, ast.Subscript):
                    base = base.value
                if path_of(base) == "self._heap":
                    out.append((n, "assign"))
    return out


def _foreign_heap_writes(fn) -> list[ast.AST]:
    """Store/Del/mutating uses of `<x>._heap` (x a heap object) or `<x>._primary_event_count` in ``fn``."""
    from ..effects import ARG0_MUTATORS, MUTATORS

    def is_heap_attr(e) -> bool:
        base = e
        while isinstance(base, ast.Subscript):
            base = base.value
        if not isinstance(base, ast.Attribute):
            return False
        if base.attr == "_primary_event_count":
            return True
        recv = path_of(base.value) or ""
        return base.attr == "_heap" and recv != "self" and "heap" in recv.split(".")[-1].lower()

    out = []
    for n in walk_scope(fn.node, include_root=False):
        if isinstance(n, (ast.Assign, ast.AugAssign, ast.AnnAssign, ast.Delete)):
            tg = n.targets if isinstance(n, (ast.Assign, ast.Delete)) else [n.target]
            for t in tg:
                for e in (t.elts if isinstance(t, (ast.Tuple, ast.List)) else [t]):
                    if is_heap_attr(e):
                        out.append(e)
        elif isinstance(n, ast.Call):
            f = n.func
            if isinstance(f, ast.Attribute) and f.attr in MUTATORS and is_heap_attr(f.value):
                out.append(f.value)
            last = (path_of(f) or "").split(".")[-1]
            if last in ARG0_MUTATORS and n.args and is_heap_attr(n.args[0]):
                out.append(n.args[0])
    return out


def rule_heap_pairing(ctx: Ctx) -> None:
    prog = ctx.prog
    heap_cls = prog.cls(HEAP, "EventHeap")
    n_push = n_pop = 0
    for fn in [f for f in heap_cls.module.all_functions if f.cls is heap_cls]:
        for node, kind in _heap_mutations(fn):
            if fn.name == "__init__":
                ok = kind in ("assign", "heapify")
                ctx.ob("C01-3", "G2", fn, node, ok, f"constructor may only assign/heapify the heap list (found {kind})")
                continue
            if kind == "heappush":
                n_push += 1
                pushed = node.args[1] if len(node.args) > 1 else None
                need(pushed is not None and path_of(pushed), f"C01-3: heappush without a plain pushed expression in {fn.key}")
                _pairing(ctx, fn, node, path_of(pushed), "+", "push")
            elif kind == "heappop":
                n_pop += 1
                # popped value must be bound to a name
                holder = None
                for st in walk_stmts(fn.node.body):
                    if isinstance(st, ast.Assign) and st.value is node and isinstance(st.targets[0], ast.Name):
                        holder = st.targets[0].id
                need(holder, f"C01-3: result of heappop not bound to a name in {fn.key}")
                _pairing(ctx, fn, node, holder, "-", "pop")
            else:
                ctx.ob("C01-3", "G2", fn, node, False,
                       f"EventHeap._heap mutated other than through heapq.heappush/heappop ({kind}) — heap invariant / primary count can break")
    need(n_push >= 1 and n_pop >= 1, "C01-3: EventHeap has no heappush/heappop site")
    # who-may-write: nobody outside EventHeap touches _heap of a heap object or the primary counter
    for fn in prog.all_functions("happysimulator/"):
        if fn.cls is heap_cls:
            continue
        for n in _foreign_heap_writes(fn):
            ctx.ob("C01-3", "G2", fn, n, False,
                   f"`{unparse(n)}` is written/mutated outside EventHeap (who-may-write rule): heap order or primary count can break")
    # has_primary_events ≡ count > 0 ; has_events ≡ bool(heap)
    hp = prog.func(HEAP, "EventHeap.has_primary_events")
    rets = [s for s in walk_stmts(hp.node.body) if isinstance(s, ast.Return)]
    need(len(rets) == 1 and rets[0].value is not None, "C01-3: has_primary_events has no single return")
    sigs = {f.sig for f in atoms(rets[0].value, True)}
    ok = sigs in ({("lt", "0", "self._primary_event_count")}, {("le", "1", "self._primary_event_count")},
                  {("ne", "0", "self._primary_event_count")})
    ctx.ob("C01-3", "G3", hp, rets[0], ok, "has_primary_events() must be `_primary_event_count > 0` — got " + unparse(rets[0].value))
    he = prog.func(HEAP, "EventHeap.has_events")
    rets = [s for s in walk_stmts(he.node.body) if isinstance(s, ast.Return)]
    need(len(rets) == 1 and rets[0].value is not None, "C01-3: has_events has no single return")
    sigs = {f.sig for f in atoms(rets[0].value, True)}
    ok = sigs == {("truthy", "self._heap", "")}
    ctx.ob("C01-3", "G3", he, rets[0], ok, "has_events() must be the non-emptiness of the heap list — got " + unparse(rets[0].value))
    ctx.floor("C01-3", 4)


def _pairing(ctx: Ctx, fn, mut_call: ast.Call, ev_path: str, sign: str, what: str) -> None:
    """Every feasible path through ``fn``: primary counter changes by exactly one iff the event is non-daemon,
    and the change happens on the same path as the heap mutation."""
    ff = ctx.flow(fn)
    op = ast.Add if sign == "+" else ast.Sub
    bad = []
    paths = enumerate_paths(ff, ff.cfg.entry)
    npaths = 0
    for p in paths:
        if p.end == "raise":
            continue
        muts = sum(1 for n in p.nodes if any(x is mut_call for e in own_exprs(n) for x in ast.walk(e)))
        if muts == 0:
            continue
        npaths += 1
        incs = 0
        for n in p.nodes:
            a = n.ast
            if n.kind == "stmt":
                k = increment_of(a, "self._primary_event_count")
                if k is not None:
                    incs += 1 if k == (1 if sign == "+" else -1) else 99
        daemon_t = p.has_fact(("truthy", f"{ev_path}.daemon", ""))
        daemon_f = p.has_fact(("falsy", f"{ev_path}.daemon", ""))
        want = 0 if daemon_t else (1 if daemon_f else None)
        if want is None:
            bad.append(f"path [{p.describe()}] changes the heap without testing {ev_path}.daemon")
        elif incs != want * muts:
            bad.append(f"path [{p.describe()}]: {muts} heap {what}(es) but primary count {sign}= applied {incs} time(s), expected {want * muts}")
    need(npaths > 0, f"C01-3: no path through {fn.key} reaches the heap {what}")
    ctx.ob("C01-3", "G2", fn, mut_call, not bad,
           f"heap {what} ↔ primary-event count pairing over {npaths} path(s): " + ("consistent" if not bad else "; ".join(bad[:4])))


# ------------------------------------------------------------------------------------------------
# the two loops
# ------------------------------------------------------------------------------------------------


class LoopInfo:
    def __init__(self, ctx: Ctx, fn):
        self.ctx = ctx
        self.fn = fn
        self.al = local_aliases(fn)
        self.ff: FactFlow = ctx.flow(fn)
        cfg = self.ff.cfg
        # the main loop: the `while` whose body contains the pop
        pops = []
        for st in walk_stmts(fn.node.body):
            if isinstance(st, ast.Assign) and isinstance(st.value, ast.Call) and len(st.targets) == 1 and isinstance(st.targets[0], ast.Name):
                if xpath(st.value.func, self.al) == "self._event_heap.pop":
                    pops.append(st)
        need(len(pops) == 1, f"{fn.key}: expected exactly one `E = <heap>.pop()` site, found {len(pops)}")
        self.pop_stmt = pops[0]
        self.ev = pops[0].targets[0].id
        self.pop_node = node_of(cfg, self.pop_stmt)
        invs = [c for c in calls_in(fn.node) if isinstance(c.func, ast.Attribute) and c.func.attr == "invoke"
                and path_of(c.func.value) == self.ev]
        need(len(invs) == 1, f"{fn.key}: expected exactly one `{self.ev}.invoke()` site, found {len(invs)}")
        self.invoke_call = invs[0]
        self.invoke_node = node_of(cfg, self.invoke_call)
        self.result = None
        a = self.invoke_node.ast
        if isinstance(a, ast.Assign) and isinstance(a.targets[0], ast.Name):
            self.result = a.targets[0].id
        need(self.result, f"{fn.key}: result of invoke() is not bound to a name")
        need(self.pop_node.in_loops, f"{fn.key}: pop is not inside a loop")
        self.loop_id = self.pop_node.in_loops[-1]
        self.loop_head = cfg.nodes[self.loop_id]
        self.while_stmt = self.loop_head.ast
        need(isinstance(self.while_stmt, ast.While), f"{fn.key}: main loop is not a while loop")
        # current-time carrier: self._current_time, or the local written back to it
        self.carrier = "self._current_time"
        for st in walk_stmts(fn.node.body):
            if isinstance(st, ast.Assign) and path_of(st.targets[0]) == "self._current_time" and isinstance(st.value, ast.Name):
                if node_of(cfg, st).in_loops == ():
                    self.carrier = st.value.id
        self.cancel_carrier = "self._events_cancelled"
        self.processed_carrier = "self._events_processed"
        for st in walk_stmts(fn.node.body):
            if isinstance(st, ast.Assign) and isinstance(st.value, ast.Name) and node_of(cfg, st).in_loops == ():
                if path_of(st.targets[0]) == "self._events_cancelled":
                    self.cancel_carrier = st.value.id
                if path_of(st.targets[0]) == "self._events_processed":
                    self.processed_carrier = st.value.id

    def is_loop_head(self, n) -> bool:
        return n.id == self.loop_id


def _callee_writes_time(ctx: Ctx, fn, call: ast.Call) -> tuple[object, ast.stmt, str] | None:
    """If ``call`` is `self.<helper>(E)` whose body assigns self._current_time from its parameter's time,
    return (callee, assignment stmt, param name)."""
    if not (isinstance(call.func, ast.Attribute) and path_of(call.func.value) == "self"):
        return None
    for cal in ctx.prog.resolve_call(fn, call):
        for st in walk_stmts(cal.node.body):
            if isinstance(st, ast.Assign) and any(path_of(t) == "self._current_time" for t in st.targets):
                return cal, st, path_of(st.value) or unparse(st.value)
    return None


def rule_loops(ctx: Ctx) -> None:
    prog = ctx.prog
    for rel, q in LOOPS:
        fn = prog.func(rel, q)
        L = LoopInfo(ctx, fn)
        ff, cfg, ev = L.ff, L.ff.cfg, L.ev

        # ---- C01-4a: not cancelled at delivery
        ok = ff.holds_at(L.invoke_node, Fact("falsy", f"{ev}.cancelled")) or ff.holds_at(L.invoke_node, Fact("falsy", f"{ev}._cancelled"))
        ctx.ob("C01-4", "G1", fn, L.invoke_call, ok,
               f"`{ev}.invoke()` must be dominated by `not {ev}.cancelled` (a cancelled event is never delivered); facts: {ff.describe(L.invoke_node)}")

        # ---- C01-4b: every write of the current-time carrier inside the loop is monotone and takes the event's time
        writes = []
        for n in cfg.nodes:
            if n.kind != "stmt" or L.loop_id not in n.in_loops:
                continue
            a = n.ast
            if isinstance(a, ast.Assign) and any(path_of(t) == L.carrier for t in a.targets):
                writes.append((n, fn, a, a.value, ev))
            elif isinstance(a, (ast.Expr, ast.Assign)):
                for c in calls_in(a):
                    r = _callee_writes_time(ctx, fn, c)
                    if r is not None:
                        cal, st, vtxt = r
                        writes.append((n, cal, st, st.value, None))
        need(len(writes) >= 1, f"{fn.key}: no write of the current time inside the loop")
        for n, wfn, wst, val, evname in writes:
            vtxt = path_of(val) or unparse(val)
            if wfn is fn:
                want = parse_expr(f"not ({vtxt} < {L.carrier})")
                ok, why = holds_with_callers(ctx, fn, wst, [want], depth=0)
                src_ok = ff.same_value(n, vtxt, f"{ev}.time") or vtxt == f"{ev}.time"
            else:
                want = parse_expr(f"not ({vtxt} < self._current_time)")
                ok, why = holds_with_callers(ctx, wfn, wst, [want], depth=1)
                # the helper's parameter must be bound to the popped event at the call site
                src_ok = False
                for c in calls_in(n.ast):
                    if any(cal is wfn for cal in prog.resolve_call(fn, c)):
                        params = [p for p in wfn.params() if p != "self"]
                        for p_, a_ in zip(params, c.args):
                            if vtxt == f"{p_}.time" and path_of(a_) == ev:
                                src_ok = True
            ctx.ob("C01-4", "G6", wfn, wst, ok,
                   f"clock is monotone: `{norm_stmt(wst)}` must be dominated by `not ({vtxt} < current time)` — " + ("holds: " if ok else "FAILS: ") + why)
            ctx.ob("C01-4", "G7", wfn, norm_stmt(wst) + " [source]", src_ok,
                   f"the value written to the current time must be the popped event's timestamp ({ev}.time); got `{vtxt}`", node=wst)

        # ---- C01-4c: the shared Clock is updated to the carrier's value between the time write and invoke()
        def is_time_write(n) -> bool:
            return any(n is w[0] for w in writes)

        def is_clock_update(n) -> bool:
            for e in own_exprs(n):
                for c in [x for x in walk_scope(e) if isinstance(x, ast.Call)]:
                    p = xpath(c.func, L.al)
                    if p == "self._clock.update" and len(c.args) == 1:
                        argp = path_of(c.args[0]) or ""
                        if argp == L.carrier or ff.same_value(n, argp, L.carrier) or ff.same_value(n, argp, f"{ev}.time"):
                            return True
                    # helper that does both
                    r = _callee_writes_time(ctx, fn, c)
                    if r is not None:
                        cal, st, _ = r
                        cff = ctx.flow(cal)
                        for c2 in calls_in(cal.node):
                            if path_of(c2.func) == "self._clock.update" and len(c2.args) == 1:
                                n2 = node_of(cff.cfg, c2)
                                argp = path_of(c2.args[0]) or ""
                                after = not always_before(ctx, cal, lambda m: m.ast is st, lambda m: m is n2)
                                if after and (argp == "self._current_time" or cff.same_value(n2, argp, "self._current_time")):
                                    return True
            return False

        bad = always_before(ctx, fn, is_clock_update, lambda n: n is L.invoke_node)
        ctx.ob("C01-4", "G2", fn, norm_stmt(L.invoke_node.ast) + " [clock]", not bad,
               "at each delivery the shared Clock has been set to the delivered event's timestamp "
               "(clock.update(<current time>) on every path from pop to invoke)", node=L.invoke_call)
        # no write of the carrier between clock update and invoke other than the one we matched: the clock
        # update must come after the (last) time write
        bad2 = [n for n in cfg.nodes if is_clock_update(n) and not is_time_write(n)
                and always_before(ctx, fn, is_time_write, lambda m, n=n: m is n)]
        ctx.ob("C01-4", "G2", fn, "clock.update follows the current-time write", not bad2,
               "clock.update(...) must be preceded on every path by the write that advances the current time", node=L.invoke_call)

        # ---- C01-5: per popped event exactly one of {cancelled-counted, discarded-as-past, invoked}; results pushed
        _rule_trichotomy(ctx, L)

        # ---- C01-7: horizon guard
        _rule_horizon(ctx, L)

    ctx.floor("C01-4", 8)
    ctx.floor("C01-5", 2)
    ctx.floor("C01-7", 2)


def _is_push_of(ctx: Ctx, L: LoopInfo, n, result: str) -> bool:
    for e in own_exprs(n):
        for c in [x for x in walk_scope(e) if isinstance(x, ast.Call)]:
            p = xpath(c.func, L.al)
            args = [path_of(a) for a in c.args]
            if p == "self._event_heap.push" and result in args:
                return True
            if isinstance(c.func, ast.Attribute) and path_of(c.func.value) == "self" and result in args:
                for cal in ctx.prog.resolve_call(L.fn, c):
                    params = [q for q in cal.params() if q != "self"]
                    if len(params) != len(c.args):
                        continue
                    pname = params[args.index(result)]
                    # helper must push its parameter unconditionally
                    cff = ctx.flow(cal)
                    cnt = 0
                    for pth in enumerate_paths(cff, cff.cfg.entry):
                        if pth.end in ("raise", "back"):
                            continue
                        pushed = any(
                            isinstance(x, ast.Call) and path_of(x.func) == "self._event_heap.push" and [path_of(a) for a in x.args] == [pname]
                            for m in pth.nodes for ee in own_exprs(m) for x in walk_scope(ee))
                        if not pushed:
                            return False
                        cnt += 1
                    return cnt > 0
    return False


def _rule_trichotomy(ctx: Ctx, L: LoopInfo) -> None:
    fn, ff, ev, res = L.fn, L.ff, L.ev, L.result
    paths = enumerate_paths(ff, L.pop_node, stop=L.is_loop_head)
    need(paths, f"{fn.key}: no path from pop")
    bad = []
    kinds = {"cancelled": 0, "past": 0, "delivered": 0}
    for p in paths:
        if p.end == "raise":
            continue
        inv = sum(1 for n in p.nodes if n is L.invoke_node)
        def steps(carrier: str) -> int:
            tot = 0
            for n in p.nodes:
                if n.kind == "stmt":
                    k = increment_of(n.ast, carrier)
                    if k == "other":
                        tot += 99
                    elif k is not None:
                        tot += k
            return tot

        canc_inc = steps(L.cancel_carrier)
        proc_inc = steps(L.processed_carrier)
        # processed counter may be incremented inside the time-advance helper
        for n in p.nodes:
            if n.kind == "stmt":
                for c in calls_in(n.ast):
                    r = _callee_writes_time(ctx, fn, c)
                    if r is not None:
                        for st in walk_stmts(r[0].node.body):
                            k = increment_of(st, "self._events_processed")
                            if k is not None:
                                proc_inc += 99 if k == "other" else k
        cancelled = p.has_fact(("truthy", f"{ev}.cancelled", "")) or p.has_fact(("truthy", f"{ev}._cancelled", ""))
        # "past" = a test comparing the event's time below the carrier took its true edge
        past = False
        for n, pol in p.took(lambda n: True):
            for f in atoms(n.ast, pol):
                if f.op == "lt" and f.b == L.carrier and (f.a == f"{ev}.time" or ff.same_value(n, f.a, f"{ev}.time")):
                    past = True
        desc = p.describe()
        if cancelled:
            kinds["cancelled"] += 1
            if inv or canc_inc != 1:
                bad.append(f"cancelled path [{desc}]: invoke x{inv}, cancelled-counter += x{canc_inc} (want 0 / 1)")
        elif past:
            kinds["past"] += 1
            if inv:
                bad.append(f"past-event path [{desc}] still invokes the event")
        else:
            kinds["delivered"] += 1
            paused = p.end == "exit" and not inv  # a pause/return before delivery is checked by C04
            if paused:
                bad.append(f"path [{desc}] pops an event and returns without delivering, counting or discarding it")
                continue
            if inv != 1:
                bad.append(f"live path [{desc}] invokes the event {inv} time(s)")
                continue
            if proc_inc != 1:
                bad.append(f"live path [{desc}] increments the processed counter {proc_inc} time(s)")
            if canc_inc:
                bad.append(f"live path [{desc}] counts the event as cancelled")
            # produced events must be pushed unless known empty
            idx = p.nodes.index(L.invoke_node)
            pushed = any(_is_push_of(ctx, L, n, res) for n in p.nodes[idx + 1:])
            empty = p.has_fact(("falsy", res, ""))
            if not pushed and not empty:
                bad.append(f"live path [{desc}] neither pushes `{res}` nor establishes that it is empty — produced events are lost")
            if pushed and sum(1 for n in p.nodes[idx + 1:] if _is_push_of(ctx, L, n, res)) > 1:
                bad.append(f"live path [{desc}] pushes `{res}` more than once — duplicated delivery")
    need(kinds["cancelled"] and kinds["past"] and kinds["delivered"],
         f"{fn.key}: loop body lacks one of the cancelled / past / delivered branches: {kinds}")
    ctx.ob("C01-5", "G2", fn, L.pop_stmt, not bad,
           f"each popped event is exactly one of cancelled-and-counted / discarded-as-past / delivered-once-with-results-pushed "
           f"({len(paths)} feasible paths: {kinds}) — " + ("ok" if not bad else "; ".join(bad[:4])))
    ctx.stats["loop_paths_enumerated"] = ctx.stats.get("loop_paths_enumerated", 0) + len(paths)


def _rule_horizon(ctx: Ctx, L: LoopInfo, rule: str = "C01-7") -> None:
    """C01-7: no event beyond the horizon is delivered.  Accepts either a test of the heap head before pop or
    a test of the popped event before invoke, against the loop's horizon (end_time / end_time_ns)."""
    fn, ff, ev = L.fn, L.ff, L.ev
    horizons = set()
    for p in fn.params():
        if p != "self":
            horizons |= {p, f"{p}.nanoseconds"}
    horizons |= {"self._end_time", "self._end_time.nanoseconds"}
    for k, v in L.al.items():
        if path_of(v) in horizons:
            horizons |= {k, f"{k}.nanoseconds"}

    def subject_ok(txt: str, node) -> bool:
        txt = txt.replace(" ", "")
        for cand in (f"{ev}.time", f"{ev}.time.nanoseconds"):
            if txt == cand:
                return True
        base = txt[:-len(".nanoseconds")] if txt.endswith(".nanoseconds") else txt
        if ff.same_value(node, base, f"{ev}.time"):
            return True
        # head of the heap
        for head in ("self._event_heap.peek().time", "self._event_heap._heap[0].time"):
            t2 = txt
            for k, v in L.al.items():
                vp = path_of(v)
                if vp and (t2 == k or t2.startswith(k + ".") or t2.startswith(k + "(")):
                    t2 = vp + t2[len(k):]
            if t2 in (head, head + ".nanoseconds"):
                return True
        return False

    def horizon_fact(node) -> bool:
        for (op, a, b) in ff.facts_at(node):
            if op in ("le", "lt") and b in horizons and subject_ok(a, node):
                return True
        return False

    at_invoke = horizon_fact(L.invoke_node)
    at_pop = False
    for (op, a, b) in ff.facts_at(L.pop_node):
        if op in ("le", "lt") and b in horizons and subject_ok(a, L.pop_node) and "peek" in a or (op in ("le", "lt") and b in horizons and "_heap[0]" in a):
            at_pop = True
    ok = at_invoke or at_pop
    ctx.ob(rule, "G1", fn, norm_stmt(L.invoke_node.ast) + " [horizon]", ok,
           f"`{ev}.invoke()` must be dominated by a comparison of *that event's* time (or the heap head before pop) with the "
           f"horizon {sorted(horizons)[:4]}… whose failing edge does not reach invoke; "
           + ("holds" if ok else f"FAILS — the loop condition `{unparse(L.while_stmt.test)}` tests the previously processed time, so one "
              f"event beyond the horizon is delivered; facts at invoke: {ff.describe(L.invoke_node)}"), node=L.invoke_call)


def rule_autoterminate(ctx: Ctx) -> None:
    prog = ctx.prog
    fn = prog.func(SIM, "Simulation._run_loop")
    L = LoopInfo(ctx, fn)
    ff = L.ff
    # auto_terminate must be defined as end_time == Instant.Infinity
    defs = [st for st in walk_stmts(fn.node.body) if isinstance(st, ast.Assign) and path_of(st.targets[0]) == "auto_terminate"]
    need(len(defs) == 1, "C01-6: `auto_terminate` definition not found in _run_loop")
    sig = {f.sig for f in atoms(expand(defs[0].value, L.al), True)}
    ok = sig in ({("eq", "Instant.Infinity", "self._end_time")}, {("is", "self._end_time", "Instant.Infinity")})
    ctx.ob("C01-6", "G3", fn, defs[0], ok, "auto-termination mode ⇔ end_time is Instant.Infinity; got " + unparse(defs[0].value))
    # on every path from loop head to pop, has_primary_events() is consulted; when auto_terminate ∧ ¬has_primary → no pop
    def is_primary_test(n) -> bool:
        return n.kind == "test" and any(isinstance(c, ast.Call) and xpath(c.func, L.al) == "self._event_heap.has_primary_events"
                                        for c in walk_scope(n.ast))
    paths = enumerate_paths(ff, L.loop_head, stop=lambda n: n is L.pop_node)
    bad = []
    seen_break = False
    for p in paths:
        reaches_pop = p.end == "stop" and p.nodes[-1] is L.pop_node
        tests = p.took(is_primary_test)
        auto_t = p.has_fact(("truthy", "auto_terminate", ""))
        auto_f = p.has_fact(("falsy", "auto_terminate", ""))
        if reaches_pop and not auto_f:
            # in auto mode (or unknown) a pop needs has_primary_events() == True on this path
            if not any(pol for _, pol in tests) and not any(
                    f[0] == "truthy" and "has_primary_events" in f[1] for f in p.facts):
                bad.append(f"path [{p.describe()}] reaches pop in auto-terminate mode without has_primary_events() being true")
        if not reaches_pop and auto_t and any(not pol for _, pol in tests):
            seen_break = True
    need(paths, "C01-6: no path from loop head to pop")
    if not seen_break:
        bad.append("no path leaves the loop on `auto_terminate and not has_primary_events()`")
    ctx.ob("C01-6", "G1", fn, "auto-termination test dominates pop", not bad,
           "with no end_time the run stops exactly when no non-daemon event is pending (test evaluated every iteration before pop) — "
           + ("ok" if not bad else "; ".join(bad[:3])), node=L.pop_stmt)
    # the fast path (which has no such test) may only be entered when not auto_terminate
    fast_calls = [c for c in calls_in(fn.node) if isinstance(c.func, ast.Attribute) and c.func.attr == "_run_loop_fast"]
    for c in fast_calls:
        n = node_of(ff.cfg, c)
        ok = ff.holds_at(n, Fact("falsy", "auto_terminate"))
        ctx.ob("C01-6", "G1", fn, c, ok, "the fast loop has no auto-termination test, so it may only run with an explicit end_time "
               "(`not auto_terminate` must dominate the call)")
    # _execute_until callers outside the fast path (windows) – horizon always explicit there (param), nothing to check
    ctx.floor("C01-6", 3)


def rule_sort_index(ctx: Ctx) -> None:
    """C01-9 constructor siblings, C01-8 single tie-break domain."""
    prog = ctx.prog
    ev_cls = prog.cls(EV, "Event")
    nsi = prog.func(EV, "_next_sort_index")
    n = 0
    for c in [ev_cls] + prog.subclasses(ev_cls):
        init = c.methods.get("__init__")
        if init is None:
            continue
        sets = [st for st in walk_stmts(init.node.body) if isinstance(st, ast.Assign) and any(path_of(t) == "self._sort_index" for t in st.targets)]
        calls_super = any(isinstance(x, ast.Call) and isinstance(x.func, ast.Attribute) and x.func.attr == "__init__"
                          and isinstance(x.func.value, ast.Call) and path_of(x.func.value.func) == "super" for x in walk_scope(init.node))
        if not sets and calls_super:
            continue
        ok = len(sets) == 1 and isinstance(sets[0].value, ast.Call) and path_of(sets[0].value.func) == "_next_sort_index" \
            and not sets[0].value.args
        ctx.ob("C01-9", "G4", init, sets[0] if sets else None, ok,
               f"{c.name}.__init__ must take `_sort_index` from `_next_sort_index()` exactly once (constructor siblings share one "
               "creation-order domain)")
        n += 1
    # _sort_index written nowhere else in the package
    for fn in prog.all_functions("happysimulator/"):
        if fn.name == "__init__" and fn.cls is not None and (fn.cls is ev_cls or ev_cls in prog.mro(fn.cls)):
            continue
        for st in walk_stmts(fn.node.body):
            if isinstance(st, (ast.Assign, ast.AugAssign)):
                tg = st.targets if isinstance(st, ast.Assign) else [st.target]
                for t in tg:
                    if isinstance(t, ast.Attribute) and t.attr == "_sort_index":
                        ctx.ob("C01-9", "G6", fn, st, False, "`_sort_index` re-written outside an Event constructor: creation order is no longer the tie-break")
    ctx.floor("C01-9", 2)

    # ---- C01-8 -----------------------------------------------------------------------------
    # _next_sort_index draws from the active counter if set, else from the global one.  Every counter that can be
    # installed as the active one must continue the sequence of indices already issued to events of that heap.
    # Structural necessary condition: the value passed to `_active_counter_var.set(<non-None>)` is never a counter
    # created by a bare `count()` (restart at 0) unless the install site first raises it above the indices issued so far.
    sets = []
    for fn in prog.all_functions("happysimulator/core/") + prog.all_functions("happysimulator/parallel/"):
        for c in calls_in(fn.node):
            if isinstance(c.func, ast.Attribute) and c.func.attr == "set" and path_of(c.func.value) == "_active_counter_var":
                if c.args and not (isinstance(c.args[0], ast.Constant) and c.args[0].value is None):
                    sets.append((fn, c))
    need(sets, "C01-8: no site installs the active tie-break counter")
    for fn, c in sets:
        ok, why = _counter_continues(ctx, fn, c)
        ctx.ob("C01-8", "G7", fn, c, ok,
               "single tie-break domain: a counter installed as the active index source must continue after every index already "
               "issued to events of that heap (pre-run events draw from the module counter) — " + why)
    ctx.floor("C01-8", 1)


def rule_context_exit_and_clock(ctx: Ctx) -> None:
    prog = ctx.prog
    # C01-8b: leaving the run context advances the global counter from the active counter *before* the context is cleared
    n = 0
    for fn in prog.all_functions("happysimulator/core/"):
        clears = [c for c in calls_in(fn.node) if isinstance(c.func, ast.Attribute) and c.func.attr == "set" and path_of(c.func.value) == "_active_counter_var"
                  and c.args and isinstance(c.args[0], ast.Constant) and c.args[0].value is None]
        if not clears:
            continue
        n += 1
        ff = ctx.flow(fn)
        cn = node_of(ff.cfg, clears[0])
        reads = [x for x in ff.cfg.nodes if x.kind == "stmt" and isinstance(x.ast, ast.Assign) and isinstance(x.ast.value, ast.Call) and path_of(x.ast.value.func) == "_active_counter_var.get"]
        adv = [c for c in calls_in(fn.node) if path_of(c.func) == "_advance_global_event_counter"]
        ok = len(reads) == 1 and len(adv) == 1
        why = ""
        if ok:
            holder = path_of(reads[0].ast.targets[0])
            an = node_of(ff.cfg, adv[0])
            ok = not always_before(ctx, fn, lambda x: x is reads[0], lambda x: x is cn) and not always_before(ctx, fn, lambda x: x is reads[0], lambda x: x is an) \
                and holder in unparse(adv[0].args[0]) and ("__next__" in unparse(adv[0].args[0]) or "next(" in unparse(adv[0].args[0]))
            # the advance may only be skipped when no counter was active
            facts = ff.facts_at(an)
            ok = ok and any(op == "isnot" and a == holder and b == "None" for (op, a, b) in facts)
            # and the read must see the still-installed counter: no clearing of the var before the read
            ok = ok and bool(always_before(ctx, fn, lambda x: x is cn, lambda x: x is reads[0]))
        ctx.ob("C01-8", "G2", fn, clears[0], ok,
               "when the run context is left, the global counter is advanced past the active counter's next index, read before the context variable is cleared — "
               "events created while paused then sort after everything created during the run")
    need(n >= 1, "C01-8: no site clears the active counter")
    # C01-4: Clock.update is total — the loop's clock.update(t) must always take effect
    cu = prog.func("happysimulator/core/clock.py", "Clock.update")
    tp = [p for p in cu.params() if p != "self"][0]
    ff = ctx.flow(cu)
    bad = []
    for p in enumerate_paths(ff, ff.cfg.entry):
        if p.end != "exit":
            continue
        ws = [x.ast for x in p.nodes if x.kind == "stmt" and isinstance(x.ast, ast.Assign) and path_of(x.ast.targets[0]) == "self._current_time"]
        if len(ws) != 1 or path_of(ws[0].value) != tp:
            bad.append(p.describe())
    ctx.ob("C01-4", "G6", cu, "Clock.update is total", not bad,
           "Clock.update(t) sets the clock to t on every path (the engine, not the clock, enforces monotonicity; reset() rewinds through the same setter), so at each delivery "
           "the clock equals the delivered event's timestamp" + ("" if not bad else f" — path [{bad[0]}] does not assign"))
    nw = prog.func("happysimulator/core/clock.py", "Clock.now")
    rets = [s_ for s_ in walk_stmts(nw.node.body) if isinstance(s_, ast.Return)]
    ctx.ob("C01-4", "G7", nw, rets[0] if rets else None, len(rets) == 1 and path_of(rets[0].value) == "self._current_time", "Clock.now returns what update() stored")


def _counter_continues(ctx: Ctx, fn, set_call: ast.Call) -> tuple[bool, str]:
    """Does the install site guarantee continuity?  Required chain (each link checked on the source):
    (1) on every path to the install, a ``count(<start>)`` re-basing has been evaluated — at the site or in a resolved
        callee (e.g. a method of EventHeap) — and its result is what gets installed;
    (2) ``<start>`` mentions previously issued indices: ``_sort_index`` directly, or an EventHeap attribute F;
    (3) every EventHeap function that heappushes also raises F from the pushed event's ``_sort_index``.
    A bare ``count()`` installed as-is fails (restart at 0)."""
    prog = ctx.prog
    heap_cls = prog.cls(HEAP, "EventHeap")
    ff = ctx.flow(fn)
    set_node = node_of(ff.cfg, set_call)
    installed = path_of(set_call.args[0])

    def is_count(c: ast.Call) -> bool:
        return path_of(c.func) in ("count", "itertools.count")

    def start_of(c: ast.Call):
        if c.args:
            return c.args[0]
        for k in c.keywords:
            if k.arg == "start":
                return k.value
        return None

    rebasing_nodes = []  # CFG nodes of fn that evaluate a based count() whose value reaches `installed`
    starts = []
    for n in ff.cfg.nodes:
        if n.kind != "stmt" or not isinstance(n.ast, ast.Assign) or path_of(n.ast.targets[0]) != installed:
            continue
        v = n.ast.value
        if isinstance(v, ast.Call) and is_count(v) and start_of(v) is not None:
            rebasing_nodes.append(n)
            starts.append((fn, start_of(v)))
        elif isinstance(v, ast.Call):
            for cal in prog.resolve_call(fn, v):
                rets = [s_ for s_ in walk_stmts(cal.node.body) if isinstance(s_, ast.Return) and s_.value is not None]
                for c2 in calls_in(cal.node):
                    if is_count(c2) and start_of(c2) is not None:
                        # the callee must return the re-based counter
                        holder = None
                        for s_ in walk_stmts(cal.node.body):
                            if isinstance(s_, ast.Assign) and s_.value is c2:
                                holder = path_of(s_.targets[0])
                        if any(r.value is c2 or (holder and path_of(r.value) == holder) for r in rets):
                            rebasing_nodes.append(n)
                            starts.append((cal, start_of(c2)))
    if not rebasing_nodes:
        return False, (f"FAILS: `{unparse(set_call.args[0])}` is installed as-is; the per-heap counter is created by a bare `count()` and "
                       "restarts at 0 while pre-run events already hold indices 0..k from the module counter, so a run-time event can sort "
                       "before earlier-created events with the same timestamp")
    missing = always_before(ctx, fn, lambda m: any(m is r for r in rebasing_nodes), lambda m: m is set_node)
    if missing:
        return False, "FAILS: the re-basing `count(start)` is not evaluated on every path that installs the counter"
    # (2) + (3)
    for owner, start in starts:
        start = expand(start, single_defs(owner))
        txt = unparse(start)
        if "_sort_index" in txt:
            continue
        attrs = sorted({n.attr for n in ast.walk(start) if isinstance(n, ast.Attribute) and path_of(n.value) == "self"
                        and n.attr not in ("_event_counter",)})
        floor_attrs = []
        for a in attrs:
            ok_all = True
            pushers = [f for f in heap_cls.module.all_functions if f.cls is heap_cls and f.name != "__init__"
                       and any(k == "heappush" for _, k in _heap_mutations(f))]
            for f in pushers:
                raised = False
                for st in walk_stmts(f.node.body):
                    if isinstance(st, (ast.Assign, ast.AugAssign)) and path_of(st.targets[0] if isinstance(st, ast.Assign) else st.target) == f"self.{a}":
                        if "_sort_index" in unparse(st.value):
                            raised = True
                if not raised:
                    ok_all = False
            if ok_all and pushers:
                floor_attrs.append(a)
        if not floor_attrs:
            return False, (f"FAILS: start `{txt}` of the re-based counter does not derive from the creation indices of the events the heap "
                           "holds (no EventHeap attribute maintained from `_sort_index` on every push)")
        # the start must be at least that floor: max(..., floor) or the floor itself (+k)
        own_next = isinstance(start, ast.Call) and path_of(start.func) == "max" and any(
            "_event_counter" in unparse(a) and ("__next__" in unparse(a) or "next(" in unparse(a)) for a in start.args) and any(
            path_of(a) == f"self.{floor_attrs[0]}" for a in start.args)
        if not own_next:
            return False, (f"FAILS: start `{txt}` is not max(<the counter's own next index>, <heap index floor>): events created but not yet pushed "
                           "hold indices at or above the floor, so restarting at the floor re-issues them")
    return True, "holds: counter re-based above every index seen by the heap: " + "; ".join(unparse(s_) for _, s_ in starts)


def rule_inheritance_horizon_floor(ctx: Ctx) -> None:
    """Second-round rules: a continuation inherits its event's identity; the horizon is measured from the start time; the index floor
    ends above every index the heap has seen."""
    prog = ctx.prog
    # (a) every ProcessContinuation built in core/event.py carries over the same identity fields from the event it continues
    carry = {"event_type": "self.event_type", "daemon": "self.daemon", "target": "self.target", "on_complete": "self.on_complete", "context": "self.context"}
    n = 0
    for fn in prog.module(EV).all_functions:
        for c in calls_in(fn.node):
            if path_of(c.func) == "ProcessContinuation":
                n += 1
                kw = {k.arg: unparse(k.value) for k in c.keywords}
                miss = sorted(k for k, v in carry.items() if kw.get(k) != v)
                ctx.ob("C01-10", "G4", fn, c, not miss and "process" in kw and "time" in kw,
                       f"{fn.qual}: a continuation inherits event_type, daemon, target, completion hooks and context from the event it continues (a dropped `daemon` turns background work into primary work and the run no longer ends)"
                       + ("" if not miss else f" — not carried over: {miss}"))
    need(n >= 2, f"C01-10: expected >= 2 ProcessContinuation construction sites in core/event.py, found {n}")
    # (b) a duration is measured from the start time
    init = prog.func(SIM, "Simulation.__init__")
    adds = [x for x in walk_scope(init.node) if isinstance(x, ast.BinOp) and isinstance(x.op, ast.Add) and "duration" in (path_of(x.left), path_of(x.right))]
    need(adds, "C01-10: Simulation.__init__ no longer adds the duration to anything")
    ff = ctx.flow(init)
    for x in adds:
        base = path_of(x.right if path_of(x.left) == "duration" else x.left)
        okb = base == "self._start_time"
        if okb:
            # and the start time has been defaulted before it is used
            st = enclosing_stmt(init, x)
            defaults = [s2 for s2 in walk_stmts(init.node.body) if isinstance(s2, ast.Assign) and path_of(s2.targets[0]) == "self._start_time"]
            okb = bool(defaults) and not always_before(ctx, init, lambda nd: any(nd.ast is d for d in defaults), lambda nd: nd.ast is st)
        ctx.ob("C01-10", "G7", init, x, okb, "the horizon given as a duration is start_time + duration (measured from the run's own start, not from the epoch)")
    ends = [s2 for s2 in walk_stmts(init.node.body) if isinstance(s2, ast.Assign) and path_of(s2.targets[0]) == "self._end_time"]
    allowed = {"self._start_time + duration", "end_time", "Instant.Infinity"}
    for s2 in ends:
        ctx.ob("C01-10", "G7", init, s2, unparse(s2.value) in allowed, f"the horizon is one of start+duration / the given end_time / infinity (found `{unparse(s2.value)}`)")
    # (c) index floor: after a push the floor lies above the pushed index, for every ordering of (index, floor)
    ps = prog.func(HEAP, "EventHeap._push_single")
    bad = []
    for idx, floor in ((0, 1), (1, 1), (2, 1), (5, 0), (0, 0)):
        env = {"self._index_floor": floor, "event._sort_index": idx, "event": {"_sort_index": idx, "daemon": True, "event_type": "x", "time": 0, "context": {}},
               "self._primary_event_count": 0, "self._tracing_enabled": False, "self._heap": ()}
        ev = OrderEval(env, calls={"heapq.heappush": lambda e, c: None, "logger.isEnabledFor": lambda e, c: False, "logger.debug": lambda e, c: None})
        try:
            ev.run(ps.node)
        except NotTabulable as exc:
            raise AnalysisError(f"C01-10: EventHeap._push_single is not tabulable ({exc})") from exc
        got = ev.env["self._index_floor"]
        if got != max(floor, idx + 1):
            bad.append(f"index={idx} floor={floor} -> floor {got} (want {max(floor, idx + 1)})")
    ctx.ob("C01-10", "G3", ps, "floor = max(floor, index + 1)", not bad, "after every push the heap's index floor lies strictly above the pushed event's creation index (so the run-time counter never re-issues an index)"
           + ("" if not bad else " — " + "; ".join(bad[:3])))
    # the same for every site that maintains the floor (constructor loop included): written only as `index + 1`, under `index >= floor`
    heap = prog.cls(HEAP, "EventHeap")
    nfl = 0
    for m in heap.methods.values():
        mf = ctx.flow(m)
        for s2 in walk_stmts(m.node.body):
            if isinstance(s2, ast.Assign) and path_of(s2.targets[0]) == "self._index_floor" and not (isinstance(s2.value, ast.Constant)):
                nfl += 1
                enc = [i2 for i2 in walk_stmts(m.node.body) if isinstance(i2, ast.If) and any(b is s2 for b in i2.body)]
                okf = unparse(s2.value).replace(" ", "") == "event._sort_index+1" and len(enc) == 1 and not enc[0].orelse \
                    and {f.sig for f in atoms(enc[0].test, True)} == {("le", "self._index_floor", "event._sort_index")}
                ctx.ob("C01-10", "G6", m, s2, okf, f"EventHeap.{m.name}: the index floor is raised to index + 1 whenever an index at or above it is seen (`>=`, not `>`)")
    need(nfl >= 2, f"C01-10: expected >= 2 index-floor maintenance sites, found {nfl}")
    ctx.floor("C01-10", 8)


def _fresh_list_expr(e: ast.AST) -> bool:
    """Does ``e`` always evaluate to a list object created by this very evaluation?"""
    if isinstance(e, (ast.List, ast.ListComp)):
        return True
    if isinstance(e, ast.Call) and path_of(e.func) in ("list", "sorted"):
        return True
    if isinstance(e, ast.BinOp) and isinstance(e.op, ast.Add):
        return _fresh_list_expr(e.left) or _fresh_list_expr(e.right)
    if isinstance(e, ast.IfExp):
        return _fresh_list_expr(e.body) and _fresh_list_expr(e.orelse)
    return False


def rule_engine_grows_only_its_own_lists(ctx: Ctx, rule: str = "C01-11") -> None:
    """C01-11 (C02-8 as a dependency clause: a process that reuses its outbox list would be resumed early by the stale continuation): the engine appends continuations / completion events only to lists it built itself.  A list that came from model code (a
    yielded side-effect list, a handler's return value, a parameter) may be the model's own object and be handed over again: growing it in
    place would re-deliver the events appended earlier."""
    prog = ctx.prog
    n = 0
    for fn in prog.all_functions("happysimulator/core/"):
        params = set(fn.params())
        for c in calls_in(fn.node):
            if not (isinstance(c.func, ast.Attribute) and c.func.attr in ("append", "extend", "insert") and isinstance(c.func.value, ast.Name)):
                continue
            x = c.func.value.id
            defs = [s_ for s_ in walk_scope(fn.node, include_root=False) if isinstance(s_, (ast.Assign, ast.AnnAssign)) and s_.value is not None
                    and path_of(s_.targets[0] if isinstance(s_, ast.Assign) else s_.target) == x]
            augs = [s_ for s_ in walk_scope(fn.node, include_root=False) if isinstance(s_, ast.AugAssign) and path_of(s_.target) == x]
            other = [t_ for t_ in walk_scope(fn.node, include_root=False) if isinstance(t_, (ast.For, ast.comprehension, ast.withitem, ast.NamedExpr))
                     and any(isinstance(y, ast.Name) and y.id == x and isinstance(y.ctx, ast.Store) for y in ast.walk(getattr(t_, "target", None) or getattr(t_, "optional_vars", None) or t_))]
            n += 1
            ok = x not in params and bool(defs) and all(_fresh_list_expr(d.value) for d in defs) and not other
            why = "" if ok else (f" — `{x}` is a parameter" if x in params else f" — `{x}` may be `{unparse(next((d.value for d in defs if not _fresh_list_expr(d.value)), None))[:80]}`" if defs else f" — `{x}` is not bound to a fresh list here")
            ctx.ob(rule, "G6", fn, c, ok, f"{fn.qual}: `{x}.{c.func.attr}(…)` grows a list built in this function (`[]`, `list(…)`, a literal, a concatenation) — never a list object received from model code" + why)
    need(n >= 3, f"{rule}: expected >= 3 list-growing sites in core/, found {n}")
    ctx.floor(rule, 3)


def rule_event_never_reschedules_itself(ctx: Ctx, rule: str = "C01-12") -> None:
    """C01-12: inside the Event classes a bare `self` is only ever *passed to a callee* (`target.handle_event(self)`, `future._park(self)`).
    It is never bound to another name, returned, or put into a list: whatever an `invoke` returns is pushed by the run loop, so an event
    that hands itself back is delivered a second time — with its old creation index, ahead of events created since."""
    prog = ctx.prog
    mod = prog.module(EV)
    n = 0
    for fn in mod.all_functions:
        if fn.cls is None or "self" not in fn.params():
            continue
        par = {}
        for x in ast.walk(fn.node):
            for ch in ast.iter_child_nodes(x):
                par[ch] = x
        for x in walk_scope(fn.node, include_root=False):
            if isinstance(x, ast.Name) and x.id == "self" and isinstance(x.ctx, ast.Load) and not isinstance(par.get(x), ast.Attribute):
                up = par.get(x)
                # comparisons (`other is self`) and isinstance tests read identity only
                ok = (isinstance(up, ast.Call) and any(a is x for a in up.args)) or isinstance(up, ast.Compare) or (isinstance(up, ast.keyword) and up.arg is not None)
                n += 1
                ctx.ob(rule, "G6", fn, enclosing_stmt(fn, x) or x, ok,
                       f"{fn.qual}: a bare `self` is only passed to a callee or compared — never bound to a name, returned or collected, which would hand the "
                       "event itself back to the scheduler (delivered twice, with its old tie-break index)")
    need(n >= 2, f"{rule}: expected >= 2 bare uses of `self` in the Event classes (handle_event(self), _park(self)), found {n}")
    ctx.floor(rule, 2)


def rule_only_the_model_cancels(ctx: Ctx, rule: str = "C01-13") -> None:
    """C01-13 (C02-9): cancellation is the model's decision.  Inside happysimulator/core/ nothing calls `.cancel()` on an event and
    `_cancelled` is set to True only by `Event.cancel`; every other write initialises it to False.  An engine helper that withdrew an event
    on its own (e.g. a forwarded copy of a cancelled request) would drop a live event that a process yielded or returned."""
    prog = ctx.prog
    n = 0
    for fn in prog.all_functions("happysimulator/core/"):
        for c in calls_in(fn.node):
            if isinstance(c.func, ast.Attribute) and c.func.attr == "cancel" and not c.args and not c.keywords:
                # a code-debugger / tracing object may have its own cancel(); only receivers that can be events matter: any local or
                # parameter or attribute — the engine has no other cancellable objects today, so every such call is reported
                ctx.ob(rule, "G6", fn, c, False, f"{fn.qual}: the engine calls `{unparse(c)}` — only model code may withdraw an event; an event the engine "
                       "built for a process (a forwarded request, a continuation) must stay live")
        for st in walk_stmts(fn.node.body):
            tg = []
            if isinstance(st, ast.Assign):
                tg = st.targets
            elif isinstance(st, (ast.AnnAssign, ast.AugAssign)):
                tg = [st.target]
            for t in tg:
                if isinstance(t, ast.Attribute) and t.attr == "_cancelled":
                    n += 1
                    v = getattr(st, "value", None)
                    is_true = isinstance(v, ast.Constant) and v.value is True
                    is_false = isinstance(v, ast.Constant) and v.value is False
                    ok = (is_true and fn.qual == "Event.cancel" and path_of(t.value) == "self") or (is_false and fn.name in ("__init__", "__post_init__") and path_of(t.value) == "self")
                    ctx.ob(rule, "G6", fn, st, ok, f"{fn.qual}: `{norm_stmt(st)}` — `_cancelled` becomes True only in Event.cancel (on self) and is initialised False in constructors")
    need(n >= 2, f"{rule}: expected the `_cancelled` writes of Event.__init__ and Event.cancel, found {n}")
    ctx.floor(rule, 2)


def run(ctx: Ctx) -> None:
    ctx.guarded(rule_ordering_tables)
    ctx.guarded(rule_heap_pairing)
    ctx.guarded(rule_loops)
    ctx.guarded(rule_autoterminate)
    ctx.guarded(rule_sort_index)
    ctx.guarded(rule_context_exit_and_clock)
    ctx.guarded(rule_inheritance_horizon_floor)
    ctx.guarded(rule_engine_grows_only_its_own_lists)
    ctx.guarded(rule_event_never_reschedules_itself)
    ctx.guarded(rule_only_the_model_cancels)


# ------------------------------------------------------------------------------------------------
# self-test tables (thorough tier): single edits that break the property / preserve behaviour
# ------------------------------------------------------------------------------------------------
_LE_INSTANT = ("    def __le__(self, other: Instant) -> bool:\n        if not isinstance(other, Instant):\n            return NotImplemented\n"
               "        return self.nanoseconds <= other.nanoseconds")
MUTANTS = [
    ("zero-delay-continuation-requeues-itself", EV, "            next_continuation = ProcessContinuation(\n                time=resume_time,", "            next_continuation = self if resume_time == self.time else ProcessContinuation(\n                time=resume_time,", "C01-12"),
    ("forward-propagates-cancellation", "happysimulator/core/entity.py", "        return Event(\n            time=self.now,\n            event_type=event_type or event.event_type,\n            target=target,\n            context=event.context,\n        )",
     "        forwarded = Event(\n            time=self.now,\n            event_type=event_type or event.event_type,\n            target=target,\n            context=event.context,\n        )\n        if event.cancelled:\n            forwarded.cancel()\n        return forwarded", "C01-13"),
    ("continuation-appended-to-models-list", EV, "            result = list(side_effects)\n", "            result = side_effects if isinstance(side_effects, list) else list(side_effects)\n", "C01-11"),
    ("continuation-drops-daemon", EV, "        continuation = ProcessContinuation(\n            time=self.time,\n            event_type=self.event_type,\n            daemon=self.daemon,", "        continuation = ProcessContinuation(\n            time=self.time,\n            event_type=self.event_type,", "C01-10"),
    ("duration-from-epoch", SIM, "            self._end_time = self._start_time + duration", "            self._end_time = Instant.Epoch + duration", "C01-10"),
    ("index-floor-strict", HEAP, "        heapq.heappush(self._heap, event)\n        if event._sort_index >= self._index_floor:", "        heapq.heappush(self._heap, event)\n        if event._sort_index > self._index_floor:", "C01-10"),
    ("index-floor-strict-in-ctor", HEAP, "            if event._sort_index >= self._index_floor:", "            if event._sort_index > self._index_floor:", "C01-10"),
    ("lt-index-flipped", EV, "return self._sort_index < other._sort_index", "return self._sort_index > other._sort_index", "C01-1"),
    ("lt-time-only", EV, "        if self.time != other.time:\n            return self.time < other.time\n        return self._sort_index < other._sort_index",
     "        return self.time < other.time", "C01-1"),
    ("instant-le-strict", TEMP, _LE_INSTANT, _LE_INSTANT.replace("<=", "<"), "C01-2"),
    ("infinity-ge-finite", TEMP, "            return NotImplemented\n        return True\n", "            return NotImplemented\n        return isinstance(other, _InfiniteInstant)\n", "C01-2"),
    ("push-counts-daemons", HEAP, "        if not event.daemon:\n            self._primary_event_count += 1", "        self._primary_event_count += 1", "C01-3"),
    ("pop-counts-daemons", HEAP, "        if not popped.daemon:\n            self._primary_event_count -= 1", "        self._primary_event_count -= 1", "C01-3"),
    ("pop-forgets-count", HEAP, "        if not popped.daemon:\n            self._primary_event_count -= 1", "        pass", "C01-3"),
    ("has-primary-ge0", HEAP, "return self._primary_event_count > 0", "return self._primary_event_count >= 0", "C01-3"),
    ("fast-cancelled-falls-through", SIM, "            if event._cancelled:\n                events_cancelled += 1\n                continue\n",
     "            if event._cancelled:\n                events_cancelled += 1\n", "C01-4"),
    ("slow-cancelled-not-counted", SIM, "            if event.cancelled:\n                self._events_cancelled += 1\n                continue\n",
     "            if event.cancelled:\n                continue\n", "C01-5"),
    ("slow-past-check-inverted", SIM, "            if event.time < self._current_time:\n", "            if event.time > self._current_time:\n", "C01-4"),
    ("fast-past-check-dropped", SIM, "            if event_time < current_time:\n", "            if False and event_time < current_time:\n", "C01-4"),
    ("fast-clock-not-updated", SIM, "            clock_update(current_time)\n", "", "C01-4"),
    ("slow-clock-not-updated", SIM, "        self._clock.update(self._current_time)\n", "", "C01-4"),
    ("fast-clock-updated-before-time", SIM, "            current_time = event_time\n            clock_update(current_time)\n",
     "            clock_update(current_time)\n            current_time = event_time\n", "C01-4"),
    ("fast-results-dropped", SIM, "                if new_events:\n                    heap_push(new_events)", "                if new_events:\n                    pass", "C01-5"),
    ("fast-results-pushed-twice", SIM, "                if new_events:\n                    heap_push(new_events)",
     "                if new_events:\n                    heap_push(new_events)\n                    heap_push(new_events)", "C01-5"),
    ("slow-results-condition-inverted", SIM, "            if new_events:\n                self._push_new_events(event, new_events)",
     "            if not new_events:\n                self._push_new_events(event, new_events)", "C01-5"),
    ("push-helper-only-when-tracing", SIM, "        self._event_heap.push(new_events)\n\n    def _pause_simulation",
     "        if self._tracing_enabled:\n            self._event_heap.push(new_events)\n\n    def _pause_simulation", "C01-5"),
    ("autoterm-tests-any-event", SIM, "if auto_terminate and not heap.has_primary_events():", "if auto_terminate and not heap.has_events():", "C01-6"),
    ("autoterm-never", SIM, "auto_terminate = end_time == Instant.Infinity", "auto_terminate = False", "C01-6"),
    ("fast-path-in-auto-mode", SIM, "            and not auto_terminate\n", "", "C01-6"),
    ("continuation-index-constant", EV, "        self.on_complete = on_complete if on_complete is not None else []\n        self._sort_index = _next_sort_index()\n        self._id = self._sort_index\n        self._cancelled = False\n        self.context = context if context is not None else {}",
     "        self.on_complete = on_complete if on_complete is not None else []\n        self._sort_index = 0\n        self._id = self._sort_index\n        self._cancelled = False\n        self.context = context if context is not None else {}", "C01-9"),
    ("tiebreak-fix-reverted-install", FUT, "        heap_counter = heap._continue_event_counter()\n", "", "C01-8"),
    ("tiebreak-rebase-ignores-floor", HEAP, "count(max(self._event_counter.__next__(), self._index_floor))", "count(self._event_counter.__next__())", "C01-8"),
    ("tiebreak-floor-not-maintained", HEAP, "        heapq.heappush(self._heap, event)\n        if event._sort_index >= self._index_floor:\n            self._index_floor = event._sort_index + 1\n",
     "        heapq.heappush(self._heap, event)\n", "C01-8"),
    ("foreign-heap-write", "happysimulator/core/control/control.py", "    def peek_next(", "    def _drop_next(self):\n        self._sim._event_heap._heap.pop(0)\n\n    def peek_next(", "C01-3"),
]
MUTANTS += [
    ("context-cleared-before-counter-read", FUT, "    active_counter = _active_counter_var.get(None)\n    if active_counter is not None:\n        _advance_global_event_counter(active_counter.__next__())\n    _active_heap_var.set(None)\n    _active_clock_var.set(None)\n    _active_counter_var.set(None)",
     "    _active_heap_var.set(None)\n    _active_clock_var.set(None)\n    _active_counter_var.set(None)\n    active_counter = _active_counter_var.get(None)\n    if active_counter is not None:\n        _advance_global_event_counter(active_counter.__next__())", "C01-8"),
    ("clock-ignores-backward-update", "happysimulator/core/clock.py", "        self._current_time = time\n", "        if time > self._current_time:\n            self._current_time = time\n", "C01-4"),
]
REFACTORS = [
    ("fast-loop-no-event-time-alias", SIM, ["            event_time = event.time\n            if event_time < current_time:", "                    event_time,\n", "            current_time = event_time\n"],
     ["            if event.time < current_time:", "                    event.time,\n", "            current_time = event.time\n"]),
    ("slow-loop-explicit-increment", SIM, "                self._events_cancelled += 1\n", "                self._events_cancelled = self._events_cancelled + 1\n"),
    ("lt-as-tuple-compare", EV, "        if self.time != other.time:\n            return self.time < other.time\n        return self._sort_index < other._sort_index",
     "        if self.time == other.time:\n            return self._sort_index < other._sort_index\n        return self.time < other.time"),
    ("has-primary-ne0", HEAP, "return self._primary_event_count > 0", "return self._primary_event_count >= 1"),
    ("slow-cancel-via-private-flag", SIM, "            if event.cancelled:\n", "            if event._cancelled:\n"),
    ("push-guard-nested-else", HEAP, "        if not event.daemon:\n            self._primary_event_count += 1", "        if event.daemon:\n            pass\n        else:\n            self._primary_event_count += 1"),
]
