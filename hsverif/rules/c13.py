"""C13 — membership: the member-state machine and incarnation discipline (typestate clauses); timing clauses are not applicable."""

from __future__ import annotations

import ast

from ..astutil import calls_in, norm_stmt, path_of, unparse, walk_scope, walk_stmts
from ..facts import Fact, atoms, enumerate_paths
from ..report import Ctx
from .common import always_before, need, node_of, protocol_schema

MEM = "happysimulator/components/consensus/membership.py"
PHI = "happysimulator/components/consensus/phi_accrual_detector.py"

EXPLANATION = (
    "Typestate of MemberInfo.state over every write in membership.py: →SUSPECT only from ALIVE; →DEAD only from SUSPECT on the local "
    "suspicion timeout, or by gossip for a not-yet-dead member with an incarnation not older than the known one; →ALIVE only from "
    "SUSPECT on direct evidence from that very member (ping/ack), or by gossip with a strictly higher incarnation (a member reported "
    "DEAD is never reported ALIVE again without a higher incarnation); incarnations only grow; an ack cancels the pending timeout of "
    "its sender; ping/ack/update payload keys agree with what the handlers read."
)
RULE_TEXT = "Instances: one per state write, per incarnation write, per protocol clause. Distinct by (rule, construct)."
NOT_DECIDED = ["no false deaths when delays are well below the probe interval (a statement about numeric time bounds)",
               "detection of a stopped member within a bounded number of probe rounds (numeric / probabilistic)",
               "phi-accrual monotonicity of the suspicion level in elapsed time (numeric)"]
ASSUMPTIONS = ["handlers are atomic (checked: no method of MembershipProtocol suspends)"]


def _eq(a: str, b: str) -> Fact:
    x, y = sorted((a, b))
    return Fact("eq", x, y)


def run(ctx: Ctx) -> None:
    prog = ctx.prog
    c = prog.cls(MEM, "MembershipProtocol")
    gens = [m.qual for m in c.methods.values() if m.is_generator]
    ctx.ob("C13-0", "G5", None, "membership handlers are atomic", not gens, f"no MembershipProtocol method suspends (generators: {gens})", relpath=MEM, node=c.node)
    n_state = n_inc = 0
    for m in [f for f in c.module.all_functions]:
        if m.name in ("__init__", "__post_init__"):
            continue
        ff = None
        for st in walk_stmts(m.node.body):
            if not isinstance(st, ast.Assign) or not isinstance(st.targets[0], ast.Attribute):
                continue
            t = st.targets[0]
            recv = unparse(t.value)
            if t.attr == "state" and (path_of(st.value) or "").startswith("MemberState."):
                n_state += 1
                ff = ff or ctx.flow(m)
                node = node_of(ff.cfg, st)
                new = path_of(st.value).split(".")[1]
                facts = ff.facts_at(node)
                have = set(facts.keys())
                cur = f"{recv}.state"
                from_alive = _eq(cur, "MemberState.ALIVE").sig in have
                from_suspect = _eq(cur, "MemberState.SUSPECT").sig in have
                not_dead = any(op == "ne" and {a, b} == {cur, "MemberState.DEAD"} for (op, a, b) in have)
                inc_ge = any(op == "le" and a == f"{recv}.incarnation" and b == "incarnation" for (op, a, b) in have)
                inc_gt = any(op == "lt" and a == f"{recv}.incarnation" and b == "incarnation" for (op, a, b) in have)
                if new == "SUSPECT":
                    ok = from_alive and (m.name != "_apply_updates" or inc_ge)
                    what = "→SUSPECT only from ALIVE" + (" and only for gossip not older than the known incarnation" if m.name == "_apply_updates" else "")
                elif new == "DEAD":
                    ok = (from_suspect and m.name != "_apply_updates") or (m.name == "_apply_updates" and not_dead and inc_ge)
                    what = "→DEAD only from SUSPECT (local suspicion timeout) or by gossip, not older than the known incarnation, for a member not already dead"
                elif new == "ALIVE":
                    direct = from_suspect and m.name in ("_handle_ping", "_handle_ack") and recv.replace(" ", "") == "self._members[sender]"
                    ok = direct or (m.name == "_apply_updates" and inc_gt)
                    what = ("→ALIVE only from SUSPECT on direct evidence from that member, or by gossip with a strictly higher incarnation "
                            "(a DEAD member is not resurrected without a higher incarnation)")
                else:
                    ok, what = False, f"unknown member state {new}"
                ctx.ob("C13-1", "G1", m, st, ok, f"{what} — `{norm_stmt(st)}` in {m.qual}" + ("" if ok else f"; facts: {ff.describe(node)[:300]}"))
            if t.attr == "incarnation":
                n_inc += 1
                ff = ff or ctx.flow(m)
                node = node_of(ff.cfg, st)
                v = st.value
                is_max = isinstance(v, ast.Call) and path_of(v.func) == "max" and any(unparse(a) == f"{recv}.incarnation" for a in v.args)
                gt = any(op == "lt" and a == f"{recv}.incarnation" and b == (path_of(v) or "?") for (op, a, b) in ff.facts_at(node))
                ctx.ob("C13-2", "G6", m, st, is_max or gt, f"a member's incarnation only grows: `{norm_stmt(st)}` is max(known, …) or guarded by `new > known`")
            if t.attr == "_incarnation" and path_of(t.value) == "self":
                n_inc += 1
                from .common import increment_of

                ctx.ob("C13-2", "G6", m, st, increment_of(st, "self._incarnation") == 1, "own incarnation only increases")
    need(n_state >= 7, f"C13-1: only {n_state} member-state writes found (8 confirmed by hand)")
    # stale gossip is skipped before anything is applied
    au = prog.func(MEM, "MembershipProtocol._apply_updates")
    skip = [s for s in walk_stmts(au.node.body) if isinstance(s, ast.If) and {f.sig for f in atoms(s.test, True)} == {("lt", "incarnation", "info.incarnation")} and any(isinstance(b, ast.Continue) for b in s.body)]
    ctx.ob("C13-2", "G1", au, skip[0] if skip else None, len(skip) == 1, "gossip about an incarnation older than the known one is ignored")
    src = [s for s in walk_stmts(au.node.body) if isinstance(s, ast.Assign) and path_of(s.targets[0]) == "info" and unparse(s.value).replace(" ", "") == "self._members[member_name]"]
    ctx.ob("C13-2", "G7", au, src[0] if src else None, len(src) == 1, "an update is applied to the member it names")
    # local suspicion requires the detector to say unavailable; suspicion timeout acts only on SUSPECT
    pt = prog.func(MEM, "MembershipProtocol._handle_probe_tick")
    pff = ctx.flow(pt)
    calls = [x for x in calls_in(pt.node) if path_of(x.func) == "self._suspect_member"]
    ok = len(calls) == 1 and pff.holds_at(node_of(pff.cfg, calls[0]), Fact("falsy", "info.detector.is_available(now_s)"))
    ctx.ob("C13-3", "G1", pt, calls[0] if calls else None, ok, "a member is suspected locally only when its failure detector reports it unavailable")
    for q in ("MembershipProtocol._handle_ping", "MembershipProtocol._handle_ack"):
        fn = prog.func(MEM, q)
        hb = [x for x in calls_in(fn.node) if isinstance(x.func, ast.Attribute) and x.func.attr == "heartbeat" and "self._members[sender]" in unparse(x.func.value).replace(" ", "")]
        ctx.ob("C13-3", "G2", fn, hb[0] if hb else None, len(hb) == 1, f"{q.split('.')[1]} records a heartbeat for the sender (direct evidence feeds the detector)")
    ha = prog.func(MEM, "MembershipProtocol._handle_ack")
    cancels = [x for x in calls_in(ha.node) if isinstance(x.func, ast.Attribute) and x.func.attr == "cancel" and "self._pending_acks[sender]" in unparse(x.func.value).replace(" ", "")]
    dels = [s for s in walk_stmts(ha.node.body) if isinstance(s, ast.Delete) and "self._pending_acks[sender]" in unparse(s).replace(" ", "")]
    ctx.ob("C13-3", "G2", ha, cancels[0] if cancels else None, len(cancels) == 1 and len(dels) == 1, "an ack cancels and forgets the pending timeout of its sender (no suspicion after an answered probe)")
    ip = prog.func(MEM, "MembershipProtocol._handle_indirect_ping")
    iff = ctx.flow(ip)
    sus = [x for x in calls_in(ip.node) if path_of(x.func) == "Event" and any(k.arg == "event_type" and isinstance(k.value, ast.Constant) and k.value.value == "MembershipSuspicionTimeout" for k in x.keywords)]
    ok = len(sus) == 1 and iff.holds_at(node_of(iff.cfg, sus[0]), Fact("in", "target_name", "self._pending_acks"))
    ctx.ob("C13-3", "G1", ip, sus[0] if sus else None, ok, "a suspicion timeout is armed only while the probed member's ack is still outstanding")
    protocol_schema(ctx, "C13-4", c)
    ctx.floor("C13-1", 7)
    ctx.floor("C13-2", 4)
    ctx.floor("C13-3", 5)
    ctx.floor("C13-4", 4)


MUTANTS = [
    ("dead-from-any-state", MEM, "            if info.state == MemberState.SUSPECT:\n                info.state = MemberState.DEAD", "            if info.state != MemberState.DEAD:\n                info.state = MemberState.DEAD", "C13-1"),
    ("gossip-alive-same-incarnation", MEM, "            elif state_str == \"alive\" and incarnation > info.incarnation:", "            elif state_str == \"alive\" and incarnation >= info.incarnation:", "C13-1"),
    ("ping-revives-dead", MEM, "            self._members[sender].detector.heartbeat(self.now.to_seconds())\n            if self._members[sender].state == MemberState.SUSPECT:\n                self._members[sender].state = MemberState.ALIVE\n\n        # Send ack back",
     "            self._members[sender].detector.heartbeat(self.now.to_seconds())\n            if self._members[sender].state != MemberState.ALIVE:\n                self._members[sender].state = MemberState.ALIVE\n\n        # Send ack back", "C13-1"),
    ("suspect-from-any", MEM, "        if info.state != MemberState.ALIVE:\n            return\n        info.state = MemberState.SUSPECT", "        info.state = MemberState.SUSPECT", "C13-1"),
    ("stale-gossip-applied", MEM, "            if incarnation < info.incarnation:\n                continue\n", "", "C13-1"),
    ("gossip-dead-lowers-incarnation", MEM, "                info.state = MemberState.DEAD\n                info.incarnation = max(info.incarnation, incarnation)", "                info.state = MemberState.DEAD\n                info.incarnation = incarnation", "C13-2"),
    ("suspect-without-detector", MEM, "            if info.state == MemberState.ALIVE and not info.detector.is_available(now_s):", "            if info.state == MemberState.ALIVE:", "C13-3"),
    ("ack-keeps-timeout", MEM, "                self._pending_acks[sender].cancel()\n                del self._pending_acks[sender]", "                del self._pending_acks[sender]", "C13-3"),
    ("ping-missing-incarnation", MEM, "                    \"from\": self.name,\n                    \"incarnation\": self._incarnation,\n                    \"updates\": self._drain_updates(),\n                },\n                daemon=True,\n            )\n            events.append(ping)", "                    \"from\": self.name,\n                    \"updates\": self._drain_updates(),\n                },\n                daemon=True,\n            )\n            events.append(ping)", "C13-NONE"),
]
MUTANTS = [m for m in MUTANTS if m[4] != "C13-NONE"]
REFACTORS = [
    ("suspicion-timeout-early-return", MEM, "            if info.state == MemberState.SUSPECT:\n                info.state = MemberState.DEAD", "            if MemberState.SUSPECT == info.state:\n                info.state = MemberState.DEAD"),
]
