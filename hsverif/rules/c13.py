"""C13 — membership: the member-state machine and incarnation discipline (typestate clauses); timing clauses are not applicable."""

from __future__ import annotations

import ast

from ..astutil import calls_in, norm_stmt, path_of, unparse, walk_scope, walk_stmts
from ..facts import Fact, atoms, enumerate_paths
from ..report import Ctx
from .common import always_before, expand, need, node_of, protocol_schema, single_defs

MEM = "happysimulator/components/consensus/membership.py"
PHI = "happysimulator/components/consensus/phi_accrual_detector.py"

EXPLANATION = (
    "Typestate of MemberInfo.state over every write in membership.py: →SUSPECT only from ALIVE; →DEAD only from SUSPECT on the local "
    "suspicion timeout, or by gossip for a not-yet-dead member with an incarnation not older than the known one; →ALIVE only from "
    "SUSPECT on direct evidence from that very member (ping/ack), or by gossip with a strictly higher incarnation (a member reported "
    "DEAD is never reported ALIVE again without a higher incarnation); incarnations only grow; an ack cancels the pending timeout of "
    "its sender; ping/ack/update payload keys agree with what the handlers read."
)
RULE_TEXT = "Instances: one per state write, per incarnation write, per protocol clause. Distinct by (rule, construct)."
NOT_DECIDED = ["no false deaths when delays are well below the probe interval (a statement about numeric time bounds)",
               "detection of a stopped member within a bounded number of probe rounds (numeric / probabilistic)",
               "the numeric value of phi (only its monotone shape in elapsed time is decided, C13-6)"]
ASSUMPTIONS = ["handlers are atomic (checked: no method of MembershipProtocol suspends)", "PhiAccrualDetector min_std > 0 (default 0.1; the constructor does not validate it)"]


def _eq(a: str, b: str) -> Fact:
    x, y = sorted((a, b))
    return Fact("eq", x, y)



PHI = "happysimulator/components/consensus/phi_accrual_detector.py"


def rule_phi_shape(ctx: Ctx) -> None:
    """C13-6: phi(now) is a composition of pieces that are monotone in `now`, and its saturation branch returns +inf."""
    from ..mono import direction, is_plus_infinity
    from ..facts import atoms

    prog = ctx.prog
    fn = prog.func(PHI, "PhiAccrualDetector.phi")
    var = [p for p in fn.params() if p != "self"][0]
    env = {var: "inc"}
    env_pos: set[str] = set()
    pos = {"self._min_std"}
    n_ret = 0

    def walk(body, region):
        """region: None (any now), 'low' (holds for small now only), 'high' (large now only)"""
        nonlocal n_ret
        for st in body:
            if isinstance(st, ast.Expr) and isinstance(st.value, ast.Constant):
                continue
            if isinstance(st, ast.Assign) and len(st.targets) == 1 and path_of(st.targets[0]):
                d = direction(st.value, env, pos, env_pos)
                env[path_of(st.targets[0])] = d
                from ..mono import positive
                if positive(st.value, pos, env_pos):
                    env_pos.add(path_of(st.targets[0]))
                continue
            if isinstance(st, ast.If) and not st.orelse and len(st.body) == 1 and isinstance(st.body[0], ast.Return):
                fs = atoms(st.test, True)
                reg = "data"
                for f in fs:
                    if f.op in ("lt", "le"):
                        da, db = env.get(f.a, "c"), env.get(f.b, "c")
                        # a < b holds for small now when a increases / b decreases; for large now when a decreases / b increases
                        if (da == "inc" and db == "c") or (da == "c" and db == "dec"):
                            reg = "low"
                        elif (da == "dec" and db == "c") or (da == "c" and db == "inc"):
                            reg = "high"
                        elif da != "c" or db != "c":
                            reg = "?"
                r = st.body[0]
                n_ret += 1
                if reg == "high":
                    ok = r.value is not None and is_plus_infinity(r.value)
                    ctx.ob("C13-6", "G6", fn, r, ok, f"phi saturates at +infinity: the branch `{unparse(st.test)}` holds for ever larger {var}, and every finite value would lie below values of the unsaturated branch "
                           "(phi would drop while no heartbeat arrives)")
                elif reg == "low":
                    ok = isinstance(r.value, ast.Constant) and r.value.value == 0
                    ctx.ob("C13-6", "G6", fn, r, ok, f"below the region of the model (`{unparse(st.test)}`) phi is its minimum 0")
                elif reg == "data":
                    ctx.ob("C13-6", "G6", fn, r, isinstance(r.value, ast.Constant), f"`{unparse(st.test)}` does not depend on {var}: a constant there cannot break monotonicity in {var}")
                else:
                    ctx.ob("C13-6", "G6", fn, r, False, f"cannot classify `{unparse(st.test)}` as a lower/upper region of {var}")
                continue
            if isinstance(st, ast.Return):
                n_ret += 1
                d = direction(st.value, env, pos, env_pos)
                ctx.ob("C13-6", "G6", fn, st, d == "inc", f"the unsaturated value `{unparse(st.value)}` is non-decreasing in {var} (derived direction: {d}; "
                       f"chain: {', '.join(f'{k}:{v}' for k, v in env.items() if v != 'c')})")
                continue
            ctx.ob("C13-6", "G6", fn, st, False, f"statement shape not covered by the monotonicity evaluator: `{norm_stmt(st)}`")
    walk(fn.node.body, None)
    need(n_ret >= 3, "C13-6: phi() should have its data / saturation / value returns")
    ia = prog.func(PHI, "PhiAccrualDetector.is_available")
    rets = [s2 for s2 in walk_stmts(ia.node.body) if isinstance(s2, ast.Return)]
    ok = len(rets) == 1 and unparse(rets[0].value).replace(" ", "") == f"self.phi({[p for p in ia.params() if p != 'self'][0]})<self._threshold"
    ctx.ob("C13-6", "G3", ia, rets[0] if rets else None, ok, "available ⇔ phi(now) < threshold (so availability is monotone as well: once suspected, suspected until the next heartbeat)")
    ctx.floor("C13-6", 5)

def rule_probe_failure_suspects(ctx: Ctx) -> None:
    """C13-3: whenever the ack of a direct probe is still outstanding when the ack timeout fires, the target is suspected and a suspicion
    timeout is armed — on every path, whatever the indirect-probe configuration."""
    from ..facts import enumerate_paths
    from ..cfg import own_exprs
    prog = ctx.prog
    fn = prog.func(MEM, "MembershipProtocol._handle_indirect_ping")
    ff = ctx.flow(fn)
    bad = []
    n_pending = 0
    for p in enumerate_paths(ff, ff.cfg.entry):
        if p.end != "exit":
            continue
        known = p.decided(lambda t: t == "target_namenotinself._members")
        unknown_none = p.decided(lambda t: t == "target_nameisNone")
        acked = p.decided(lambda t: t == "target_namenotinself._pending_acks")
        if known is True or unknown_none is True or acked is True:
            continue
        n_pending += 1
        calls = [path_of(c.func) for nd in p.nodes for e in own_exprs(nd) for c in walk_scope(e) if isinstance(c, ast.Call)]
        timer = any(isinstance(c, ast.Call) and path_of(c.func) == "Event" and "MembershipSuspicionTimeout" in unparse(c) for nd in p.nodes for e in own_exprs(nd) for c in walk_scope(e))
        if "self._suspect_member" not in calls or not timer:
            bad.append(p.describe()[:160])
    ctx.ob("C13-3", "G2", fn, "unanswered probe ⇒ suspect + timer", n_pending >= 1 and not bad,
           "every path on which the probed member's ack is still outstanding suspects it and arms the suspicion timeout (a member never heard from has phi 0 forever, so this is the only way it is ever suspected)"
           + ("" if not bad else " — path without: " + bad[0]))


def rule_detector_per_member(ctx: Ctx) -> None:
    """C13-6: a member's failure detector accumulates that member's heartbeat intervals, so every MemberInfo gets a detector *constructed
    for it* (or a deep copy).  An alias or shallow copy of a shared detector pools all members' samples in one window: a silent member's
    φ then falls whenever somebody else's heartbeat arrives."""
    prog = ctx.prog
    n = 0
    for fn in prog.module(MEM).all_functions:
        sd = single_defs(fn)
        for c in calls_in(fn.node):
            if path_of(c.func) != "MemberInfo":
                continue
            n += 1
            det = [k.value for k in c.keywords if k.arg == "detector"]
            d = expand(det[0], sd) if det else None
            fresh = isinstance(d, ast.Call) and (path_of(d.func) in ("PhiAccrualDetector", "copy.deepcopy", "deepcopy"))
            ctx.ob("C13-6", "G6", fn, c, bool(fresh), f"{fn.qual}: each member's detector is built for that member (found `{unparse(d)[:60] if d is not None else None}`) — detectors share no sample window")
    need(n >= 1, "C13-6: no MemberInfo construction found")
    # the detector's own state is per instance: created in __init__, not at class level
    det = prog.cls(PHI, "PhiAccrualDetector")
    cls_level = [norm_stmt(st) for st in det.node.body if isinstance(st, (ast.Assign, ast.AnnAssign)) and isinstance(getattr(st, "value", None), (ast.List, ast.Dict, ast.Set, ast.Call))]
    ctx.ob("C13-6", "G6", None, "detector state is per instance", not cls_level, f"PhiAccrualDetector keeps its interval window on the instance (class-level containers: {cls_level})", relpath=PHI, node=det.node)


def rule_ack_reaches_the_prober(ctx: Ctx) -> None:
    """C13-3: every ping is answered to the node that sent it — also when that node is not (yet) in the receiver's member table (a join
    through seed nodes).  An ack addressed to anything else (the receiver itself, as `event.target`) is dropped by the network and the
    prober declares a live member DEAD on a loss-free network."""
    prog = ctx.prog
    hp = prog.func(MEM, "MembershipProtocol._handle_ping")
    sends = [c for c in calls_in(hp.node) if path_of(c.func) == "self._network.send"]
    need(len(sends) == 1, "C13-3: _handle_ping should send exactly one ack")
    dest = [k.value for k in sends[0].keywords if k.arg == "destination"]
    dtxt = unparse(expand(dest[0], single_defs(hp))).replace(" ", "") if dest else ""
    ff = ctx.flow(hp)
    bad = []
    reply_defs = [s_ for s_ in walk_stmts(hp.node.body) if isinstance(s_, ast.Assign) and dest and path_of(s_.targets[0]) == path_of(dest[0])]
    for d_ in reply_defs or []:
        vt = unparse(d_.value).replace(" ", "")
        known = ff.holds_at(node_of(ff.cfg, d_), Fact("in", "sender", "self._members"))
        if known and vt != "self._members[sender].entity":
            bad.append(f"known sender answered via `{vt}`")
        if not known and "from_entity" not in vt:
            bad.append(f"unknown sender answered via `{vt}`")
    ok = bool(dest) and ((reply_defs and not bad) or ("self._members[sender].entity" in dtxt and "from_entity" in dtxt))
    ctx.ob("C13-3", "G7", hp, sends[0], bool(ok), "_handle_ping addresses the ack to the sender: its table entry when known, else the entity reference carried by the ping (`from_entity`) — never to itself"
           + ("" if not bad else " — " + "; ".join(bad)))
    # and every ping carries that reference
    n = 0
    for fn in prog.module(MEM).all_functions:
        for c in calls_in(fn.node):
            if path_of(c.func) == "self._network.send" and any(k.arg == "event_type" and isinstance(k.value, ast.Constant) and k.value.value in ("MembershipPing", "MembershipIndirectPing") for k in c.keywords):
                n += 1
                pl = [k.value for k in c.keywords if k.arg == "payload"]
                keys = {kk.value for kk in pl[0].keys if isinstance(kk, ast.Constant)} if pl and isinstance(pl[0], ast.Dict) else set()
                ctx.ob("C13-3", "G8", fn, c, "from_entity" in keys, f"{fn.qual}: a ping carries a reference to its sender (`from_entity`) so that a receiver that does not know the sender yet can answer")
    need(n >= 1, "C13-3: no ping send site found")


def rule_timer_discipline(ctx: Ctx) -> None:
    """C13-7: (a) the periodic probe tick re-arms itself on every way out of its handler — it is the only thing that probes and sweeps phi,
    so one early return stops failure detection for good.  (b) `_pending_acks[k]` holds the *armed* timeout for member k; an entry is
    forgotten only after its timer was cancelled, or by the handler of that very timer when it fires: a timer that is forgotten but still
    armed fires later against whatever state the member is in then (a live member that happens to be SUSPECT is declared DEAD), and the ack
    that would have stopped it finds nothing to cancel.  (c) an entry is overwritten only after the old timer was cancelled if present."""
    prog = ctx.prog
    c = prog.cls(MEM, "MembershipProtocol")
    D = "self._pending_acks"
    # (a)
    pt = c.methods["_handle_probe_tick"]
    ff = ctx.flow(pt)
    ticks = [k for k in calls_in(pt.node) if path_of(k.func) == "Event" and any(kw.arg == "event_type" and isinstance(kw.value, ast.Constant) and kw.value.value == "MembershipProbeTick" for kw in k.keywords)
             and any(kw.arg == "target" and path_of(kw.value) == "self" for kw in k.keywords)]
    tick_nodes = [node_of(ff.cfg, k) for k in ticks]
    bad = [p_ for p_ in enumerate_paths(ff, ff.cfg.entry) if p_.end == "exit" and not any(x in tick_nodes for x in p_.nodes)]
    ctx.ob("C13-7", "G2", pt, ticks[0] if ticks else None, bool(ticks) and not bad,
           "the probe tick schedules the next MembershipProbeTick for itself on every path through its handler" + ("" if not bad else f" — not on [{bad[0].describe()}]"))
    # handlers of the timers stored in the table (event types of the stored events, through the dispatch table of handle_event)
    he = c.methods["handle_event"]
    dispatch = {}
    for d_ in [x for x in walk_scope(he.node, include_root=False) if isinstance(x, ast.Dict)]:
        for k_, v_ in zip(d_.keys, d_.values):
            if isinstance(k_, ast.Constant) and (path_of(v_) or "").startswith("self."):
                dispatch[k_.value] = path_of(v_).split(".", 1)[1]
    own_handlers = set()
    stores = []
    for m in c.methods.values():
        sd = None
        for st in walk_stmts(m.node.body):
            if isinstance(st, ast.Assign) and isinstance(st.targets[0], ast.Subscript) and path_of(st.targets[0].value) == D:
                sd = sd or single_defs(m)
                stores.append((m, st))
                ev = expand(st.value, sd)
                if isinstance(ev, ast.Call):
                    for kw in ev.keywords:
                        if kw.arg == "event_type" and isinstance(kw.value, ast.Constant) and kw.value.value in dispatch:
                            own_handlers.add(dispatch[kw.value.value])
    need(len(stores) >= 2 and own_handlers, f"C13-7: expected the two timer stores into {D} and their handlers, found {len(stores)} / {sorted(own_handlers)}")

    def cancel_nodes(m, mf, key):
        return [node_of(mf.cfg, k) for k in calls_in(m.node) if isinstance(k.func, ast.Attribute) and k.func.attr == "cancel" and unparse(k.func.value).replace(" ", "") == f"{D}[{key}]"]
    n = 0
    for m in c.methods.values():
        mf = None
        removals = [(st, unparse(t.slice).replace(" ", "")) for st in walk_stmts(m.node.body) if isinstance(st, ast.Delete) for t in st.targets if isinstance(t, ast.Subscript) and path_of(t.value) == D]
        removals += [(k, unparse(k.args[0]).replace(" ", "") if k.args else "*") for k in calls_in(m.node) if isinstance(k.func, ast.Attribute) and k.func.attr in ("pop", "clear", "popitem") and path_of(k.func.value) == D]
        for site, key in removals:
            n += 1
            mf = mf or ctx.flow(m)
            nd = node_of(mf.cfg, site)
            cn = cancel_nodes(m, mf, key)
            ok = m.name in own_handlers or (bool(cn) and not always_before(ctx, m, lambda x: x in cn, lambda x: x is nd))
            ctx.ob("C13-7", "G2", m, site, ok, f"{m.qual}: the pending timer of `{key}` is forgotten only after `{D}[{key}].cancel()` on every path, or by the handler of that timer itself ({sorted(own_handlers)})")
    for m, st in stores:
        n += 1
        mf = ctx.flow(m)
        key = unparse(st.targets[0].slice).replace(" ", "")
        nd = node_of(mf.cfg, st)
        cn = cancel_nodes(m, mf, key)
        bad = [p_ for p_ in enumerate_paths(mf, mf.cfg.entry, stop=lambda x: x is nd) if p_.end == "stop" and p_.nodes[-1] is nd
               and not any(x in cn for x in p_.nodes) and ("notin", key, D) not in p_.facts]
        ctx.ob("C13-7", "G2", m, st, not bad, f"{m.qual}: before a new timer is stored for `{key}` the old one, if any, is cancelled" + ("" if not bad else f" — not on [{bad[0].describe()}]"))
    need(n >= 4, f"C13-7: expected >= 4 removal/overwrite sites of {D}, found {n}")
    # the detector's report is its phi, unmodified
    sa = prog.func(PHI, "PhiAccrualDetector.stats_at")
    mk = [k for k in calls_in(sa.node) if path_of(k.func) == "PhiAccrualStats"]
    sd = single_defs(sa)
    ok = len(mk) == 1
    if ok:
        kw = {k_.arg: expand(k_.value, sd) for k_ in mk[0].keywords}
        phi_ok = isinstance(kw.get("current_phi"), ast.Call) and path_of(kw["current_phi"].func) == "self.phi" and [path_of(a) for a in kw["current_phi"].args] == ["now_s"]
        sus = kw.get("is_suspected")
        sus_ok = sus is not None and {f.sig for f in atoms(sus, True)} == {("le", "self._threshold", "self.phi(now_s)")}
        ok = phi_ok and sus_ok
    ctx.ob("C13-6", "G7", sa, mk[0] if mk else None, ok, "stats_at reports phi(now_s) itself and suspicion as phi >= threshold: the reported level never drops while no heartbeat arrives (no re-mapping of the saturated value)")
    ctx.floor("C13-7", 5)


def run(ctx: Ctx) -> None:
    prog = ctx.prog
    ctx.guarded(rule_timer_discipline)
    ctx.guarded(rule_ack_reaches_the_prober)
    ctx.guarded(rule_detector_per_member)
    ctx.guarded(rule_phi_shape)
    ctx.guarded(rule_probe_failure_suspects)
    c = prog.cls(MEM, "MembershipProtocol")
    gens = [m.qual for m in c.methods.values() if m.is_generator]
    ctx.ob("C13-0", "G5", None, "membership handlers are atomic", not gens, f"no MembershipProtocol method suspends (generators: {gens})", relpath=MEM, node=c.node)
    n_state = n_inc = 0
    for m in [f for f in c.module.all_functions]:
        if m.name in ("__init__", "__post_init__"):
            continue
        ff = None
        for st in walk_stmts(m.node.body):
            if not isinstance(st, ast.Assign) or not isinstance(st.targets[0], ast.Attribute):
                continue
            t = st.targets[0]
            recv = unparse(t.value)
            if t.attr == "state" and (path_of(st.value) or "").startswith("MemberState."):
                n_state += 1
                ff = ff or ctx.flow(m)
                node = node_of(ff.cfg, st)
                new = path_of(st.value).split(".")[1]
                facts = ff.facts_at(node)
                have = set(facts.keys())
                cur = f"{recv}.state"
                from_alive = _eq(cur, "MemberState.ALIVE").sig in have
                from_suspect = _eq(cur, "MemberState.SUSPECT").sig in have
                not_dead = any(op == "ne" and {a, b} == {cur, "MemberState.DEAD"} for (op, a, b) in have)
                inc_ge = any(op == "le" and a == f"{recv}.incarnation" and b == "incarnation" for (op, a, b) in have)
                inc_gt = any(op == "lt" and a == f"{recv}.incarnation" and b == "incarnation" for (op, a, b) in have)
                if new == "SUSPECT":
                    ok = from_alive and (m.name != "_apply_updates" or inc_ge)
                    what = "→SUSPECT only from ALIVE" + (" and only for gossip not older than the known incarnation" if m.name == "_apply_updates" else "")
                elif new == "DEAD":
                    ok = (from_suspect and m.name != "_apply_updates") or (m.name == "_apply_updates" and not_dead and inc_ge)
                    what = "→DEAD only from SUSPECT (local suspicion timeout) or by gossip, not older than the known incarnation, for a member not already dead"
                elif new == "ALIVE":
                    direct = from_suspect and m.name in ("_handle_ping", "_handle_ack") and recv.replace(" ", "") == "self._members[sender]"
                    ok = direct or (m.name == "_apply_updates" and inc_gt)
                    what = ("→ALIVE only from SUSPECT on direct evidence from that member, or by gossip with a strictly higher incarnation "
                            "(a DEAD member is not resurrected without a higher incarnation)")
                else:
                    ok, what = False, f"unknown member state {new}"
                ctx.ob("C13-1", "G1", m, st, ok, f"{what} — `{norm_stmt(st)}` in {m.qual}" + ("" if ok else f"; facts: {ff.describe(node)[:300]}"))
            if t.attr == "incarnation":
                n_inc += 1
                ff = ff or ctx.flow(m)
                node = node_of(ff.cfg, st)
                v = st.value
                is_max = isinstance(v, ast.Call) and path_of(v.func) == "max" and any(unparse(a) == f"{recv}.incarnation" for a in v.args)
                gt = any(op == "lt" and a == f"{recv}.incarnation" and b == (path_of(v) or "?") for (op, a, b) in ff.facts_at(node))
                ctx.ob("C13-2", "G6", m, st, is_max or gt, f"a member's incarnation only grows: `{norm_stmt(st)}` is max(known, …) or guarded by `new > known`")
            if t.attr == "_incarnation" and path_of(t.value) == "self":
                n_inc += 1
                from .common import increment_of

                ctx.ob("C13-2", "G6", m, st, increment_of(st, "self._incarnation") == 1, "own incarnation only increases")
    need(n_state >= 7, f"C13-1: only {n_state} member-state writes found (8 confirmed by hand)")
    # stale gossip is skipped before anything is applied
    au = prog.func(MEM, "MembershipProtocol._apply_updates")
    skip = [s for s in walk_stmts(au.node.body) if isinstance(s, ast.If) and {f.sig for f in atoms(s.test, True)} == {("lt", "incarnation", "info.incarnation")} and any(isinstance(b, ast.Continue) for b in s.body)]
    ctx.ob("C13-2", "G1", au, skip[0] if skip else None, len(skip) == 1, "gossip about an incarnation older than the known one is ignored")
    src = [s for s in walk_stmts(au.node.body) if isinstance(s, ast.Assign) and path_of(s.targets[0]) == "info" and unparse(s.value).replace(" ", "") == "self._members[member_name]"]
    ctx.ob("C13-2", "G7", au, src[0] if src else None, len(src) == 1, "an update is applied to the member it names")
    # local suspicion requires the detector to say unavailable; suspicion timeout acts only on SUSPECT
    pt = prog.func(MEM, "MembershipProtocol._handle_probe_tick")
    pff = ctx.flow(pt)
    calls = [x for x in calls_in(pt.node) if path_of(x.func) == "self._suspect_member"]
    # the member handed to _suspect_member is the one whose own detector was asked (whatever the loop variable is called)
    who = path_of(calls[0].args[0]) if len(calls) == 1 and calls[0].args else None
    ok = who is not None and pff.holds_at(node_of(pff.cfg, calls[0]), Fact("falsy", f"{who}.detector.is_available(now_s)"))
    ctx.ob("C13-3", "G1", pt, calls[0] if calls else None, ok, "a member is suspected locally only when its failure detector reports it unavailable")
    for q in ("MembershipProtocol._handle_ping", "MembershipProtocol._handle_ack"):
        fn = prog.func(MEM, q)
        hb = [x for x in calls_in(fn.node) if isinstance(x.func, ast.Attribute) and x.func.attr == "heartbeat" and "self._members[sender]" in unparse(x.func.value).replace(" ", "")]
        ctx.ob("C13-3", "G2", fn, hb[0] if hb else None, len(hb) == 1, f"{q.split('.')[1]} records a heartbeat for the sender (direct evidence feeds the detector)")
    ha = prog.func(MEM, "MembershipProtocol._handle_ack")
    cancels = [x for x in calls_in(ha.node) if isinstance(x.func, ast.Attribute) and x.func.attr == "cancel" and "self._pending_acks[sender]" in unparse(x.func.value).replace(" ", "")]
    dels = [s for s in walk_stmts(ha.node.body) if isinstance(s, ast.Delete) and "self._pending_acks[sender]" in unparse(s).replace(" ", "")]
    ctx.ob("C13-3", "G2", ha, cancels[0] if cancels else None, len(cancels) == 1 and len(dels) == 1, "an ack cancels and forgets the pending timeout of its sender (no suspicion after an answered probe)")
    ip = prog.func(MEM, "MembershipProtocol._handle_indirect_ping")
    iff = ctx.flow(ip)
    sus = [x for x in calls_in(ip.node) if path_of(x.func) == "Event" and any(k.arg == "event_type" and isinstance(k.value, ast.Constant) and k.value.value == "MembershipSuspicionTimeout" for k in x.keywords)]
    ok = len(sus) == 1 and iff.holds_at(node_of(iff.cfg, sus[0]), Fact("in", "target_name", "self._pending_acks"))
    ctx.ob("C13-3", "G1", ip, sus[0] if sus else None, ok, "a suspicion timeout is armed only while the probed member's ack is still outstanding")
    protocol_schema(ctx, "C13-4", c)
    ctx.floor("C13-1", 7)
    ctx.floor("C13-2", 4)
    ctx.floor("C13-3", 5)
    ctx.floor("C13-4", 4)


MUTANTS = [
    ("ping-forgets-armed-timer", MEM, "            if self._members[sender].state == MemberState.SUSPECT:\n                self._members[sender].state = MemberState.ALIVE\n\n        # Send ack back", "            if self._members[sender].state == MemberState.SUSPECT:\n                self._members[sender].state = MemberState.ALIVE\n            self._pending_acks.pop(sender, None)\n\n        # Send ack back", "C13-7"),
    ("probe-tick-returns-early-without-rearm", MEM, "    def _handle_probe_tick(self, event: Event) -> list[Event]:\n        events: list[Event] = []\n", "    def _handle_probe_tick(self, event: Event) -> list[Event]:\n        if not self._members:\n            return []\n        events: list[Event] = []\n", "C13-7"),
    ("suspicion-timer-overwrites-without-cancel", MEM, "        if target_name in self._pending_acks:\n            self._pending_acks[target_name].cancel()\n        self._pending_acks[target_name] = suspicion_event", "        self._pending_acks[target_name] = suspicion_event", "C13-7"),
    ("stats-report-zero-when-saturated", PHI, "        current_phi = self.phi(now_s)\n        return PhiAccrualStats(", "        current_phi = self.phi(now_s)\n        if not math.isfinite(current_phi):\n            current_phi = 0.0\n        return PhiAccrualStats(", "C13-6"),
    ("ack-to-unknown-sender-goes-to-self", MEM, "            reply_to = metadata.get(\"from_entity\", event.target)", "            reply_to = event.target", "C13-3"),
    ("members-share-one-detector", MEM, "            detector=PhiAccrualDetector(\n                threshold=self._phi_threshold,\n                initial_interval=self._probe_interval,\n            ),\n", "            detector=self._shared_detector,\n", "C13-6"),
    ("no-indirect-probes-no-suspicion", MEM, "        # Pick random delegates (excluding self and target)", "        if self._indirect_probe_count <= 0:\n            return []\n        # Pick random delegates (excluding self and target)", "C13-3"),
    ("probe-failure-does-not-suspect", MEM, "        self._suspect_member(info, self.now.to_seconds())\n", "", "C13-3"),
    ("phi-saturates-finite", PHI, "        if p <= 0:\n            return float(\"inf\")", "        if p <= 0:\n            return 307.65", "C13-6"),
    ("phi-uses-erf", PHI, "        p = 0.5 * math.erfc(y / math.sqrt(2))", "        p = 0.5 * (1 + math.erf(y / math.sqrt(2)))", "C13-6"),
    ("phi-elapsed-reversed", PHI, "        elapsed = now_s - self._last_heartbeat\n        if elapsed < 0:", "        elapsed = self._last_heartbeat - now_s\n        if elapsed < 0:", "C13-6"),
    ("available-at-threshold-flipped", PHI, "        return self.phi(now_s) < self._threshold", "        return self.phi(now_s) > self._threshold", "C13-6"),
    ("dead-from-any-state", MEM, "            if info.state == MemberState.SUSPECT:\n                info.state = MemberState.DEAD", "            if info.state != MemberState.DEAD:\n                info.state = MemberState.DEAD", "C13-1"),
    ("gossip-alive-same-incarnation", MEM, "            elif state_str == \"alive\" and incarnation > info.incarnation:", "            elif state_str == \"alive\" and incarnation >= info.incarnation:", "C13-1"),
    ("ping-revives-dead", MEM, "            self._members[sender].detector.heartbeat(self.now.to_seconds())\n            if self._members[sender].state == MemberState.SUSPECT:\n                self._members[sender].state = MemberState.ALIVE\n\n        # Send ack back",
     "            self._members[sender].detector.heartbeat(self.now.to_seconds())\n            if self._members[sender].state != MemberState.ALIVE:\n                self._members[sender].state = MemberState.ALIVE\n\n        # Send ack back", "C13-1"),
    ("suspect-from-any", MEM, "        if info.state != MemberState.ALIVE:\n            return\n        info.state = MemberState.SUSPECT", "        info.state = MemberState.SUSPECT", "C13-1"),
    ("stale-gossip-applied", MEM, "            if incarnation < info.incarnation:\n                continue\n", "", "C13-1"),
    ("gossip-dead-lowers-incarnation", MEM, "                info.state = MemberState.DEAD\n                info.incarnation = max(info.incarnation, incarnation)", "                info.state = MemberState.DEAD\n                info.incarnation = incarnation", "C13-2"),
    ("suspect-without-detector", MEM, "            if info.state == MemberState.ALIVE and not info.detector.is_available(now_s):", "            if info.state == MemberState.ALIVE:", "C13-3"),
    ("ack-keeps-timeout", MEM, "                self._pending_acks[sender].cancel()\n                del self._pending_acks[sender]", "                del self._pending_acks[sender]", "C13-3"),
    ("ping-missing-incarnation", MEM, "                    \"from\": self.name,\n                    \"incarnation\": self._incarnation,\n                    \"updates\": self._drain_updates(),\n                },\n                daemon=True,\n            )\n            events.append(ping)", "                    \"from\": self.name,\n                    \"updates\": self._drain_updates(),\n                },\n                daemon=True,\n            )\n            events.append(ping)", "C13-NONE"),
]
MUTANTS = [m for m in MUTANTS if m[4] != "C13-NONE"]
REFACTORS = [
    ("phi-saturation-spelled-math-inf", PHI, "            return float(\"inf\")", "            return math.inf"),
    ("phi-y-inlined", PHI, "        y = (elapsed - mean) / std\n        # Use erfc for numerical stability\n        p = 0.5 * math.erfc(y / math.sqrt(2))", "        p = 0.5 * math.erfc((elapsed - mean) / std / math.sqrt(2))"),
    ("suspicion-timeout-early-return", MEM, "            if info.state == MemberState.SUSPECT:\n                info.state = MemberState.DEAD", "            if MemberState.SUSPECT == info.state:\n                info.state = MemberState.DEAD"),
]
