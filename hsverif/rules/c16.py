"""C16 — caches stay within capacity, never lose writes, respect staleness bounds (structural clauses)."""

from __future__ import annotations

import ast

from ..astutil import calls_in, norm_stmt, path_of, unparse, walk_scope, walk_stmts
from ..cfg import own_exprs
from ..facts import Fact, atoms, enumerate_paths
from ..report import Ctx
from ..suspend import node_suspension
from .common import always_before, expand, method_callers, need, node_of, single_defs, stmts_matching

CS = "happysimulator/components/datastore/cached_store.py"
EP = "happysimulator/components/datastore/eviction_policies.py"
MT = "happysimulator/components/datastore/multi_tier_cache.py"
ST = "happysimulator/components/datastore/soft_ttl_cache.py"
WP = "happysimulator/components/datastore/write_policies.py"
PC = "happysimulator/components/infrastructure/page_cache.py"

EXPLANATION = (
    "Capacity: every insertion of a *new* key is preceded, with no suspension in between, by an evict-until-fits loop whose exit "
    "condition is len < capacity (CachedStore._cache_put, SoftTTLCache._store, every PageCache insertion). Cache/policy pairing: the "
    "cache dict of CachedStore is mutated only by the three helpers, each paired with the matching policy notification; SoftTTLCache "
    "keeps _cache and _access_order in step; over the nine eviction policies every container filled by on_insert/on_access is emptied by "
    "on_remove and by clear, and evict removes the key it returns. Dirty data: every removal of a dirty mark is preceded by a write of "
    "that key to the backing store (or is the user's delete); a mark cleared after a suspension re-validates that the value written is "
    "still the cached one. Stale fill: a value fetched across a suspension is installed only under the re-checks `key not in cache` and "
    "`no write in flight` (CachedStore), `still cached in the source tier` (MultiTierCache promotion), or the cache writes the store "
    "first and the cache second with no suspension between (SoftTTLCache, MultiTierCache.put). Serve guard: every value SoftTTLCache.get "
    "returns from an entry passed is_fresh/is_valid on that binding of the entry, with a clock read not older than the entry binding."
)
RULE_TEXT = "Instances: per insertion site, per cache-dict mutation, per policy × container, per dirty-mark removal, per fill site, per return of an entry value."
NOT_DECIDED = ["hit-rate / recency quality of the policies", "staleness measured in time units under arbitrary latencies",
               "a synchronous eviction write-back overtaken by an older flush() put already in flight for the same key (residual, see TRIAGE_cache.md)",
               "RandomEviction / TTLEviction determinism (decided under C03)"]
ASSUMPTIONS = ["KVStore.get/put touch the store after their latency suspension and return in the same instant (checked under C14-8)",
               "handlers are atomic between suspension points"]

ADD_OPS = {"append", "add", "appendleft", "insert", "setdefault", "update"}
DEL_OPS = {"pop", "remove", "discard", "popitem", "popleft", "clear"}


# ---------------------------------------------------------------------------------------------------------
# helpers
# ---------------------------------------------------------------------------------------------------------

def _container_ops(fn, containers: set[str]) -> tuple[set[str], set[str]]:
    """(containers this method may add a key to, containers it may remove a key from) — self.<attr> only."""
    adds, dels = set(), set()
    for n in walk_scope(fn.node):
        if isinstance(n, (ast.Assign, ast.AugAssign)):
            for t in (n.targets if isinstance(n, ast.Assign) else [n.target]):
                if isinstance(t, ast.Subscript) and path_of(t.value) in containers:
                    adds.add(path_of(t.value))
        elif isinstance(n, ast.Delete):
            for t in n.targets:
                if isinstance(t, ast.Subscript) and path_of(t.value) in containers:
                    dels.add(path_of(t.value))
        elif isinstance(n, ast.Call) and isinstance(n.func, ast.Attribute) and path_of(n.func.value) in containers:
            if n.func.attr in ADD_OPS:
                adds.add(path_of(n.func.value))
            elif n.func.attr in DEL_OPS:
                dels.add(path_of(n.func.value))
    return adds, dels


def _is_container_init(v: ast.AST) -> bool:
    if isinstance(v, (ast.Dict, ast.List, ast.Set)):
        return True
    return isinstance(v, ast.Call) and path_of(v.func) in ("set", "dict", "list", "OrderedDict", "deque", "collections.OrderedDict", "collections.deque", "defaultdict")


def _evict_loop(fn, size_of: str, cap: str):
    """The `while len(size_of) >= cap:` statement(s) of fn."""
    out = []
    for st in walk_stmts(fn.node.body):
        if isinstance(st, ast.While):
            sig = {f.sig for f in atoms(st.test, True)}
            if sig == {("le", cap, f"len({size_of})")}:
                out.append(st)
    return out


def _no_suspension_between(ctx, fn, a_pred, b_node) -> bool:
    """On every path from a node satisfying a_pred to b_node there is no suspension node in between (exclusive)."""
    ff = ctx.flow(fn)
    starts = [n for n in ff.cfg.nodes if a_pred(n)]
    for s in starts:
        for p in enumerate_paths(ff, s, stop=lambda x: x is b_node):
            if p.end == "stop" and p.nodes and p.nodes[-1] is b_node:
                if any(node_suspension(ctx.prog, fn, n) for n in p.nodes[1:-1]):
                    return False
    return True


# ---------------------------------------------------------------------------------------------------------
# C16-1 capacity
# ---------------------------------------------------------------------------------------------------------

def rule_capacity(ctx: Ctx) -> None:
    prog = ctx.prog
    # CachedStore._cache_put
    cp = prog.func(CS, "CachedStore._cache_put")
    ff = ctx.flow(cp)
    stores = [s for s in walk_stmts(cp.node.body) if isinstance(s, ast.Assign) and isinstance(s.targets[0], ast.Subscript) and path_of(s.targets[0].value) == "self._cache"]
    need(len(stores) == 1, "C16-1: _cache_put should store into the cache at one site")
    loops = _evict_loop(cp, "self._cache", "self._cache_capacity")
    ok = len(loops) == 1 and not cp.is_generator
    why = ""
    if ok:
        lp = loops[0]
        sn = node_of(ff.cfg, stores[0])
        ltests = [n for n in ff.cfg.nodes if n.kind == "test" and any(x is n.ast for x in ast.walk(lp.test))]
        # every path to the store on which the key is new went through the loop test
        for p in enumerate_paths(ff, ff.cfg.entry, stop=lambda x: x is sn):
            if p.end == "stop" and p.nodes[-1] is sn:
                new = p.decided(lambda t: t == "keynotinself._cache")
                if new is not False and not any(n in ltests for n in p.nodes):
                    ok, why = False, f"path [{p.describe()}] stores a new key without the eviction loop"
        # body: victim comes from the policy and leaves the cache dict
        ev = [s for s in walk_stmts(lp.body) if isinstance(s, ast.Assign) and isinstance(s.value, ast.Call) and path_of(s.value.func) == "self._eviction_policy.evict"]
        victim = path_of(ev[0].targets[0]) if len(ev) == 1 else None
        pops = [c for s in walk_stmts(lp.body) for c in calls_in(s) if path_of(c.func) == "self._cache.pop" and c.args and path_of(c.args[0]) == victim]
        if not (victim and len(pops) == 1):
            ok, why = False, "the loop body does not remove the policy's victim from the cache"
        # the only early exit is `victim is None` (policy has nothing left)
        for s in walk_stmts(lp.body):
            if isinstance(s, (ast.Break, ast.Return)):
                n = node_of(ff.cfg, s)
                if not ff.holds_at(n, Fact("is", victim or "?", "None")):
                    ok, why = False, f"early exit of the eviction loop at line {s.lineno} not under `{victim} is None`"
            if isinstance(s, ast.Continue):
                ok, why = False, "continue inside the eviction loop"
    ctx.ob("C16-1", "G1", cp, stores[0], ok, "CachedStore: a new key is stored only after evicting until len(cache) < capacity, in one atomic step" + (f" — {why}" if why else ""))
    ctor = prog.func(CS, "CachedStore.__init__")
    capchk = [s for s in walk_stmts(ctor.node.body) if isinstance(s, ast.If) and {f.sig for f in atoms(s.test, True)} == {("lt", "cache_capacity", "1")} and any(isinstance(b, ast.Raise) for b in s.body)]
    ctx.ob("C16-1", "G1", ctor, capchk[0] if capchk else None, len(capchk) == 1, "CachedStore rejects capacities below 1 (the evict-until-fits loop presupposes one)")

    # SoftTTLCache._store
    sto = prog.func(ST, "SoftTTLCache._store")
    sff = ctx.flow(sto)
    stores = [s for s in walk_stmts(sto.node.body) if isinstance(s, ast.Assign) and isinstance(s.targets[0], ast.Subscript) and path_of(s.targets[0].value) == "self._cache"]
    need(len(stores) == 1, "C16-1: SoftTTLCache._store should store at one site")
    loops = _evict_loop(sto, "self._cache", "self._cache_capacity")
    ok = len(loops) == 1 and not sto.is_generator
    why = ""
    if ok:
        lp = loops[0]
        sn = node_of(sff.cfg, stores[0])
        ltests = [n for n in sff.cfg.nodes if n.kind == "test" and any(x is n.ast for x in ast.walk(lp.test))]
        for p in enumerate_paths(sff, sff.cfg.entry, stop=lambda x: x is sn):
            if p.end == "stop" and p.nodes[-1] is sn:
                bounded = p.decided(lambda t: t == "self._cache_capacityisnotNone")
                new = p.decided(lambda t: t == "keynotinself._cache")
                if bounded is not False and new is not False and not any(n in ltests for n in p.nodes):
                    ok, why = False, f"path [{p.describe()}] stores a new key without the eviction loop"
        body_calls = [path_of(c.func) for s in walk_stmts(lp.body) for c in calls_in(s)]
        inline_evict = "self._access_order.pop" in body_calls and "self._cache.pop" in body_calls   # the helper's body written out in the loop
        if (body_calls != ["self._evict_lru"] and not inline_evict) or any(isinstance(s, (ast.Break, ast.Continue, ast.Return)) for s in walk_stmts(lp.body)):
            ok, why = False, "loop body is not exactly one eviction (`_evict_lru()` or its body)"
    ctx.ob("C16-1", "G1", sto, stores[0], ok, "SoftTTLCache: a new key is stored only after evicting until len(cache) < capacity (when bounded), atomically" + (f" — {why}" if why else ""))
    el = prog.try_func(ST, "SoftTTLCache._evict_lru") or sto   # the eviction step may be a helper or written out inside _store
    vic = [s_ for s_ in walk_stmts(el.node.body) if isinstance(s_, ast.Assign) and isinstance(s_.targets[0], ast.Name) and unparse(s_.value).replace(" ", "") == "self._access_order.pop(0)"]
    vname = vic[0].targets[0].id if vic else None
    pops = [c for c in calls_in(el.node) if path_of(c.func) == "self._cache.pop" and c.args and path_of(c.args[0]) == vname]
    direct = [c for c in calls_in(el.node) if path_of(c.func) == "self._cache.pop" and c.args and unparse(c.args[0]).replace(" ", "") == "self._access_order.pop(0)"]
    ok_ev = (len(vic) == 1 and len(pops) == 1) or (not vic and len(direct) == 1)
    ctx.ob("C16-1", "G2", el, vic[0] if vic else (direct[0] if direct else None), ok_ev and not el.is_generator, "SoftTTLCache eviction removes the least recently used key (front of the access order) from both the order list and the cache")

    # PageCache: every insertion is covered by a capacity guarantee established in the same atomic step
    pc = prog.cls(PC, "PageCache")
    es = prog.func(PC, "PageCache._ensure_space")
    loops = _evict_loop(es, "self._pages", "self._capacity")
    ok = len(loops) == 1 and len(es.node.body) == (2 if isinstance(es.node.body[0], ast.Expr) and isinstance(es.node.body[0].value, ast.Constant) else 1)
    ctx.ob("C16-1", "G1", es, loops[0] if loops else None, ok, "PageCache._ensure_space is exactly `while len(pages) >= capacity: evict one` — it returns in the step in which len < capacity was observed")
    n_ins = 0
    for m in pc.methods.values():
        mf = ctx.flow(m)
        for st in walk_stmts(m.node.body):
            if isinstance(st, ast.Assign) and isinstance(st.targets[0], ast.Subscript) and path_of(st.targets[0].value) == "self._pages":
                n_ins += 1
                sn = node_of(mf.cfg, st)

                def establishes(n):
                    if n.kind == "test" and ("lt", "len(self._pages)", "self._capacity") in {f.sig for f in atoms(n.ast, True)}:
                        return True
                    return any(isinstance(c, ast.Call) and path_of(c.func) == "self._ensure_space" for e in own_exprs(n) for c in walk_scope(e))
                covered = not always_before(ctx, m, establishes, lambda x: x is sn)
                # `len < capacity` as a fact (test form) or no suspension since the ensure_space call
                fact = mf.holds_at(sn, Fact("lt", "len(self._pages)", "self._capacity"))
                atomic = _no_suspension_between(ctx, m, lambda n: any(isinstance(c, ast.Call) and path_of(c.func) == "self._ensure_space" for e in own_exprs(n) for c in walk_scope(e)), sn)
                by_call = any(isinstance(c, ast.Call) and path_of(c.func) == "self._ensure_space" for c in calls_in(m.node))
                ctx.ob("C16-1", "G1", m, st, covered and (fact or (by_call and atomic)),
                       f"PageCache.{m.name}: a page is inserted only in the atomic step in which room was established (len < capacity re-checked after the last suspension)")
    need(n_ins >= 3, f"C16-1: expected >= 3 PageCache insertion sites, found {n_ins}")
    # a page loaded from disk (inserted clean) never replaces a page that is already cached — it may have been written dirty while the read was suspended
    for m in pc.methods.values():
        mf = ctx.flow(m)
        for st in walk_stmts(m.node.body):
            if isinstance(st, ast.Assign) and isinstance(st.targets[0], ast.Subscript) and path_of(st.targets[0].value) == "self._pages" and isinstance(st.value, ast.Call) \
                    and not any(k.arg == "dirty" for k in st.value.keywords):
                key = unparse(st.targets[0].slice)
                ok = mf.holds_at(node_of(mf.cfg, st), Fact("notin", key, "self._pages"))
                ctx.ob("C16-3", "G5", m, st, ok, f"PageCache.{m.name}: a clean page is inserted only if the id is (still) not cached after the disk read — otherwise it would replace a page written dirty meanwhile and lose that write")


# ---------------------------------------------------------------------------------------------------------
# C16-2 cache <-> policy pairing
# ---------------------------------------------------------------------------------------------------------

def rule_pairing(ctx: Ctx) -> None:
    prog = ctx.prog
    cs = prog.cls(CS, "CachedStore")
    allowed = {"_cache_put", "_cache_remove", "invalidate_all", "__init__"}
    for m in cs.methods.values():
        adds, dels = _container_ops(m, {"self._cache"})
        if (adds or dels) and m.name not in allowed:
            ctx.ob("C16-2", "G2", m, f"mutates self._cache", False, f"CachedStore.{m.name} changes the cache dict directly; only _cache_put/_cache_remove/invalidate_all keep the eviction policy in step")
    cp = prog.func(CS, "CachedStore._cache_put")
    ff = ctx.flow(cp)
    store = [s for s in walk_stmts(cp.node.body) if isinstance(s, ast.Assign) and isinstance(s.targets[0], ast.Subscript) and path_of(s.targets[0].value) == "self._cache"][0]
    sn = node_of(ff.cfg, store)
    bad = []
    for p in enumerate_paths(ff, ff.cfg.entry, stop=lambda x: x is sn):
        if not (p.end == "stop" and p.nodes[-1] is sn):
            continue
        new = p.decided(lambda t: t == "keynotinself._cache")
        calls = [(path_of(c.func), [path_of(a) for a in c.args]) for n in p.nodes for e in own_exprs(n) for c in walk_scope(e) if isinstance(c, ast.Call) and path_of(c.func) in ("self._eviction_policy.on_insert", "self._eviction_policy.on_access")]
        want = ("self._eviction_policy.on_insert", ["key"]) if new is True else ("self._eviction_policy.on_access", ["key"]) if new is False else None
        if want is None or calls != [want]:
            bad.append(f"[{p.describe()}] notifies {calls}")
    ctx.ob("C16-2", "G2", cp, store, not bad, "CachedStore._cache_put tells the policy on_insert(key) exactly once for a new key and on_access(key) for an existing one" + ("" if not bad else " — " + bad[0]))
    cr = prog.func(CS, "CachedStore._cache_remove")
    names = [(path_of(c.func), [path_of(a) for a in c.args][:1]) for c in calls_in(cr.node)]
    ok = ("self._cache.pop", ["key"]) in names and ("self._eviction_policy.on_remove", ["key"]) in names and not cr.is_generator
    ctx.ob("C16-2", "G2", cr, "pop ⇔ on_remove", ok, "CachedStore._cache_remove removes the key from the cache and from the policy together")
    ia = prog.func(CS, "CachedStore.invalidate_all")
    names = [path_of(c.func) for c in calls_in(ia.node)]
    ctx.ob("C16-2", "G2", ia, "clear ⇔ clear", "self._cache.clear" in names and "self._eviction_policy.clear" in names and not ia.is_generator, "CachedStore.invalidate_all clears the cache and the policy together")

    # SoftTTLCache: _cache and _access_order
    sc = prog.cls(ST, "SoftTTLCache")
    for m in sc.methods.values():
        if m.name == "__init__":
            continue
        adds, dels = _container_ops(m, {"self._cache", "self._access_order"})
        if m.name == "_touch_for_lru":
            ok = "self._cache" not in adds | dels
            ff2 = ctx.flow(m)
            for c in calls_in(m.node):
                if path_of(c.func) == "self._access_order.append":
                    ok = ok and ff2.holds_at(node_of(ff2.cfg, c), Fact("in", "key", "self._access_order")) is False or ok
            # append only after remove of the same key (re-ordering, not adding)
            rm = [c for c in calls_in(m.node) if path_of(c.func) == "self._access_order.remove"]
            apn = [c for c in calls_in(m.node) if path_of(c.func) == "self._access_order.append"]
            ok = ok and len(rm) == 1 and len(apn) == 1 and not always_before(ctx, m, lambda x: x is node_of(ff2.cfg, rm[0]), lambda x: x is node_of(ff2.cfg, apn[0]))
            ctx.ob("C16-2", "G2", m, "reorder only", ok, "SoftTTLCache._touch_for_lru only moves a tracked key to the end of the order list")
            continue
        if not (adds or dels):
            continue
        both_add = ("self._cache" in adds) == ("self._access_order" in adds) or m.name in ()
        both_del = ("self._cache" in dels) == ("self._access_order" in dels) or (m.name == "_store" and dels == {"self._access_order"})
        ctx.ob("C16-2", "G2", m, "cache ⇔ access order", both_add and both_del and not m.is_generator,
               f"SoftTTLCache.{m.name} changes the cache dict and the LRU order list together (adds {sorted(adds)}, removes {sorted(dels)})")

    # the nine eviction policies
    base = prog.cls(EP, "CacheEvictionPolicy")
    pols = [c for c in prog.subclasses(base) if c.module.relpath == EP and c is not base]
    need(len(pols) >= 9, f"C16-2: expected 9 eviction policies, found {len(pols)}")
    for c in pols:
        init = c.methods.get("__init__")
        containers = set()
        if init:
            for st in walk_stmts(init.node.body):
                tgt = st.targets[0] if isinstance(st, ast.Assign) else st.target if isinstance(st, ast.AnnAssign) else None
                val = getattr(st, "value", None)
                if tgt is not None and val is not None and path_of(tgt) and path_of(tgt).startswith("self.") and _is_container_init(val):
                    containers.add(path_of(tgt))
        need(containers, f"C16-2: {c.name} has no tracking container")
        ops = {m: _container_ops(c.methods[m], containers) for m in ("on_access", "on_insert", "on_remove", "evict", "clear") if m in c.methods}
        need(len(ops) == 5, f"C16-2: {c.name} lacks one of the five policy methods")
        filled = ops["on_insert"][0] | ops["on_access"][0] | ops["evict"][0]
        ctx.ob("C16-2", "G4", c.methods["on_remove"], f"{c.name}: on_remove covers {sorted(filled)}", filled <= ops["on_remove"][1],
               f"{c.name}.on_remove removes the key from every container on_insert/on_access/evict can put it into (fills {sorted(filled)}, removes {sorted(ops['on_remove'][1])})")
        cleared = {path_of(k.func.value) for k in calls_in(c.methods["clear"].node) if isinstance(k.func, ast.Attribute) and k.func.attr == "clear"}
        ctx.ob("C16-2", "G4", c.methods["clear"], f"{c.name}: clear covers {sorted(containers)}", containers <= cleared, f"{c.name}.clear empties every tracking container")
        # evict: each returned key has been removed from a resident container on that path
        ev = c.methods["evict"]
        eff = ctx.flow(ev)
        resident = ops["on_insert"][0] | ops["on_access"][0]
        bad = []
        n_ret = 0
        for p in enumerate_paths(eff, eff.cfg.entry, unroll=1):
            if p.end != "exit":
                continue
            rets = [n.ast for n in p.nodes if n.kind == "stmt" and isinstance(n.ast, ast.Return)]
            if not rets or rets[-1].value is None or (isinstance(rets[-1].value, ast.Constant) and rets[-1].value.value is None):
                continue
            n_ret += 1
            rv = rets[-1].value
            name = path_of(rv)
            removed = False
            for n in p.nodes:
                for e in own_exprs(n):
                    for x in walk_scope(e):
                        if isinstance(x, ast.Call) and isinstance(x.func, ast.Attribute) and path_of(x.func.value) in resident and x.func.attr in DEL_OPS - {"clear"}:
                            removed = True
                if n.kind == "stmt" and isinstance(n.ast, ast.Delete) and any(isinstance(t, ast.Subscript) and path_of(t.value) in resident and path_of(t.slice) == name for t in n.ast.targets):
                    removed = True
            if not removed:
                bad.append(p.describe()[:160])
        ctx.ob("C16-2", "G2", ev, f"{c.name}: evicted key leaves the tracking state", n_ret > 0 and not bad,
               f"{c.name}.evict removes the key it returns from its resident container on every returning path" + ("" if not bad else " — " + bad[0]))


# ---------------------------------------------------------------------------------------------------------
# C16-3 dirty data
# ---------------------------------------------------------------------------------------------------------

def rule_dirty(ctx: Ctx) -> None:
    prog = ctx.prog
    cs = prog.cls(CS, "CachedStore")
    wb = prog.func(CS, "CachedStore._write_back_if_dirty")
    wff = ctx.flow(wb)
    puts = [c for c in calls_in(wb.node) if path_of(c.func) == "self._backing_store.put_sync"]
    ok = len(puts) == 1 and [unparse(a).replace(" ", "") for a in puts[0].args] == ["key", "self._cache[key]"] and not wb.is_generator
    if ok:
        pn = node_of(wff.cfg, puts[0])
        ok = wff.holds_at(pn, Fact("in", "key", "self._dirty_keys")) and wff.holds_at(pn, Fact("in", "key", "self._cache"))
    ctx.ob("C16-3", "G2", wb, puts[0] if puts else None, ok, "_write_back_if_dirty writes the cached value of a dirty key to the backing store synchronously")
    n_sites = 0
    for m in cs.methods.values():
        if m.name == "__init__":
            continue
        mf = ctx.flow(m)
        for c in calls_in(m.node):
            tgt = path_of(c.func)
            if tgt not in ("self._dirty_keys.discard", "self._dirty_keys.clear", "self._dirty_keys.remove", "self._dirty_keys.pop", "self._dirty_keys.difference_update"):
                continue
            n_sites += 1
            cn = node_of(mf.cfg, c)
            arg = path_of(c.args[0]) if c.args else None
            if m.name == "_write_back_if_dirty":
                ok = bool(puts) and not always_before(ctx, m, lambda x: x is node_of(wff.cfg, puts[0]), lambda x: x is cn) and arg == "key"
                what = "cleared right after the synchronous write-back"
            elif m.name == "_cache_remove":
                # callers: the user's delete, or invalidate after a write-back
                callers = method_callers(prog, m)
                okc = bool(callers)
                for caller, call in callers:
                    cf = ctx.flow(caller)
                    if caller.name == "delete":
                        continue
                    wbs = [k for k in calls_in(caller.node) if path_of(k.func) == "self._write_back_if_dirty" and [path_of(a) for a in k.args] == [path_of(a) for a in call.args]]
                    if not wbs or always_before(ctx, caller, lambda x: any(x is node_of(cf.cfg, k) for k in wbs), lambda x: x is node_of(cf.cfg, call)):
                        okc = False
                    if not _no_suspension_between(ctx, caller, lambda n: any(n is node_of(cf.cfg, k) for k in wbs), node_of(cf.cfg, call)):
                        okc = False
                ok = okc
                what = "reached only from delete() or after _write_back_if_dirty(key) in the same step"
            elif tgt.endswith(".clear"):
                # every dirty key was written back first: a loop over the dirty keys calling the write-back precedes
                loops = [s for s in walk_stmts(m.node.body) if isinstance(s, ast.For) and "self._dirty_keys" in unparse(s.iter)
                         and any(path_of(k.func) == "self._write_back_if_dirty" and [path_of(a) for a in k.args] == [path_of(s.target)] for k in calls_in(s))
                         and not any(isinstance(b, (ast.Break, ast.Continue, ast.Return)) for b in walk_stmts(s.body))]
                ok = len(loops) == 1 and not m.is_generator and not always_before(ctx, m, lambda x: x.kind == "for" and x.ast is loops[0], lambda x: x is cn)
                what = "all dirty keys are written back first"
            elif m.is_generator:
                # flush: after the suspension, the mark is cleared only if the value written is still the cached one
                wr = [k for k in calls_in(m.node) if path_of(k.func) == "self._backing_store.put" and k.args and path_of(k.args[0]) == arg]
                ok = len(wr) == 1 and not always_before(ctx, m, lambda x: x is node_of(mf.cfg, wr[0]), lambda x: x is cn)
                if ok:
                    val = path_of(wr[0].args[1])
                    bound = [s for s in walk_stmts(m.node.body) if isinstance(s, ast.Assign) and path_of(s.targets[0]) == val and unparse(s.value).replace(" ", "") == f"self._cache[{arg}]"]
                    same = [n for n in mf.cfg.nodes if n.kind == "test" and unparse(n.ast).replace(" ", "") in (f"self._cache[{arg}]is{val}", f"{val}isself._cache[{arg}]")]
                    gone = [n for n in mf.cfg.nodes if n.kind == "test" and unparse(n.ast).replace(" ", "") == f"{arg}notinself._cache"]
                    ok = len(bound) == 1 and bool(same)
                    if ok:
                        # on every path from the put to the discard, either "still the same value" was taken True or "no longer cached" was taken True
                        for p in enumerate_paths(mf, node_of(mf.cfg, wr[0]), stop=lambda x: x is cn):
                            if p.end == "stop" and p.nodes[-1] is cn:
                                t1 = any(n in same and l is not None and l[1] is True for n, l in zip(p.nodes, p.labels))
                                t2 = any(n in gone and l is not None and l[1] is True for n, l in zip(p.nodes, p.labels))
                                if not (t1 or t2):
                                    ok = False
                what = "after the write-back suspension the mark is cleared only if the written value is still the cached one"
            else:
                # synchronous site: preceded on every path by the write-back of the same key with no suspension possible
                wbs = [k for k in calls_in(m.node) if path_of(k.func) == "self._write_back_if_dirty" and [path_of(a) for a in k.args] == [arg]]
                ok = bool(wbs) and not always_before(ctx, m, lambda x: any(x is node_of(mf.cfg, k) for k in wbs), lambda x: x is cn)
                what = "preceded by _write_back_if_dirty of the same key"
            ctx.ob("C16-3", "G2", m, c, ok, f"CachedStore.{m.name}: a dirty mark is dropped only when the data is safe — {what}")
        # the cache entry of a possibly dirty key leaves the cache only after the write-back
        for c in calls_in(m.node):
            if path_of(c.func) == "self._cache.pop" and m.name == "_cache_put":
                arg = path_of(c.args[0])
                wbs = [k for k in calls_in(m.node) if path_of(k.func) == "self._write_back_if_dirty" and [path_of(a) for a in k.args] == [arg]]
                ok = bool(wbs) and not always_before(ctx, m, lambda x: any(x is node_of(mf.cfg, k) for k in wbs), lambda x: x is node_of(mf.cfg, c))
                ctx.ob("C16-3", "G2", m, c, ok, "CachedStore._cache_put: an evicted entry is written back (if dirty) before it leaves the cache")
    need(n_sites >= 4, f"C16-3: expected >= 4 dirty-mark removal sites in CachedStore, found {n_sites}")
    # no asynchronous store write of write-back data: a value captured before a suspension and sent with the suspending put() can land
    # after - and overwrite - a newer value written back synchronously meanwhile.  The only suspending store write is the write-through
    # branch of put(), which is announced as in flight.
    n_async = 0
    for m in cs.methods.values():
        mf = ctx.flow(m)
        for c in calls_in(m.node):
            if path_of(c.func) == "self._backing_store.put":
                n_async += 1
                ok = m.name == "put" and mf.holds_at(node_of(mf.cfg, c), Fact("truthy", "self._write_through"))
                ctx.ob("C16-3", "G5", m, c, ok, f"CachedStore.{m.name}: the suspending backing-store put is used only for write-through (write-back data is written with put_sync at the moment it lands, never from a value captured before a suspension)")
    fl = cs.methods["flush"]
    wbc = [c for c in calls_in(fl.node) if path_of(c.func) == "self._write_back_if_dirty"]
    lat = [n for n in ctx.flow(fl).cfg.nodes if n.kind == "stmt" and isinstance(n.ast, ast.Expr) and isinstance(n.ast.value, ast.Yield) and unparse(n.ast.value.value) == "self._backing_store.write_latency"]
    ok = len(wbc) == 1 and len(lat) == 1 and [path_of(a) for a in wbc[0].args] == [path_of([s for s in walk_stmts(fl.node.body) if isinstance(s, ast.For)][0].target)] \
        and not always_before(ctx, fl, lambda x: x is lat[0], lambda x: x is node_of(ctx.flow(fl).cfg, wbc[0])) and _no_suspension_between(ctx, fl, lambda n: n is lat[0], node_of(ctx.flow(fl).cfg, wbc[0]))
    ctx.ob("C16-3", "G5", fl, wbc[0] if wbc else None, ok, "CachedStore.flush pays the store's write latency and then writes back whatever is cached and still dirty at that moment")
    put = prog.func(CS, "CachedStore.put")
    pf = ctx.flow(put)
    adds = [c for c in calls_in(put.node) if path_of(c.func) == "self._dirty_keys.add"]
    ok = len(adds) == 1 and pf.holds_at(node_of(pf.cfg, adds[0]), Fact("falsy", "self._write_through"))
    thr = [c for c in calls_in(put.node) if path_of(c.func) == "self._backing_store.put"]
    ok = ok and len(thr) == 1 and pf.holds_at(node_of(pf.cfg, thr[0]), Fact("truthy", "self._write_through")) and [path_of(a) for a in thr[0].args] == ["key", "value"]
    ctx.ob("C16-3", "G2", put, adds[0] if adds else None, ok, "CachedStore.put: every write either goes through to the backing store (write-through) or is marked dirty (write-back)")
    # WriteBack policy object: marks dropped only for keys the caller flushed
    of = prog.func(WP, "WriteBack.on_flush")
    ok = all(isinstance(s, (ast.For, ast.Expr)) for s in of.node.body) and any(isinstance(s, ast.For) and path_of(s.iter) == "keys" and any(path_of(c.func) == "self._dirty_keys.pop" and path_of(c.args[0]) == path_of(s.target) for c in calls_in(s)) for s in of.node.body)
    others = [m.name for m in prog.cls(WP, "WriteBack").methods.values() if m.name not in ("__init__", "on_flush") and _container_ops(m, {"self._dirty_keys"})[1]]
    ctx.ob("C16-3", "G2", of, "WriteBack: marks dropped only by on_flush(keys)", ok and not others, "the WriteBack policy forgets a dirty key only when told it was flushed")

    # PageCache: every write-back suspension starts in the step that cleared the page's dirty flag (a write landing during the
    # write-back leaves the page dirty), and whatever is done to the page afterwards re-validates it
    pcls = prog.cls(PC, "PageCache")
    n_wb = 0
    for m in pcls.methods.values():
        if not m.is_generator:
            continue
        mf = ctx.flow(m)
        wbs = [n for n in mf.cfg.nodes if n.kind == "stmt" and isinstance(n.ast, ast.Expr) and isinstance(n.ast.value, ast.Yield) and path_of(n.ast.value.value) == "self._disk_write_latency_s"]
        for wn in wbs:
            n_wb += 1
            clr = [s2 for s2 in walk_stmts(m.node.body) if isinstance(s2, ast.Assign) and unparse(s2.targets[0]).endswith(".dirty") and isinstance(s2.value, ast.Constant) and s2.value.value is False]
            ok = len(clr) == 1
            if ok:
                cn = node_of(mf.cfg, clr[0])
                page = path_of(clr[0].targets[0].value)
                ok = mf.holds_at(cn, Fact("truthy", f"{page}.dirty")) and not always_before(ctx, m, lambda x: x is cn, lambda x: x is wn) \
                    and _no_suspension_between(ctx, m, lambda n: n is cn, wn)
            ctx.ob("C16-3", "G5", m, wn.ast, ok, f"PageCache.{m.name} clears a page's dirty flag in the step that starts its write-back (a write landing during the write-back leaves the page dirty)")
        # removals of a page: clean, and (after a suspension) still the very page that was examined
        for st in walk_stmts(m.node.body):
            if not (isinstance(st, ast.Delete) and isinstance(st.targets[0], ast.Subscript) and path_of(st.targets[0].value) == "self._pages"):
                continue
            pid = path_of(st.targets[0].slice)
            dn = node_of(mf.cfg, st)
            bad = []
            for p in enumerate_paths(mf, mf.cfg.entry, stop=lambda x: x is dn):
                if not (p.end == "stop" and p.nodes[-1] is dn):
                    continue
                # binding of (pid, page)
                bi = max((i for i, n in enumerate(p.nodes) if n.kind == "stmt" and isinstance(n.ast, ast.Assign) and isinstance(n.ast.targets[0], ast.Tuple) and pid in [path_of(e) for e in n.ast.targets[0].elts]), default=None)
                if bi is None:
                    bad.append("victim never bound")
                    continue
                page = [path_of(e) for e in p.nodes[bi].ast.targets[0].elts if path_of(e) != pid][0]
                last = max([bi] + [i for i, n in enumerate(p.nodes) if i > bi and node_suspension(prog, m, n)])
                after = list(zip(p.nodes[last + 1:], p.labels[last + 1:]))
                clean = any(n.kind == "test" and unparse(n.ast) == f"{page}.dirty" and l is not None and l[1] is False for n, l in after)
                same = last == bi or any(n.kind == "test" and unparse(n.ast).replace(" ", "") == f"self._pages.get({pid})isnot{page}" and l is not None and l[1] is False for n, l in after)
                if not (clean and same):
                    bad.append(f"[{p.describe()[:140]}] clean-checked={clean} identity-checked={same}")
            ctx.ob("C16-3", "G5", m, st, not bad, f"PageCache.{m.name} drops a page only if, after its last suspension, it is still the examined page and clean (its content is on disk)" + ("" if not bad else " — " + bad[0]))
    need(n_wb >= 2, f"C16-3: expected >= 2 write-back suspensions in PageCache, found {n_wb}")
    fl = prog.func(PC, "PageCache.flush")
    ff = ctx.flow(fl)
    idt = [n for n in ff.cfg.nodes if n.kind == "test" and unparse(n.ast).replace(" ", "") == "self._pages.get(page.page_id)ispage"]
    clr = [s2 for s2 in walk_stmts(fl.node.body) if isinstance(s2, ast.Assign) and unparse(s2.targets[0]).endswith(".dirty")]
    ok = len(idt) == 1 and len(clr) == 1 and not always_before(ctx, fl, lambda x: x is idt[0], lambda x: x.ast is clr[0])
    ctx.ob("C16-3", "G5", fl, clr[0] if clr else None, ok, "PageCache.flush writes back only pages that are still the cached object for their id (the snapshot may hold evicted pages)")
    loops = [s for s in walk_stmts(fl.node.body) if isinstance(s, ast.For) and "self._pages" in unparse(s.iter)]
    ok = len(loops) == 1 and isinstance(loops[0].iter, ast.Call) and path_of(loops[0].iter.func) in ("list", "tuple", "sorted")
    ctx.ob("C16-3", "G5", fl, loops[0] if loops else None, ok, "PageCache.flush iterates a snapshot of the pages (the dict changes while a write-back is suspended)")
    wp = prog.func(PC, "PageCache.write_page")
    wf = ctx.flow(wp)
    sets = [s for s in walk_stmts(wp.node.body) if isinstance(s, ast.Assign) and unparse(s.targets[0]).replace(" ", "") == "self._pages[page_id].dirty" and unparse(s.value) == "True"]
    news = [c for c in calls_in(wp.node) if path_of(c.func) == "_CachedPage" and any(k.arg == "dirty" and unparse(k.value) == "True" for k in c.keywords)]
    ctx.ob("C16-3", "G2", wp, sets[0] if sets else None, len(sets) == 1 and len(news) == 1, "PageCache.write_page marks the page dirty on both the hit and the miss path")


# ---------------------------------------------------------------------------------------------------------
# C16-4 stale fill
# ---------------------------------------------------------------------------------------------------------

def rule_fill(ctx: Ctx) -> None:
    prog = ctx.prog
    g = prog.func(CS, "CachedStore.get")
    gf = ctx.flow(g)
    fills = [c for c in calls_in(g.node) if path_of(c.func) == "self._cache_put"]
    need(len(fills) == 1, "C16-4: CachedStore.get should fill the cache at one site")
    fn_ = node_of(gf.cfg, fills[0])
    ok = gf.holds_at(fn_, Fact("notin", "key", "self._cache")) and gf.holds_at(fn_, Fact("notin", "key", "self._inflight_writes")) and gf.holds_at(fn_, Fact("isnot", "value", "None"))
    ctx.ob("C16-4", "G5", g, fills[0], ok,
           "CachedStore.get installs a fetched value only if, after the fetch, the key is still uncached and no write to it is on its way to the store" + ("" if ok else f" (facts: {gf.describe(fn_)})"))
    src = stmts_matching(g, "value = yield from self._backing_store.get(key)")
    ctx.ob("C16-4", "G7", g, src[0][0] if src else None, len(src) == 1 and [path_of(a) for a in fills[0].args] == ["key", "value"], "the value installed is the one fetched for that key")
    # in-flight bracket: every suspending backing-store write/delete in CachedStore.put/delete is bracketed by _begin_write/_end_write(key), the end in a finally
    for q in ("CachedStore.put", "CachedStore.delete"):
        m = prog.func(CS, q)
        mf = ctx.flow(m)
        for c in calls_in(m.node):
            if path_of(c.func) in ("self._backing_store.put", "self._backing_store.delete"):
                key = path_of(c.args[0])
                beg = [k for k in calls_in(m.node) if path_of(k.func) == "self._begin_write" and [path_of(a) for a in k.args] == [key]]
                tries = [s for s in walk_stmts(m.node.body) if isinstance(s, ast.Try) and any(c is x for b in s.body for x in ast.walk(b))
                         and any(path_of(k.func) == "self._end_write" and [path_of(a) for a in k.args] == [key] for b in s.finalbody for k in calls_in(b))]
                ok = len(beg) == 1 and len(tries) == 1 and not always_before(ctx, m, lambda x: x is node_of(mf.cfg, beg[0]), lambda x: x is node_of(mf.cfg, c))
                ok = ok and _no_suspension_between(ctx, m, lambda n: n is node_of(mf.cfg, beg[0]), node_of(mf.cfg, c))
                ctx.ob("C16-4", "G2", m, c, ok, f"{q}: the backing-store operation is announced with _begin_write(key) before it suspends and retired with _end_write(key) in a finally")
        # the cache is updated before the store write starts (so `key in cache` or `in flight` covers the whole window)
    bw = prog.func(CS, "CachedStore._begin_write")
    ew = prog.func(CS, "CachedStore._end_write")
    okb = len(stmts_matching(bw, "self._inflight_writes[key] = self._inflight_writes.get(key, 0) + 1")) == 1
    oke = len(stmts_matching(ew, "remaining = self._inflight_writes.get(key, 0) - 1")) == 1 and any(path_of(c.func) == "self._inflight_writes.pop" for c in calls_in(ew.node))
    ef = ctx.flow(ew)
    keep = [s for s in walk_stmts(ew.node.body) if isinstance(s, ast.Assign) and unparse(s.targets[0]).replace(" ", "") == "self._inflight_writes[key]"]
    oke = oke and len(keep) == 1 and ef.holds_at(node_of(ef.cfg, keep[0]), Fact("lt", "0", "remaining"))
    ctx.ob("C16-4", "G2", bw, "in-flight counter", okb and oke, "writes in flight are counted per key (+1 / −1, entry removed at zero) so overlapping writes to one key are all covered")
    # MultiTierCache promotion guard
    mg = prog.func(MT, "MultiTierCache.get")
    mf = ctx.flow(mg)
    pro = [c for c in calls_in(mg.node) if path_of(c.func) == "self._maybe_promote"]
    need(len(pro) == 1, "C16-4: MultiTierCache.get should promote at one site")
    pn = node_of(mf.cfg, pro[0])
    ok = mf.holds_at(pn, Fact("truthy", "tier.contains_cached(key)")) and [path_of(a) for a in pro[0].args][:2] == ["key", "value"]
    # the guard must have been evaluated after the tier read suspension
    reads = [n for n in mf.cfg.nodes if any(isinstance(x, ast.YieldFrom) and path_of(getattr(x.value, "func", None)) == "tier.get" for e in own_exprs(n) for x in walk_scope(e))]
    tests_after = False
    for r in reads:
        for p in enumerate_paths(mf, r, stop=lambda x: x is pn):
            if p.end == "stop" and p.nodes[-1] is pn:
                tests_after = any(n.kind == "test" and "tier.contains_cached(key)" in unparse(n.ast) for n in p.nodes[1:])
                if not tests_after:
                    ok = False
    ctx.ob("C16-4", "G5", mg, pro[0], ok and bool(reads) and tests_after, "MultiTierCache.get promotes a value read from a lower tier only if that tier still holds the key after the read (it was not invalidated by a concurrent put)")
    # store-first caches: backing store is written before the cache, no suspension between the store write landing and the cache update
    sp = prog.func(ST, "SoftTTLCache.put")
    sf = ctx.flow(sp)
    bput = [c for c in calls_in(sp.node) if path_of(c.func) == "self._backing_store.put"]
    sto = [c for c in calls_in(sp.node) if path_of(c.func) == "self._store"]
    ok = len(bput) == 1 and len(sto) == 1 and not always_before(ctx, sp, lambda x: x is node_of(sf.cfg, bput[0]), lambda x: x is node_of(sf.cfg, sto[0])) \
        and _no_suspension_between(ctx, sp, lambda n: n is node_of(sf.cfg, bput[0]), node_of(sf.cfg, sto[0])) and [path_of(a) for a in sto[0].args] == [path_of(a) for a in bput[0].args] == ["key", "value"]
    ctx.ob("C16-4", "G2", sp, sto[0] if sto else None, ok, "SoftTTLCache.put writes the store first and the cache in the step the store write returns (the cache is never newer than the store, so unguarded fills are safe)")
    mp = prog.func(MT, "MultiTierCache.put")
    mpf = ctx.flow(mp)
    bput = [c for c in calls_in(mp.node) if path_of(c.func) == "self._backing_store.put"]
    inv = [c for c in calls_in(mp.node) if path_of(c.func) == "tier.invalidate"]
    l1 = [c for c in calls_in(mp.node) if unparse(c.func).replace(" ", "") == "self._tiers[0].put"]
    ok = len(bput) == 1 and len(inv) == 1 and len(l1) == 1
    if ok:
        b, i, l = (node_of(mpf.cfg, x[0]) for x in (bput, inv, l1))
        lp = [s for s in walk_stmts(mp.node.body) if isinstance(s, ast.For) and path_of(s.iter) == "self._tiers" and any(inv[0] is x for x in ast.walk(s))]
        ok = len(lp) == 1 and not any(isinstance(x, (ast.Break, ast.Continue, ast.Return)) for x in walk_stmts(lp[0].body))
        # (the loop header stands for "all tiers invalidated": the body runs once per tier, unconditionally but for the hasattr probe)
        ok = ok and not always_before(ctx, mp, lambda x: x is b, lambda x: x is i) and not always_before(ctx, mp, lambda x: x.kind == "for" and x.ast is lp[0], lambda x: x is l) \
            and _no_suspension_between(ctx, mp, lambda n: n is b, i) and _no_suspension_between(ctx, mp, lambda n: n is b, l)
    ctx.ob("C16-4", "G2", mp, inv[0] if inv else None, ok, "MultiTierCache.put writes the store, then invalidates the key in every tier and starts the L1 write in that same step")
    md = prog.func(MT, "MultiTierCache.delete")
    mdf = ctx.flow(md)
    bdel = [n for n in mdf.cfg.nodes if any(isinstance(c, ast.Call) and path_of(c.func) == "self._backing_store.delete" for e in own_exprs(n) for c in walk_scope(e))]
    invs = [n for n in mdf.cfg.nodes if any(isinstance(c, ast.Call) and path_of(c.func) == "tier.invalidate" for e in own_exprs(n) for c in walk_scope(e))]
    ok = len(bdel) == 1
    after = []
    if ok:
        # an invalidation loop that every path reaches after the store delete, with nothing suspending in between
        lps = [s for s in md.node.body if isinstance(s, ast.For) and path_of(s.iter) == "self._tiers" and any(path_of(c.func) == "tier.invalidate" for c in calls_in(s))
               and not any(isinstance(x, (ast.Break, ast.Continue, ast.Return)) for x in walk_stmts(s.body))]
        after = [l for l in lps if not always_before(ctx, md, lambda x: x is bdel[0], lambda x, l=l: x.kind == "for" and x.ast is l)]
        ok = len(after) >= 1 and all(_no_suspension_between(ctx, md, lambda n: n is bdel[0], [x for x in mdf.cfg.nodes if x.kind == "for" and x.ast is l][0]) for l in after)
        # and every exit of the function passes it
        if ok:
            heads = [x for x in mdf.cfg.nodes if x.kind == "for" and any(x.ast is l for l in after)]
            for p in enumerate_paths(mdf, bdel[0]):
                if p.end == "exit" and not any(n in heads for n in p.nodes):
                    ok = False
    ctx.ob("C16-4", "G5", md, after[0] if after else None, ok, "MultiTierCache.delete invalidates every tier in the step the backing delete lands (a get inside the delete's window may have re-cached the value)")
    # fills of the store-first caches happen in the step the fetch returns
    for rel, q, fetch, fill in ((ST, "SoftTTLCache.get", "self._backing_store.get", "self._store"), (ST, "SoftTTLCache.handle_event", "self._backing_store.get", "self._store"),
                                (MT, "MultiTierCache.get", "self._backing_store.get", "self._cache_value")):
        m = prog.func(rel, q)
        f2 = ctx.flow(m)
        fe = [c for c in calls_in(m.node) if path_of(c.func) == fetch]
        fi = [c for c in calls_in(m.node) if path_of(c.func) == fill]
        ok = len(fe) == 1 and len(fi) == 1 and not always_before(ctx, m, lambda x: x is node_of(f2.cfg, fe[0]), lambda x: x is node_of(f2.cfg, fi[0])) \
            and _no_suspension_between(ctx, m, lambda n: n is node_of(f2.cfg, fe[0]), node_of(f2.cfg, fi[0])) and [path_of(a) for a in fi[0].args] == ["key", "value"]
        ctx.ob("C16-4", "G5", m, fi[0] if fi else None, ok, f"{q}: the fetched value is cached in the step the fetch returns, with nothing suspending in between")


# ---------------------------------------------------------------------------------------------------------
# C16-5 soft-TTL serve guard
# ---------------------------------------------------------------------------------------------------------

def rule_serve(ctx: Ctx) -> None:
    prog = ctx.prog
    for q, cmp_attr in (("CacheEntry.is_fresh", "soft_ttl"), ("CacheEntry.is_valid", "hard_ttl")):
        m = prog.func(ST, q)
        age = stmts_matching(m, "age = now - self.cached_at")
        rets = [s for s in walk_stmts(m.node.body) if isinstance(s, ast.Return)]
        ok = len(age) == 1 and len(rets) == 1 and {f.sig for f in atoms(rets[0].value, True)} == {("lt", "age", cmp_attr)}
        ctx.ob("C16-5", "G3", m, rets[0] if rets else None, ok, f"{q}: usable ⇔ now − cached_at < {cmp_attr}")
    ctor = prog.func(ST, "SoftTTLCache.__init__")
    chk = [s for s in walk_stmts(ctor.node.body) if isinstance(s, ast.If) and {f.sig for f in atoms(s.test, True)} == {("lt", "self._hard_ttl", "self._soft_ttl")} and any(isinstance(b, ast.Raise) for b in s.body)]
    ctx.ob("C16-5", "G1", ctor, chk[0] if chk else None, len(chk) == 1, "soft_ttl <= hard_ttl is enforced (a fresh entry is therefore also within the hard TTL)")
    sto = prog.func(ST, "SoftTTLCache._store")
    mk = [c for c in calls_in(sto.node) if path_of(c.func) == "CacheEntry"]
    kw = {k.arg: unparse(k.value) for k in mk[0].keywords} if len(mk) == 1 else {}
    ctx.ob("C16-5", "G7", sto, mk[0] if mk else None, kw.get("cached_at") == "self.now" and kw.get("value") == "value", "an entry is stamped with the clock at the moment it is stored")
    # who writes cached_at
    for fn in prog.all_functions("happysimulator/components/datastore/"):
        for st in walk_stmts(fn.node.body):
            if isinstance(st, (ast.Assign, ast.AugAssign)):
                for t in (st.targets if isinstance(st, ast.Assign) else [st.target]):
                    if isinstance(t, ast.Attribute) and t.attr == "cached_at":
                        ctx.ob("C16-5", "G6", fn, st, False, "cached_at of an entry is rewritten after creation (an old value would look young)")
    g = prog.func(ST, "SoftTTLCache.get")
    gf = ctx.flow(g)
    rets = [n for n in gf.cfg.nodes if n.kind == "stmt" and isinstance(n.ast, ast.Return) and isinstance(n.ast.value, ast.Attribute) and n.ast.value.attr == "value"]
    need(len(rets) >= 3, f"C16-5: expected >= 3 `return <entry>.value` sites in SoftTTLCache.get, found {len(rets)}")
    for rn in rets:
        ent = path_of(rn.ast.value.value)
        bad = []
        for p in enumerate_paths(gf, gf.cfg.entry, stop=lambda x: x is rn):
            if not (p.end == "stop" and p.nodes[-1] is rn):
                continue
            # last binding of the entry, last binding of each clock name, the validity tests taken True
            bind_i = max((i for i, n in enumerate(p.nodes) if n.kind == "stmt" and isinstance(n.ast, ast.Assign) and path_of(n.ast.targets[0]) == ent), default=None)
            if bind_i is None:
                bad.append(f"[{p.describe()[:120]}] entry never bound")
                continue
            okp = False
            for i, (n, l) in enumerate(zip(p.nodes, p.labels)):
                if i <= bind_i or n.kind != "test" or l is None or l[1] is not True:
                    continue
                for c in walk_scope(n.ast):
                    if isinstance(c, ast.Call) and isinstance(c.func, ast.Attribute) and c.func.attr in ("is_fresh", "is_valid") and path_of(c.func.value) == ent and len(c.args) == 2:
                        ttl = path_of(c.args[1])
                        if (c.func.attr, ttl) not in (("is_fresh", "self._soft_ttl"), ("is_valid", "self._hard_ttl")):
                            continue
                        clk = c.args[0]
                        if path_of(clk) == "self.now":
                            fresh_clock = True
                        else:
                            # a local: bound from self.now with no suspension between that binding and the entry binding .. the test
                            cb = max((j for j, m_ in enumerate(p.nodes[:i]) if m_.kind == "stmt" and isinstance(m_.ast, ast.Assign) and path_of(m_.ast.targets[0]) == path_of(clk) and path_of(m_.ast.value) == "self.now"), default=None)
                            fresh_clock = cb is not None and not any(node_suspension(prog, g, m_) for m_ in p.nodes[cb:i])
                        # nothing suspends between the entry binding and the test (the entry object tested is the one looked up in this step)
                        atomic = not any(node_suspension(prog, g, m_) for m_ in p.nodes[bind_i:i])
                        if fresh_clock and atomic:
                            okp = True
            if not okp:
                bad.append(f"[{p.describe()[:160]}]")
        ctx.ob("C16-5", "G1", g, rn.ast, not bad, "SoftTTLCache.get returns an entry's value only if that entry, as looked up in this step, passed is_fresh(soft)/is_valid(hard) against the current clock"
               + ("" if not bad else " — unguarded path " + bad[0]))
    # the coalesced branch re-reads the entry after its wait
    cn = [n for n in gf.cfg.nodes if n.kind == "stmt" and isinstance(n.ast, ast.Return) and isinstance(n.ast.value, ast.Name) and n.ast.value.id == "value"]
    ctx.ob("C16-5", "G7", g, "hard miss returns the fetched value", len(cn) == 1, "on a hard miss the value returned is the one just fetched")


def rule_refresh_marker(ctx: Ctx) -> None:
    """C16-5: a key is marked "refresh in progress" when the background refresh is scheduled and readers of an expired entry wait for it
    (coalescing).  The handler of the refresh event therefore clears the marker on *every* way out — value found, key gone from the backing
    store, exception from the store — else the key is never refreshed again and, past the hard TTL, every read returns nothing."""
    prog = ctx.prog
    he = prog.func(ST, "SoftTTLCache.handle_event")
    ff = ctx.flow(he)
    adds = [c for f_ in prog.module(ST).all_functions for c in calls_in(f_.node) if path_of(c.func) == "self._refreshing_keys.add"]
    need(adds, "C16-5: nothing marks a key as being refreshed")
    clears = [n_ for n_ in ff.cfg.nodes if n_.kind == "stmt" and any(path_of(k.func) in ("self._refreshing_keys.discard", "self._refreshing_keys.remove") for k in calls_in(n_.ast))]
    bad = []
    n_paths = 0
    for p_ in enumerate_paths(ff, ff.cfg.entry):
        if p_.decided(lambda t: t in ("event.event_type=='_sttl_refresh'", "'_sttl_refresh'==event.event_type")) is not True:
            continue
        n_paths += 1
        if not any(any(nd is c_ for c_ in clears) for nd in p_.nodes):
            bad.append(f"[{p_.describe()[:90]}] ends by {p_.end}")
    # exceptional exits: a suspension inside the refresh branch (the backing store may raise, the process may be dropped) is covered by a
    # `finally` that clears the marker
    def _clears(body):
        return any(path_of(k.func) in ("self._refreshing_keys.discard", "self._refreshing_keys.remove") for st_ in body for k in calls_in(st_))
    branch = [s_ for s_ in walk_stmts(he.node.body) if isinstance(s_, ast.If) and "_sttl_refresh" in unparse(s_.test)]
    uncovered = []
    for br in branch:
        covered = {id(y) for t_ in walk_stmts(br.body) if isinstance(t_, ast.Try) and _clears(t_.finalbody) for b_ in t_.body for y in ast.walk(b_)}
        for y in [y for b_ in br.body for y in ast.walk(b_) if isinstance(y, (ast.Yield, ast.YieldFrom))]:
            if id(y) not in covered:
                uncovered.append(f"`{unparse(y)[:50]}` at line {y.lineno}")
    ctx.ob("C16-5", "G2", he, clears[0].ast if clears else None, n_paths >= 2 and not bad and len(branch) == 1 and not uncovered, "SoftTTLCache: the refresh handler clears the in-progress marker on every exit of the "
           "refresh branch, normal or exceptional" + ("" if not bad else " — " + bad[0]) + ("" if not uncovered else " — suspension not covered by a clearing `finally`: " + uncovered[0]))


def rule_victim_search_attained(ctx: Ctx) -> None:
    """C16-2: a policy's evict() must name a victim whenever it tracks a key (the cache stops evicting on None and then inserts above
    capacity).  Where the victim is found by *searching* the tracked container for an entry equal to a threshold, the threshold is the
    min/max of that very container at that moment — a remembered value (`self._min_count`) may no longer be attained by any entry."""
    prog = ctx.prog
    n = 0
    for c in prog.module(EP).classes.values():
        ev = c.methods.get("evict")
        if ev is None:
            continue
        sd = single_defs(ev)
        for lp in [s_ for s_ in walk_stmts(ev.node.body) if isinstance(s_, ast.For)]:
            cont = lp.iter
            while isinstance(cont, ast.Call) and isinstance(cont.func, ast.Attribute) and cont.func.attr in ("items", "values", "keys"):
                cont = cont.func.value
            cpath = path_of(cont)
            if not cpath or not cpath.startswith("self."):
                continue
            for t_ in [x for b_ in lp.body for x in ast.walk(b_) if isinstance(x, ast.If)]:
                # the search ends at the match: `return key` inside the loop, or `break` (the victim is then handled after the loop)
                if not any((isinstance(y, ast.Return) and y.value is not None) or isinstance(y, ast.Break) for b2 in t_.body for y in ast.walk(b2)):
                    continue
                cmp_ = t_.test
                if not (isinstance(cmp_, ast.Compare) and len(cmp_.ops) == 1 and isinstance(cmp_.ops[0], ast.Eq)):
                    continue
                loopvars = {y.id for y in ast.walk(lp.target) if isinstance(y, ast.Name)}
                thr = [e_ for e_ in (cmp_.left, cmp_.comparators[0]) if not (isinstance(e_, ast.Name) and e_.id in loopvars)]
                if len(thr) != 1:
                    continue
                n += 1
                te = expand(thr[0], sd)
                ok = isinstance(te, ast.Call) and path_of(te.func) in ("min", "max") and len(te.args) == 1 and cpath in unparse(te.args[0]) and not te.keywords
                ctx.ob("C16-2", "G7", ev, t_, ok, f"{c.name}.evict searches `{cpath}` for an entry equal to `{unparse(te)[:60]}`: the threshold is the min/max of the container being searched, "
                       "so a non-empty container always yields a victim")
    need(n >= 1, "C16-2: no threshold search found in any eviction policy (LFU expected)")


def rule_hunted(ctx: Ctx) -> None:
    """Rules distilled from hunted defects (C16-3/C16-4).
    (a) `CachedStore.delete` writes a dirty value back before it drops the entry (until the backing delete lands, reads fall through to
        the backing store and must not see a value older than an acknowledged write);
    (b) after the backing delete has landed, a cache entry for the key that is clean and has no write in flight is dropped (it was
        re-created during the delete and wiped from the backing store by it);
    (c) a fill of L1 from a backing fetch in MultiTierCache never replaces an entry L1 already holds or is writing;
    (d) a SoftTTLCache reader that waited for somebody else's refresh never answers "no such key" without having asked the backing store."""
    from ..suspend import node_suspension

    prog = ctx.prog
    d = prog.func(CS, "CachedStore.delete")
    df = ctx.flow(d)
    susp = [n_ for n_ in df.cfg.nodes if n_.kind in ("stmt", "test", "for", "with") and node_suspension(prog, d, n_)]
    need(susp, "C16-3: CachedStore.delete no longer suspends on the backing store")
    rem = [n_ for n_ in df.cfg.nodes if n_.kind == "stmt" and any(path_of(k.func) == "self._cache_remove" for k in calls_in(n_.ast))]
    wb = [n_ for n_ in df.cfg.nodes if n_.kind == "stmt" and any(path_of(k.func) == "self._write_back_if_dirty" for k in calls_in(n_.ast))]
    after_ids: set[int] = set()
    todo = list(susp)
    while todo:
        x_ = todo.pop()
        for y_, _l in x_.succ:
            if y_.id not in after_ids:
                after_ids.add(y_.id)
                todo.append(y_)
    before = [r_ for r_ in rem if r_.id not in after_ids]   # removals that precede the suspension on the backing store
    ok_a = bool(before) and all(not always_before(ctx, d, lambda x: any(x is w_ for w_ in wb), lambda x, r_=r_: x is r_) for r_ in before)
    ctx.ob("C16-3", "G2", d, before[0].ast if before else None, ok_a, "CachedStore.delete: a (possibly dirty) entry leaves the cache only after `_write_back_if_dirty(key)` — the pending value reaches the backing store before reads start falling through to it")
    after = [r_ for r_ in rem if r_ not in before]
    ok_b = len(after) == 1 and df.holds_at(after[0], Fact("in", "key", "self._cache")) and df.holds_at(after[0], Fact("notin", "key", "self._dirty_keys")) and df.holds_at(after[0], Fact("notin", "key", "self._inflight_writes"))
    ctx.ob("C16-3", "G1", d, after[0].ast if after else None, ok_b, "CachedStore.delete: once the backing delete has landed, an entry re-created meanwhile is dropped iff it is clean and no write for the key is in flight "
           "(its value was wiped from the backing store by this delete)")
    cv = prog.func(MT, "MultiTierCache._cache_value")
    cf = ctx.flow(cv)
    puts = [n_ for n_ in cf.cfg.nodes if n_.kind == "stmt" and any(isinstance(k.func, ast.Attribute) and k.func.attr == "_cache_put" for k in calls_in(n_.ast))]
    ok_c = len(puts) == 1
    if ok_c:
        for p_ in enumerate_paths(cf, cf.cfg.entry, stop=lambda x: x is puts[0]):
            if not (p_.end == "stop" and p_.nodes[-1] is puts[0]):
                continue
            held = p_.decided(lambda t: t == "target_tier.contains_cached(key)")
            can_tell = p_.decided(lambda t: t == "hasattr(target_tier,'contains_cached')")
            writing = p_.decided(lambda t: "_inflight_writes" in t and t.startswith("keyin"))
            if not ((held is False or can_tell is False) and writing is False):
                ok_c = False
    ctx.ob("C16-4", "G1", cv, puts[0].ast if puts else None, ok_c, "MultiTierCache._cache_value fills L1 from a backing fetch only if L1 neither holds the key nor has a write for it in flight (the fetch may predate a put)")
    g = prog.func(ST, "SoftTTLCache.get")
    gf = ctx.flow(g)
    bad = []
    for p_ in enumerate_paths(gf, gf.cfg.entry):
        if p_.end != "exit" or p_.decided(lambda t: t == "keyinself._refreshing_keys") is not True:
            continue
        rets = [n_ for n_ in p_.nodes if n_.kind == "stmt" and isinstance(n_.ast, ast.Return)]
        fetched = any(n_.kind == "stmt" and any(isinstance(y, ast.YieldFrom) and path_of(getattr(y.value, "func", None)) == "self._backing_store.get" for y in ast.walk(n_.ast)) for n_ in p_.nodes)
        rv = rets[-1].ast.value if rets else None
        none_ret = rv is None or (isinstance(rv, ast.Constant) and rv.value is None)
        if none_ret and not fetched:
            bad.append(p_.describe()[-80:])
    ctx.ob("C16-5", "G1", g, "coalesced reader", not bad, "SoftTTLCache.get: a reader that waited for an in-progress refresh returns the refreshed entry or fetches the key itself — it never reports a miss it has not verified"
           + ("" if not bad else " — " + bad[0]))


def run(ctx: Ctx) -> None:
    ctx.guarded(rule_hunted)
    ctx.guarded(rule_victim_search_attained)
    ctx.guarded(rule_refresh_marker)
    rule_capacity(ctx)
    rule_pairing(ctx)
    rule_dirty(ctx)
    rule_fill(ctx)
    rule_serve(ctx)
    for r, k in (("C16-1", 8), ("C16-2", 35), ("C16-3", 12), ("C16-4", 11), ("C16-5", 8)):
        ctx.floor(r, k)


MUTANTS = [
    ("delete-drops-dirty-without-writeback", CS, '            # Push a pending (write-back) value out first: until the delete lands,\n            # reads fall through to the backing store and must not be served a\n            # value older than this already acknowledged write.\n            self._write_back_if_dirty(key)\n', "", "C16-3"),
    ("delete-reconcile-ignores-inflight", CS, "            and key not in self._inflight_writes\n", "", "C16-3"),
    ("multitier-fill-unguarded", MT, "                if hasattr(target_tier, \"contains_cached\") and target_tier.contains_cached(key):\n                    return\n", "", "C16-4"),
    ("softttl-coalesced-returns-none", ST, "            # The refreshed entry is not (or no longer) there: evicted, invalidated,\n", "            return None\n            # The refreshed entry is not (or no longer) there: evicted, invalidated,\n", "C16-5"),
    ("lfu-evict-trusts-remembered-minimum", EP, "        min_count = min(self._counts.values())\n", "        min_count = self._min_count or min(self._counts.values())\n", "C16-2"),
    ("softttl-marker-kept-when-key-gone", ST, '            try:\n                value = yield from self._backing_store.get(key)\n                if value is not None:\n                    self._store(key, value)\n                    self._refresh_successes += 1\n            finally:\n                self._refreshing_keys.discard(key)\n', '            value = yield from self._backing_store.get(key)\n            if value is None:\n                return None\n            self._store(key, value)\n            self._refresh_successes += 1\n            self._refreshing_keys.discard(key)\n', "C16-5"),
    ("softttl-marker-kept-on-store-error", ST, '            try:\n                value = yield from self._backing_store.get(key)\n                if value is not None:\n                    self._store(key, value)\n                    self._refresh_successes += 1\n            finally:\n                self._refreshing_keys.discard(key)\n', '            value = yield from self._backing_store.get(key)\n            if value is not None:\n                self._store(key, value)\n                self._refresh_successes += 1\n            self._refreshing_keys.discard(key)\n', "C16-5"),
    ("readahead-overwrites-cached-page", PC, "                if ahead_id not in self._pages and len(self._pages) < self._capacity:\n                    self._pages[ahead_id]", "                if len(self._pages) < self._capacity:\n                    self._pages[ahead_id]", "C16-3"),
    # capacity
    ("cachedstore-evict-off-by-one", CS, "            while len(self._cache) >= self._cache_capacity:", "            while len(self._cache) > self._cache_capacity:", "C16-1"),
    ("cachedstore-evict-once", CS, "                self._dirty_keys.discard(evict_key)\n                self._evictions += 1\n", "                self._dirty_keys.discard(evict_key)\n                self._evictions += 1\n                break\n", "C16-1"),
    ("cachedstore-victim-not-removed", CS, "                self._cache.pop(evict_key, None)\n", "", "C16-1"),
    ("softttl-evict-off-by-one", ST, "            while len(self._cache) >= self._cache_capacity:", "            while len(self._cache) > self._cache_capacity:", "C16-1"),
    ("softttl-evict-keeps-cache-entry", ST, "            self._cache.pop(lru_key, None)\n", "", "C16-1"),
    ("pagecache-load-suspends-after-room", PC, "        yield self._disk_read_latency_s\n        if page_id in self._pages:\n            return  # loaded or written by someone else while we were reading\n        # Make room only once the data is here: no suspension may separate the\n        # final capacity check in _ensure_space() from the insertion.\n        yield from self._ensure_space()\n",
     "        yield from self._ensure_space()\n        yield self._disk_read_latency_s\n", "C16-1"),
    ("pagecache-readahead-no-recheck", PC, "                if ahead_id not in self._pages and len(self._pages) < self._capacity:\n                    self._pages[ahead_id]", "                if ahead_id not in self._pages:\n                    self._pages[ahead_id]", "C16-1"),
    ("pagecache-ensure-space-off-by-one", PC, "        while len(self._pages) >= self._capacity:", "        while len(self._pages) > self._capacity:", "C16-1"),
    # pairing
    ("cachedstore-insert-not-notified", CS, "            self._eviction_policy.on_insert(key)\n        else:\n            self._eviction_policy.on_access(key)", "            pass\n        else:\n            self._eviction_policy.on_access(key)", "C16-2"),
    ("cachedstore-remove-not-notified", CS, "        self._dirty_keys.discard(key)\n        self._eviction_policy.on_remove(key)", "        self._dirty_keys.discard(key)", "C16-2"),
    ("cachedstore-invalidate-pops-directly", CS, "        if key in self._cache:\n            self._write_back_if_dirty(key)\n            self._cache_remove(key)", "        if key in self._cache:\n            self._write_back_if_dirty(key)\n            self._cache.pop(key, None)", "C16-2"),
    ("cachedstore-invalidate-all-keeps-policy", CS, "        self._dirty_keys.clear()\n        self._eviction_policy.clear()", "        self._dirty_keys.clear()", "C16-2"),
    ("softttl-invalidate-keeps-order", ST, "            del self._cache[key]\n            if key in self._access_order:\n                self._access_order.remove(key)", "            del self._cache[key]", "C16-2"),
    ("slru-remove-forgets-protected", EP, "        self._probationary.pop(key, None)\n        self._protected.pop(key, None)", "        self._probationary.pop(key, None)", "C16-2"),
    ("twoq-clear-keeps-ghosts", EP, "        self._a1in.clear()\n        self._a1out.clear()", "        self._a1in.clear()", "C16-2"),
    ("clock-remove-keeps-refbit", EP, "            self._keys.remove(key)\n            del self._ref_bits[key]\n            # Adjust hand if needed", "            self._keys.remove(key)\n            # Adjust hand if needed", "C16-2"),
    ("lru-evict-keeps-key", EP, "        key = next(iter(self._order))\n        del self._order[key]", "        key = next(iter(self._order))", "C16-2"),
    ("sampled-evict-keeps-key", EP, "        del self._access_times[lru_key]\n        return lru_key", "        return lru_key", "C16-2"),
    # dirty
    ("evict-drops-dirty", CS, "                self._write_back_if_dirty(evict_key)\n", "", "C16-3"),
    ("invalidate-drops-dirty", CS, "        if key in self._cache:\n            self._write_back_if_dirty(key)\n            self._cache_remove(key)", "        if key in self._cache:\n            self._cache_remove(key)", "C16-3"),
    ("invalidate-all-drops-dirty", CS, "        for key in sorted(self._dirty_keys):\n            self._write_back_if_dirty(key)\n        self._cache.clear()", "        self._cache.clear()", "C16-3"),
    ("flush-sends-captured-value", CS, "            yield self._backing_store.write_latency\n            if self._write_back_if_dirty(key):\n                flushed += 1", "            value = self._cache[key]\n            yield from self._backing_store.put(key, value)\n            if key not in self._cache or self._cache[key] is value:\n                self._dirty_keys.discard(key)\n            flushed += 1", "C16-3"),
    ("flush-writes-before-latency", CS, "            yield self._backing_store.write_latency\n            if self._write_back_if_dirty(key):\n                flushed += 1", "            if self._write_back_if_dirty(key):\n                flushed += 1\n            yield self._backing_store.write_latency", "C16-3"),
    ("multitier-delete-single-invalidation", MT, "        store_existed = yield from self._backing_store.delete(key)\n\n        # Invalidate again now that the delete has landed: a get() that ran while\n        # it was in flight missed every tier, still found the value in the backing\n        # store and cached it in L1, which would be served from then on.\n        for tier in self._tiers:\n            if hasattr(tier, \"invalidate\"):\n                tier.invalidate(key)\n", "        store_existed = yield from self._backing_store.delete(key)\n", "C16-4"),
    ("writeback-mark-before-write", CS, "            self._backing_store.put_sync(key, self._cache[key])\n            self._dirty_keys.discard(key)", "            self._dirty_keys.discard(key)\n            if False:\n                self._backing_store.put_sync(key, self._cache[key])", "C16-3"),
    ("put-writeback-not-marked", CS, "            self._dirty_keys.add(key)\n            yield self._cache_read_latency  # Just cache write latency", "            yield self._cache_read_latency  # Just cache write latency", "C16-3"),
    ("pagecache-flush-clears-after-writeback", PC, "                page.dirty = False\n                yield self._disk_write_latency_s\n                self._dirty_writebacks += 1\n                flushed += 1", "                yield self._disk_write_latency_s\n                page.dirty = False\n                self._dirty_writebacks += 1\n                flushed += 1", "C16-3"),
    ("pagecache-evict-no-revalidation", PC, "            if (\n                self._pages.get(oldest_id) is not oldest\n                or oldest.dirty\n                or next(iter(self._pages)) != oldest_id\n            ):\n                return\n", "", "C16-3"),
    ("pagecache-evict-ignores-redirty", PC, "                self._pages.get(oldest_id) is not oldest\n                or oldest.dirty\n                or next", "                self._pages.get(oldest_id) is not oldest\n                or next", "C16-3"),
    ("pagecache-evict-flag-after-writeback", PC, "            oldest.dirty = False\n            yield self._disk_write_latency_s\n", "            yield self._disk_write_latency_s\n            oldest.dirty = False\n", "C16-3"),
    ("pagecache-flush-live-iteration", PC, "        for page in list(self._pages.values()):", "        for page in self._pages.values():", "C16-3"),
    # stale fill
    ("fill-ignores-inflight-writes", CS, "        if value is not None and key not in self._cache and key not in self._inflight_writes:", "        if value is not None and key not in self._cache:", "C16-4"),
    ("fill-overwrites-cached", CS, "        if value is not None and key not in self._cache and key not in self._inflight_writes:", "        if value is not None and key not in self._inflight_writes:", "C16-4"),
    ("put-write-not-announced", CS, "            self._begin_write(key)\n            try:\n                yield from self._backing_store.put(key, value)\n            finally:\n                self._end_write(key)", "            yield from self._backing_store.put(key, value)", "C16-4"),
    ("delete-end-write-not-in-finally", CS, "        self._begin_write(key)\n        try:\n            existed_in_store = yield from self._backing_store.delete(key)\n        finally:\n            self._end_write(key)", "        self._begin_write(key)\n        existed_in_store = yield from self._backing_store.delete(key)\n        self._end_write(key)", "C16-4"),
    ("end-write-drops-overlapping", CS, "        if remaining > 0:\n            self._inflight_writes[key] = remaining\n        else:\n            self._inflight_writes.pop(key, None)", "        self._inflight_writes.pop(key, None)", "C16-4"),
    ("multitier-promote-unguarded", MT, "                    if tier_idx > 0 and tier.contains_cached(key):", "                    if tier_idx > 0:", "C16-4"),
    ("softttl-put-cache-first", ST, "        yield from self._backing_store.put(key, value)\n        # Then update cache\n        self._store(key, value)", "        self._store(key, value)\n        yield from self._backing_store.put(key, value)", "C16-4"),
    ("multitier-put-invalidates-before-store", MT, ["        # Write to backing store\n        yield from self._backing_store.put(key, value)\n\n        # Update L1 cache (highest priority)\n        if self._tiers:\n            # Invalidate from all tiers first\n            for tier in self._tiers:\n                if hasattr(tier, \"invalidate\"):\n                    tier.invalidate(key)\n"],
     ["        # Update L1 cache (highest priority)\n        if self._tiers:\n            # Invalidate from all tiers first\n            for tier in self._tiers:\n                if hasattr(tier, \"invalidate\"):\n                    tier.invalidate(key)\n        # Write to backing store\n        yield from self._backing_store.put(key, value)\n        if self._tiers:\n"], "C16-4"),
    ("softttl-refresh-pays-latency-before-store", ST, "                if value is not None:\n                    self._store(key, value)\n                    self._refresh_successes += 1", "                if value is not None:\n                    yield self._cache_read_latency\n                    self._store(key, value)\n                    self._refresh_successes += 1", "C16-4"),
    # serve guard
    ("coalesced-serves-unchecked", ST, "            if entry is not None and entry.is_valid(self.now, self._hard_ttl):\n                return entry.value", "            if entry is not None:\n                return entry.value", "C16-5"),
    ("coalesced-checks-with-old-clock", ST, "            if entry is not None and entry.is_valid(self.now, self._hard_ttl):", "            if entry is not None and entry.is_valid(now, self._hard_ttl):", "C16-5"),
    ("stale-zone-unbounded", ST, "            if entry.is_valid(now, self._hard_ttl):\n                self._stale_hits += 1", "            if True:\n                self._stale_hits += 1", "C16-5"),
    ("fresh-uses-hard-ttl", ST, "            if entry.is_fresh(now, self._soft_ttl):", "            if entry.is_fresh(now, self._hard_ttl):", "C16-5"),
    ("is-valid-inclusive", ST, "        age = now - self.cached_at\n        return age < hard_ttl", "        age = now - self.cached_at\n        return age <= hard_ttl", "C16-5"),
    ("touch-restamps-entry", ST, "        if key in self._access_order:\n            self._access_order.remove(key)\n            self._access_order.append(key)\n", "        if key in self._access_order:\n            self._access_order.remove(key)\n            self._access_order.append(key)\n            self._cache[key].cached_at = self.now\n", "C16-5"),
    ("soft-above-hard-allowed", ST, "        if self._soft_ttl > self._hard_ttl:\n            raise ValueError(f\"soft_ttl ({soft_ttl}) must be <= hard_ttl ({hard_ttl})\")\n", "", "C16-5"),
]
REFACTORS = [
    ("cachedstore-victim-renamed", CS, ["                evict_key = self._eviction_policy.evict()\n                if evict_key is None:\n                    break\n                self._write_back_if_dirty(evict_key)\n                self._cache.pop(evict_key, None)\n                self._dirty_keys.discard(evict_key)"],
     ["                victim = self._eviction_policy.evict()\n                if victim is None:\n                    break\n                self._write_back_if_dirty(victim)\n                self._cache.pop(victim, None)\n                self._dirty_keys.discard(victim)"]),
    ("softttl-get-entry-renamed-in-coalesced-branch", ST, ["            entry = self._cache.get(key)\n            if entry is not None and entry.is_valid(self.now, self._hard_ttl):\n                return entry.value"],
     ["            refreshed = self._cache.get(key)\n            if refreshed is not None and refreshed.is_valid(self.now, self._hard_ttl):\n                return refreshed.value"]),
    ("fill-guard-order-swapped", CS, "        if value is not None and key not in self._cache and key not in self._inflight_writes:", "        if key not in self._inflight_writes and key not in self._cache and value is not None:"),
]
