"""C10 — rate limiters never over-admit and report time-until-available truthfully (structural clauses)."""

from __future__ import annotations

import ast

from ..astutil import calls_in, norm_stmt, path_of, unparse, walk_scope, walk_stmts
from ..cfg import own_exprs
from ..facts import Fact, FactFlow, atoms, enumerate_paths, implies
from ..report import Ctx
from .common import always_before, expand, guard, increment_of, ingredients_along, need, node_of, single_defs, stmts_matching

POL = "happysimulator/components/rate_limiter/policy.py"
RLE = "happysimulator/components/rate_limiter/rate_limited_entity.py"
IND = "happysimulator/components/rate_limiter/inductor.py"
DIST = "happysimulator/components/rate_limiter/distributed.py"

EXPLANATION = (
    "Over every class of rate_limiter/policy.py that implements try_acquire/time_until_available: the admitting statement is dominated "
    "by the policy's bound test and preceded by the refresh; every other write of the bucket level is min(capacity, …); adaptive rate "
    "writes are clamped to [min, max]; time_until_available returns zero only on paths that carry try_acquire's own admit predicate "
    "(after the same refresh) and otherwise a provably non-zero duration. RateLimitedEntity / Inductor: every path of the request and "
    "poll handlers forwards, queues or drops exactly once with matching counters, direct forwarding requires an empty buffer (arrival "
    "order), one outstanding poll. DistributedRateLimiter: no read-modify-write of the shared counter across suspensions."
)
RULE_TEXT = "Instances: per policy clause, per handler path family, per counter. Distinct by (rule, construct)."
NOT_DECIDED = ["the interval bounds themselves (capacity + rate × length, 2N per window-length interval): numeric",
               "alignment of window starts in real time", "that repeated waiting reaches an admitting instant within a few steps (needs arithmetic on durations)"]
ASSUMPTIONS = ["Duration/Instant arithmetic is exact on nanoseconds (C01-2)", "refill rates and window sizes are positive"]

REFRESH = ("_refill", "_prune", "_maybe_reset")


def _policies(prog):
    out = []
    for c in prog.module(POL).classes.values():
        if "try_acquire" in c.methods and "time_until_available" in c.methods and not any(b.split(".")[-1] == "Protocol" for b in c.base_names):
            out.append(c)
    return out


def _admit_test(ta) -> ast.AST | None:
    """The test of the `if` whose body returns True in try_acquire (last such)."""
    cands = [s for s in walk_stmts(ta.node.body) if isinstance(s, ast.If) and any(isinstance(b, ast.Return) and isinstance(b.value, ast.Constant) and b.value.value is True for b in s.body)]
    return cands[-1].test if cands else None


def rule_policies(ctx: Ctx) -> None:
    prog = ctx.prog
    pols = _policies(prog)
    need(len(pols) >= 5, f"C10: only {len(pols)} rate-limiter policies found (5 confirmed by hand)")
    for c in pols:
        ta = c.methods["try_acquire"]
        tu = c.methods["time_until_available"]
        nowp = [p for p in ta.params() if p != "self"][0]
        # ---- C10-1: admitting statement under the bound test
        takes = []
        for pat, req in (("self._tokens -= _K_", "self._tokens >= _K_"),
                         ("self._request_log.append(_T_)", "len(self._request_log) < self._max_requests"),
                         ("self._current_window_count += 1", "self._current_window_count < self._requests_per_window")):
            if stmts_matching(ta, pat):
                guard(ctx, "C10-1", ta, pat, req, f"{c.name}: a request is admitted only under the policy's bound test")
                takes.append(pat)
        if c.name == "LeakyBucketPolicy":
            ff = ctx.flow(ta)
            bad = []
            for st, _ in stmts_matching(ta, f"self._last_leak_time = {nowp}"):
                n = node_of(ff.cfg, st)
                okst = ff.holds_at(n, Fact("is", "self._last_leak_time", "None")) or ff.holds_at(n, Fact("le", "self._leak_interval", "elapsed"))
                if not okst:
                    # the two admitting cases written as one `if A or B:` around the store: every disjunct is one of them
                    encl = [i_ for i_ in walk_stmts(ta.node.body) if isinstance(i_, ast.If) and any(st is y for y in i_.body)]
                    if encl and isinstance(encl[-1].test, ast.BoolOp) and isinstance(encl[-1].test.op, ast.Or):
                        sd_ta = single_defs(ta)
                        okst = all({f_.sig for f_ in atoms(expand(d_, sd_ta), True)} in ({("is", "self._last_leak_time", "None")}, {("le", "self._leak_interval", f"({nowp} - self._last_leak_time).to_seconds()")})
                                   for d_ in encl[-1].test.values)
                if not okst:
                    bad.append(norm_stmt(st))
                takes.append(st)
            el = stmts_matching(ta, "elapsed = _E_")
            okel = (len(el) == 1 and unparse(el[0][1]["_E_"]).replace(" ", "") == f"({nowp}-self._last_leak_time).to_seconds()") or \
                   (not el and f"({nowp}-self._last_leak_time).to_seconds()" in unparse(ta.node).replace(" ", ""))
            ctx.ob("C10-1", "G1", ta, "leak admitted only after a full interval", not bad and okel,
                   "LeakyBucketPolicy admits (and restarts the interval) only on first use or when elapsed >= leak interval, elapsed measured from the last admission")
        need(takes, f"C10-1: no admitting statement recognised in {c.name}.try_acquire")
        # every return True is accompanied by a take
        ff = ctx.flow(ta)
        bad = []
        for p in enumerate_paths(ff, ff.cfg.entry):
            if p.end != "exit":
                continue
            r = [n.ast for n in p.nodes if n.kind == "stmt" and isinstance(n.ast, ast.Return)]
            admitted = bool(r) and isinstance(r[-1].value, ast.Constant) and r[-1].value.value is True
            took = sum(1 for n in p.nodes if n.kind == "stmt" and (increment_of(n.ast, "self._tokens") not in (None,) or increment_of(n.ast, "self._current_window_count") == 1
                                                                    or (isinstance(n.ast, ast.Expr) and isinstance(n.ast.value, ast.Call) and path_of(n.ast.value.func) == "self._request_log.append")
                                                                    or (isinstance(n.ast, ast.Assign) and path_of(n.ast.targets[0]) == "self._last_leak_time")))
            if admitted and took != 1:
                bad.append(f"path [{p.describe()}] admits but consumes {took}x")
            if not admitted and took and c.name != "LeakyBucketPolicy":
                bad.append(f"path [{p.describe()}] denies but consumes")
        ctx.ob("C10-1", "G2", ta, "admit ⇔ consume once", not bad, f"{c.name}.try_acquire consumes exactly one unit on exactly the admitting paths" + ("" if not bad else ": " + "; ".join(bad[:2])))
        # ---- refresh precedes the test in both public methods
        refresh = [m for m in REFRESH if m in c.methods]
        for fn in (ta, tu):
            if not refresh:
                continue
            ffn = ctx.flow(fn)
            tests = [n for n in ffn.cfg.nodes if n.kind == "test"]
            bad_nodes = always_before(ctx, fn, lambda n: any(isinstance(x, ast.Call) and path_of(x.func) == f"self.{refresh[0]}" for e in own_exprs(n) for x in walk_scope(e)),
                                      lambda n: n.kind == "test")
            rc = [x for x in calls_in(fn.node) if path_of(x.func) == f"self.{refresh[0]}"]
            okarg = len(rc) == 1 and [path_of(a) for a in rc[0].args] == [[p for p in fn.params() if p != "self"][0]]
            ctx.ob("C10-1", "G2", fn, f"self.{refresh[0]}(now) first", not bad_nodes and okarg and bool(tests),
                   f"{c.name}.{fn.name} refreshes its state for the queried instant before testing it")
        # ---- level writes are bounded
        if "_tokens" in {a for m in c.methods.values() for a in ctx.effects.direct(m).writes}:
            for m in c.methods.values():
                if m.name == "__init__":
                    continue
                for st in walk_stmts(m.node.body):
                    if isinstance(st, ast.Assign) and path_of(st.targets[0]) == "self._tokens":
                        v = st.value
                        ok = isinstance(v, ast.Call) and path_of(v.func) == "min" and len(v.args) == 2
                        capok = False
                        if ok:
                            cap = v.args[0] if "self._tokens" in unparse(v.args[1]) else v.args[1]
                            capn = path_of(cap)
                            if capn == "self._capacity":
                                capok = True
                            elif capn:
                                src = [s2.value for s2 in walk_stmts(m.node.body) if isinstance(s2, ast.Assign) and path_of(s2.targets[0]) == capn]
                                capok = len(src) == 1 and "self._current_rate * self._window_size" in unparse(src[0])
                        ctx.ob("C10-1", "G6", m, st, ok and capok, f"{c.name}: the bucket level is only ever refilled as min(<capacity>, level + elapsed × rate)")
            # ... and the clamp is unconditional: whenever a refill advances its timestamp (other than initialising it), the
            # clamped write has happened on that path (it is also what pulls the level down after the adaptive rate shrinks)
            for m in c.methods.values():
                stamps = [st for st in walk_stmts(m.node.body) if isinstance(st, ast.Assign) and path_of(st.targets[0]) == "self._last_refill_time" and m.name != "__init__"]
                if not stamps:
                    continue
                fm = ctx.flow(m)
                clamp = [st for st in walk_stmts(m.node.body) if isinstance(st, ast.Assign) and path_of(st.targets[0]) == "self._tokens" and isinstance(st.value, ast.Call) and path_of(st.value.func) == "min"]
                for st in stamps:
                    sn = node_of(fm.cfg, st)
                    if ("is", "self._last_refill_time", "None") in {f[:3] for f in fm.facts_at(sn)}:
                        continue
                    unclamped = always_before(ctx, m, lambda x: any(x.ast is cst for cst in clamp), lambda x: x is sn)
                    ctx.ob("C10-1", "G6", m, st, bool(clamp) and not unclamped, f"{c.name}.{m.name}: every refill that advances the refill time has clamped the level to the (current) capacity on the same path")
        if c.name == "AdaptivePolicy":
            for m in c.methods.values():
                if m.name == "__init__":
                    continue
                for st in walk_stmts(m.node.body):
                    if isinstance(st, (ast.Assign, ast.AugAssign)) and path_of(st.targets[0] if isinstance(st, ast.Assign) else st.target) == "self._current_rate":
                        v = st.value
                        ok = isinstance(v, ast.Call) and ((path_of(v.func) == "min" and any(path_of(a) == "self._max_rate" for a in v.args))
                                                          or (path_of(v.func) == "max" and any(path_of(a) == "self._min_rate" for a in v.args)))
                        ctx.ob("C10-1", "G6", m, st, ok, "AdaptivePolicy: the current rate is only written clamped to [min_rate, max_rate]")
        # ---- C10-2: time_until_available return discipline
        admit = _admit_test(ta)
        admit_facts = [f for f in atoms(admit, True)] if admit is not None else []
        admit_alts = [admit_facts]
        if admit is not None and isinstance(admit, ast.BoolOp) and isinstance(admit.op, ast.Or):
            # `A or B`: the predicate holds when the atoms of one disjunct hold; the disjuncts are compared in the vocabulary of
            # time_until_available (an expression that function binds to a local is replaced by that local)
            sd_ta, sd_tu = single_defs(ta), single_defs(tu)
            back = {unparse(v_).replace(" ", ""): k_ for k_, v_ in sd_tu.items() if isinstance(v_, ast.AST)}

            def contract(e_):
                class C_(ast.NodeTransformer):
                    def visit(self, n_):
                        if isinstance(n_, ast.expr) and unparse(n_).replace(" ", "") in back:
                            return ast.Name(id=back[unparse(n_).replace(" ", "")], ctx=ast.Load())
                        return super().visit(n_)
                import copy as _c
                return C_().visit(_c.deepcopy(e_))
            admit_alts = [[f for f in atoms(contract(expand(d_, sd_ta)), True)] for d_ in admit.values]
            admit_facts = admit_alts[0] if len(admit_alts) == 1 else admit_facts
        # post-condition of the refresh: attributes it leaves non-None
        nonnull = set()
        if refresh:
            rf = c.methods[refresh[0]]
            rff = ctx.flow(rf)
            for attr in {path_of(t) for s in walk_stmts(rf.node.body) if isinstance(s, ast.Assign) for t in s.targets if (path_of(t) or "").startswith("self.")}:
                ok_all = True
                for p in enumerate_paths(rff, rff.cfg.entry):
                    if p.end != "exit":
                        continue
                    assigned = [n.ast for n in p.nodes if n.kind == "stmt" and isinstance(n.ast, ast.Assign) and path_of(n.ast.targets[0]) == attr]
                    if assigned:
                        v = assigned[-1].value
                        if isinstance(v, ast.Constant) and v.value is None:
                            ok_all = False
                    elif not p.has_fact(("isnot", attr, "None")):
                        ok_all = False
                if ok_all:
                    nonnull.add(attr)
        tff = ctx.flow(tu)
        bad = []
        nz = z = 0
        for p in enumerate_paths(tff, tff.cfg.entry):
            if p.end != "exit":
                continue
            r = [n for n in p.nodes if n.kind == "stmt" and isinstance(n.ast, ast.Return)][-1]
            v = r.ast.value
            is_zero = path_of(v) == "Duration.ZERO"
            # paths that take `<attr> is None` although the refresh guarantees non-None are infeasible
            infeasible = False
            for n_, lab in zip(p.nodes, p.labels):
                if n_.kind == "test" and lab is not None:
                    for f in atoms(n_.ast, lab[1]):
                        if f.op == "is" and f.b == "None" and f.a in nonnull and refresh:
                            infeasible = True
            if infeasible:
                continue
            have = {f for f in _path_facts_at(p, r)}
            if is_zero:
                z += 1
                first_use = any(f[0] == "is" and f[2] == "None" for f in have)
                if not any(all(implies(have, f) for f in alt) for alt in admit_alts) and not (first_use and _first_use_admits(ta)):
                    bad.append(f"returns ZERO on path [{p.describe()}] without the admit predicate `{unparse(admit)}` holding — an immediate acquire can fail")
            else:
                nz += 1
                ok = False
                if isinstance(v, ast.Call) and path_of(v.func) == "Duration" and len(v.args) == 1 and isinstance(v.args[0], ast.Constant) and v.args[0].value > 0:
                    ok = True
                else:
                    vt = unparse(v)
                    if implies(have, Fact("ne", *sorted((vt, "Duration.ZERO")))) or implies(have, Fact("lt", "Duration.ZERO", vt)):
                        ok = True
                if not ok:
                    bad.append(f"returns `{unparse(v)}` on path [{p.describe()}] which is not provably non-zero — a drain can spin at one instant")
                if any(alt and all(implies(have, f) for f in alt) for alt in admit_alts):
                    bad.append(f"returns a wait on path [{p.describe()}] although the admit predicate holds")
        need(z and nz, f"C10-2: {c.name}.time_until_available lacks zero/non-zero returns ({z}/{nz})")
        ctx.ob("C10-2", "G4", tu, "zero ⇔ would admit; otherwise non-zero", not bad,
               f"{c.name}.time_until_available: zero only where try_acquire would admit (predicate `{unparse(admit)}`), any other return provably non-zero — "
               + ("ok" if not bad else "; ".join(bad[:2])))
    ctx.floor("C10-1", 20)
    ctx.floor("C10-2", 5)


def _path_facts_at(p, node) -> set[tuple]:
    """Branch facts accumulated along the path up to ``node`` (path-local, no kills needed: policies are straight-line between tests)."""
    from ..astutil import subst
    from ..facts import _is_pure_expr

    have = set()
    defs: dict[str, ast.AST] = {}
    for n_, lab in zip(p.nodes, p.labels):
        if n_ is node:
            break
        if n_.kind == "stmt" and isinstance(n_.ast, ast.Assign) and isinstance(n_.ast.targets[0], ast.Name):
            nm = n_.ast.targets[0].id
            if _is_pure_expr(n_.ast.value) and isinstance(n_.ast.value, ast.BinOp):
                defs[nm] = subst(n_.ast.value, defs)
            else:
                defs.pop(nm, None)
        if n_.kind == "test" and lab is not None:
            for f in atoms(n_.ast, lab[1]):
                have.add(f.sig)
            if defs:
                for f in atoms(subst(n_.ast, defs), lab[1]):
                    have.add(f.sig)
    return have


def _first_use_admits(ta) -> bool:
    """try_acquire returns True on its `is None` first-use branch."""
    for s in walk_stmts(ta.node.body):
        if isinstance(s, ast.If) and any(f.op == "is" and f.b == "None" for f in atoms(s.test, True)):
            if any(isinstance(b, ast.Return) and isinstance(b.value, ast.Constant) and b.value.value is True for b in s.body):
                return True
    return False


def _count_calls(p, pred) -> int:
    return sum(1 for n in p.nodes for e in own_exprs(n) for c in walk_scope(e) if isinstance(c, ast.Call) and pred(c))


def rule_entities(ctx: Ctx) -> None:
    prog = ctx.prog
    for rel, cname, req_q, admit_call in ((RLE, "RateLimitedEntity", "_handle_request", "self._policy.try_acquire"), (IND, "Inductor", "_handle_arrival", "self._can_forward")):
        hr = prog.func(rel, f"{cname}.{req_q}")
        evp = [p for p in hr.params() if p != "self"][0]
        ff = ctx.flow(hr)
        bad = []
        order_bad = []
        kinds = {"forward": 0, "forward-oldest": 0, "queue": 0, "drop": 0}
        for p in enumerate_paths(ff, ff.cfg.entry):
            if p.end != "exit":
                continue
            def inc(attr):
                tot = 0
                for n in p.nodes:
                    if n.kind == "stmt":
                        k = increment_of(n.ast, f"self.{attr}")
                        if k is not None:
                            tot += 99 if k == "other" else k
                return tot
            fwd_calls = [c for n in p.nodes for e in own_exprs(n) for c in walk_scope(e) if isinstance(c, ast.Call) and path_of(c.func) == "self._forward"]
            pushes = [c for n in p.nodes for e in own_exprs(n) for c in walk_scope(e) if isinstance(c, ast.Call) and path_of(c.func) == "self._queue.push"]
            pops = _count_calls(p, lambda c: path_of(c.func) == "self._queue.pop")
            push_ok = p.decided(lambda t: t.startswith("self._queue.push("))
            rec, q, d = inc("_received"), inc("_queued"), inc("_dropped")
            _, rets = ingredients_along(p.nodes)
            ret_ing = rets[-1][1] if rets else set()
            desc = p.describe()
            if rec != 1:
                bad.append(f"[{desc}] counts the request {rec}x as received")
            if fwd_calls:
                arg0 = path_of(fwd_calls[0].args[0]) if fwd_calls[0].args else None
                if len(fwd_calls) != 1 or not any("_forward" in i for i in ret_ing):
                    bad.append(f"[{desc}] forwards {len(fwd_calls)}x / result not returned")
                if arg0 == evp:
                    kinds["forward"] += 1
                    if pushes or pops or q or d:
                        bad.append(f"[{desc}] forwards the arrival and also queues/drops it")
                    # arrival order: direct forwarding only with an empty buffer
                    empty = p.decided(lambda t: t == "self._queue.is_empty()")
                    if empty is not True:
                        order_bad.append(f"[{desc}] forwards the arriving request directly without the buffer being known empty")
                else:
                    kinds["forward-oldest"] += 1
                    if pops != 1 or len(pushes) != 1 or [path_of(a) for a in pushes[0].args] != [evp] or q != 1 or d:
                        bad.append(f"[{desc}] forwards a buffered request: pop x{pops}, push x{len(pushes)}, queued += {q}, dropped += {d} (want 1/1/1/0)")
                    else:
                        # the unchecked push cannot be refused only because the pop has just freed a slot of the same buffer
                        order = [("pop" if path_of(c.func) == "self._queue.pop" else "push") for n in p.nodes for e in own_exprs(n) for c in walk_scope(e)
                                 if isinstance(c, ast.Call) and path_of(c.func) in ("self._queue.pop", "self._queue.push")]
                        if order != ["pop", "push"] and push_ok is not True:
                            bad.append(f"[{desc}] buffers the arrival with an unchecked push *before* popping the oldest request: a full buffer refuses it and the request is lost")
            elif pushes and push_ok is True:
                kinds["queue"] += 1
                if q != 1 or d or len(pushes) != 1:
                    bad.append(f"[{desc}] queues: queued += {q}, dropped += {d}")
                if not any("_ensure_poll_scheduled" in i for i in ret_ing):
                    bad.append(f"[{desc}] queues a request without making sure a drain poll is scheduled")
            else:
                kinds["drop"] += 1
                if d != 1 or q:
                    bad.append(f"[{desc}] neither forwards nor queues: dropped += {d}, queued += {q} (want 1/0)")
        need(kinds["forward"] and kinds["queue"] and kinds["drop"], f"C10-3: {cname}.{req_q} lacks a path kind {kinds}")
        ctx.ob("C10-3", "G2", hr, "forward | queue | drop exactly once", not bad, f"{cname}: every request is forwarded, queued or dropped exactly once with matching counters ({kinds}) — "
               + ("ok" if not bad else "; ".join(bad[:2])))
        ctx.ob("C10-4", "G1", hr, "direct forward ⇒ buffer empty", not order_bad,
               f"{cname}: requests leave in arrival order — an arriving request is forwarded directly only when nothing is buffered" + ("" if not order_bad else ": " + order_bad[0]))
        # poll handler
        hp = prog.func(rel, f"{cname}._handle_poll")
        pff = ctx.flow(hp)
        bad = []
        for p in enumerate_paths(pff, pff.cfg.entry):
            if p.end != "exit":
                continue
            pops = _count_calls(p, lambda c: path_of(c.func) == "self._queue.pop")
            fwd = [c for n in p.nodes for e in own_exprs(n) for c in walk_scope(e) if isinstance(c, ast.Call) and path_of(c.func) == "self._forward"]
            cleared = [n for n in p.nodes if n.kind == "stmt" and isinstance(n.ast, ast.Assign) and path_of(n.ast.targets[0]) == "self._poll_scheduled" and isinstance(n.ast.value, ast.Constant) and n.ast.value.value is False]
            admitted = p.decided(lambda t: t.startswith(admit_call + "("))
            _, rets = ingredients_along(p.nodes)
            ing = rets[-1][1] if rets else set()
            if len(cleared) != 1:
                bad.append(f"[{p.describe()}] poll flag cleared {len(cleared)}x")
            if admitted is True:
                popped = [n.ast.targets[0].id for n in p.nodes if n.kind == "stmt" and isinstance(n.ast, ast.Assign) and isinstance(n.ast.value, ast.Call) and path_of(n.ast.value.func) == "self._queue.pop"
                          and isinstance(n.ast.targets[0], ast.Name)]
                if pops != 1 or len(fwd) != 1 or not popped or path_of(fwd[0].args[0]) != popped[0] or not any("_forward" in i for i in ing):
                    bad.append(f"[{p.describe()}] admitted poll must pop one request and forward exactly it")
                if p.decided(lambda t: t == "self._queue.is_empty()") is False and not any("_ensure_poll_scheduled" in i for i in ing) and _count_calls(p, lambda c: path_of(c.func) == "self._ensure_poll_scheduled") == 0:
                    bad.append(f"[{p.describe()}] leaves buffered requests without a scheduled poll")
            elif admitted is False:
                if pops or fwd or not any("_ensure_poll_scheduled" in i for i in ing):
                    bad.append(f"[{p.describe()}] denied poll must only reschedule")
        ctx.ob("C10-3", "G2", hp, "poll drains one or reschedules", not bad, f"{cname}._handle_poll forwards exactly the request it pops, or reschedules; the poll flag is cleared once" + ("" if not bad else ": " + "; ".join(bad[:2])))
        # single outstanding poll + poll event type agreement
        ep = prog.func(rel, f"{cname}._ensure_poll_scheduled")
        guard(ctx, "C10-3", ep, "self._poll_scheduled = True", "not self._poll_scheduled", f"{cname}: at most one outstanding drain poll")
        he = prog.func(rel, f"{cname}.handle_event")
        disp = [s for s in walk_stmts(he.node.body) if isinstance(s, ast.If)]
        made = [k.value for c in calls_in(ep.node) if path_of(c.func) == "Event" for k in c.keywords if k.arg == "event_type"]
        tgt = [k.value for c in calls_in(ep.node) if path_of(c.func) == "Event" for k in c.keywords if k.arg == "target"]
        ok = bool(disp) and len(made) == 1 and isinstance(disp[0].test, ast.Compare) and unparse(disp[0].test.comparators[0]) == unparse(made[0]) and path_of(tgt[0]) == "self"
        ctx.ob("C10-3", "G8", ep, "poll event type handled", ok, f"{cname}: the poll event it schedules to itself is exactly the type its handle_event dispatches to _handle_poll")
        fw = prog.func(rel, f"{cname}._forward")
        mk = [c for c in calls_in(fw.node) if path_of(c.func) == "Event"]
        kw = {k.arg: unparse(k.value) for k in mk[0].keywords} if len(mk) == 1 else {}
        nowp = fw.params()[2]
        ok = len(mk) == 1 and kw.get("target") == "self._downstream" and kw.get("time") == nowp and increment_of(
            [s for s in walk_stmts(fw.node.body) if increment_of(s, "self._forwarded") is not None][0], "self._forwarded") == 1
        ctx.ob("C10-3", "G2", fw, mk[0] if mk else None, ok, f"{cname}._forward emits one event to the downstream at the given instant and counts it once")
    # RateLimitedEntity poll time = now + time_until_available(now)
    ep = prog.func(RLE, "RateLimitedEntity._ensure_poll_scheduled")
    w = stmts_matching(ep, "wait = self._policy.time_until_available(_N_)")
    pt = stmts_matching(ep, "poll_time = _N_ + wait")
    ok = len(w) == 1 and len(pt) == 1 and any(k.arg == "time" and path_of(k.value) == "poll_time" for c in calls_in(ep.node) if path_of(c.func) == "Event" for k in c.keywords)
    ctx.ob("C10-3", "G7", ep, "poll at now + time_until_available(now)", ok, "the drain poll is scheduled exactly the policy's reported wait ahead (progress relies on C10-2: non-zero on deny)")
    ctx.floor("C10-3", 10)
    ctx.floor("C10-4", 2)


def rule_distributed(ctx: Ctx) -> None:
    """C10-5: no read-modify-write of a shared store counter across suspensions."""
    prog = ctx.prog
    fn = prog.func(DIST, "DistributedRateLimiter.check_and_increment")
    # values obtained from the backing store (through the driven generator's StopIteration value or `yield from`)
    tainted: set[str] = set()
    gens = {path_of(s.targets[0]) for s in walk_stmts(fn.node.body) if isinstance(s, ast.Assign) and isinstance(s.value, ast.Call) and (path_of(s.value.func) or "").endswith("_backing_store.get")}
    for st in walk_stmts(fn.node.body):
        if isinstance(st, ast.Try):
            drives = any(isinstance(c, ast.Call) and path_of(c.func) == "next" and c.args and path_of(c.args[0]) in gens for c in calls_in(st))
            for h in st.handlers:
                if drives and h.name:
                    for s2 in walk_stmts(h.body):
                        if isinstance(s2, ast.Assign) and h.name in {x.id for x in ast.walk(s2.value) if isinstance(x, ast.Name)}:
                            tainted.add(path_of(s2.targets[0]))
        if isinstance(st, ast.Assign) and isinstance(st.value, ast.YieldFrom) and isinstance(st.value.value, ast.Call) and (path_of(st.value.value.func) or "").endswith("_backing_store.get"):
            tainted.add(path_of(st.targets[0]))
    changed = True
    while changed:
        changed = False
        for st in walk_stmts(fn.node.body):
            if isinstance(st, ast.Assign) and isinstance(st.targets[0], ast.Name) and st.targets[0].id not in tainted:
                if any(isinstance(x, ast.Name) and x.id in tainted for x in ast.walk(st.value)):
                    tainted.add(st.targets[0].id)
                    changed = True
    need(tainted, "C10-5: no value read from the backing store found in check_and_increment")
    puts = [c for c in calls_in(fn.node) if (path_of(c.func) or "").endswith("_backing_store.put")]
    need(puts, "C10-5: no backing-store write in check_and_increment")
    for c in puts:
        dep = any(isinstance(x, ast.Name) and x.id in tainted for a in c.args[1:] for x in ast.walk(a))
        ctx.ob("C10-5", "G5", fn, c, not dep,
               "the shared counter is updated by read → suspend → write(read + 1): two limiter instances interleaving at the store both write the same value "
               "(lost update), so the global limit is over-admitted" if dep else "the store write does not depend on a value read before a suspension")
    ctx.floor("C10-5", 1)


def rule_hunted(ctx: Ctx) -> None:
    """Rules distilled from hunted defects.
    C10-1: a bucket whose capacity depends on a rate that can shrink (AdaptivePolicy) clamps its level on *every* path through `_refill` —
    also when no time has passed (a rate cut followed by a burst at the same instant).
    C10-1: window alignment uses the integer nanosecond clock; floor division of float seconds puts boundary instants (0.3 // 0.1 == 2.0)
    into the window that has just ended.
    C10-2: a drain poll an entity schedules for itself lies at least one nanosecond ahead (a positive sub-nanosecond wait truncates to
    zero and the poll would spin at the current instant)."""
    prog = ctx.prog
    ap = prog.func(POL, "AdaptivePolicy._refill")
    af = ctx.flow(ap)
    clamps = [n_ for n_ in af.cfg.nodes if n_.kind == "stmt" and isinstance(n_.ast, ast.Assign) and path_of(n_.ast.targets[0]) == "self._tokens"
              and isinstance(n_.ast.value, ast.Call) and path_of(n_.ast.value.func) == "min" and any("max_tokens" in unparse(a_) for a_ in n_.ast.value.args)]
    bad = [p_.describe()[:80] for p_ in enumerate_paths(af, af.cfg.entry) if p_.end == "exit" and not any(any(nd is c_ for c_ in clamps) for nd in p_.nodes)]
    ctx.ob("C10-1", "G6", ap, clamps[0].ast if clamps else None, bool(clamps) and not bad, "AdaptivePolicy._refill clamps the level to the current rate's capacity on every path, including the first call and the "
           "zero-elapsed one (the rate may have been cut since the last refill)" + ("" if not bad else " — unclamped path: " + bad[0]))
    n_w = 0
    for fn in prog.all_functions("happysimulator/components/rate_limiter/"):
        for x in walk_scope(fn.node, include_root=False):
            if isinstance(x, ast.BinOp) and isinstance(x.op, (ast.FloorDiv, ast.Mod)) and ("window" in unparse(x.right).lower() or "window" in fn.name.lower()):
                n_w += 1
                floaty = any(isinstance(y, ast.Call) and isinstance(y.func, ast.Attribute) and y.func.attr in ("to_seconds", "total_seconds") for y in ast.walk(x.left)) \
                    or (isinstance(x.right, ast.Attribute) and x.right.attr in ("_window_size", "window_size"))
                ctx.ob("C10-1", "G7", fn, x, not floaty, f"{fn.qual}: window alignment `{unparse(x)[:60]}` is computed on integer nanoseconds, not by floor-dividing float seconds")
    need(n_w >= 2, f"C10-1: expected >= 2 window-alignment computations (FixedWindowPolicy, DistributedRateLimiter), found {n_w}")
    n_p = 0
    for rel, q in ((RLE, "RateLimitedEntity._ensure_poll_scheduled"), (IND, "Inductor._ensure_poll_scheduled")):
        fn = prog.func(rel, q)
        evs = [c for c in calls_in(fn.node) if path_of(c.func) == "Event"]
        floors = [t_ for t_ in walk_stmts(fn.node.body) if isinstance(t_, ast.If) and len(atoms(t_.test, True)) == 1 and atoms(t_.test, True)[0].sig[0] == "le" and atoms(t_.test, True)[0].sig[2] in ("Duration.ZERO", "0")
                  and any(isinstance(b_, ast.Assign) and path_of(b_.targets[0]) == atoms(t_.test, True)[0].sig[1] and unparse(b_.value).replace(" ", "") in ("Duration(1)", "Duration(nanoseconds=1)") for b_ in t_.body)]
        # a wait taken from `policy.time_until_available()` is floored by the policy (zero there means "an acquire succeeds now"): only a wait
        # this function converts from float seconds itself needs its own floor
        if not any(path_of(k.func) == "Duration.from_seconds" for k in calls_in(fn.node)):
            continue
        n_p += 1
        ok = len(evs) == 1 and len(floors) == 1
        if ok:
            w = atoms(floors[0].test, True)[0].sig[1]
            tkw = [k.value for k in evs[0].keywords if k.arg == "time"]
            ttxt = unparse(expand(tkw[0], single_defs(fn))) if tkw else ""
            ok = w in ttxt and not always_before(ctx, fn, lambda x: x.ast is floors[0] or (x.kind == "test" and any(y is x.ast for y in ast.walk(floors[0].test))), lambda x: x is node_of(ctx.flow(fn).cfg, evs[0]))
        ctx.ob("C10-2", "G5", fn, evs[0] if evs else None, ok, f"{q}: the wait added to `now` for the self-scheduled poll is floored at one nanosecond before the event is built")
    need(n_p >= 1, "C10-2: no self-scheduled poll with a locally converted wait found (Inductor expected)")


def run(ctx: Ctx) -> None:
    ctx.guarded(rule_hunted)
    ctx.guarded(rule_policies)
    ctx.guarded(rule_entities)
    ctx.guarded(rule_distributed)


MUTANTS = [
    ("adaptive-zero-elapsed-unclamped", POL, "            # No time has passed, but the rate may have been decreased since\n            # the last refill: the balance must still respect the current cap.\n            self._tokens = min(max_tokens, self._tokens)\n", "", "C10-1"),
    ("distributed-window-float-floor", DIST, "        return now.nanoseconds // self._window_ns", "        return int(now.to_seconds() // self._window_size)", "C10-1"),
    ("inductor-poll-unfloored", IND, "        if wait <= Duration.ZERO:\n            wait = Duration(1)\n", "", "C10-2"),
    ("adaptive-clamp-only-when-below-cap", POL, "        self._tokens = min(max_tokens, self._tokens + elapsed * self._current_rate)\n", "        if self._tokens < max_tokens:\n            self._tokens = min(max_tokens, self._tokens + elapsed * self._current_rate)\n", "C10-1"),
    ("rle-unchecked-push-before-pop", RLE, "            oldest = self._queue.pop()\n            if oldest is None:\n                raise RuntimeError(\"Queue reported non-empty but pop() returned None\")\n            self._queue.push(event)\n            self._queued += 1\n            return self._forward(oldest, now)",
     "            self._queue.push(event)\n            self._queued += 1\n            oldest = self._queue.pop()\n            if oldest is None:\n                raise RuntimeError(\"Queue reported non-empty but pop() returned None\")\n            return self._forward(oldest, now)", "C10-3"),
    ("token-bucket-admits-fraction", POL, "    def try_acquire(self, now: Instant) -> bool:\n        self._refill(now)\n        if self._tokens >= 1.0:\n            self._tokens -= 1.0\n            return True\n        return False\n\n    def time_until_available(self, now: Instant) -> Duration:\n        self._refill(now)\n        if self._tokens >= 1.0:\n            return Duration.ZERO\n        deficit = 1.0 - self._tokens\n        wait = Duration.from_seconds(deficit / self._refill_rate)",
     "    def try_acquire(self, now: Instant) -> bool:\n        self._refill(now)\n        if self._tokens > 0.0:\n            self._tokens -= 1.0\n            return True\n        return False\n\n    def time_until_available(self, now: Instant) -> Duration:\n        self._refill(now)\n        if self._tokens >= 1.0:\n            return Duration.ZERO\n        deficit = 1.0 - self._tokens\n        wait = Duration.from_seconds(deficit / self._refill_rate)", "C10-1"),
    ("token-bucket-refill-unbounded", POL, "        self._tokens = min(self._capacity, self._tokens + elapsed * self._refill_rate)", "        self._tokens = self._tokens + elapsed * self._refill_rate", "C10-1"),
    ("sliding-window-off-by-one", POL, "        if len(self._request_log) < self._max_requests:\n            self._request_log.append(now)", "        if len(self._request_log) <= self._max_requests:\n            self._request_log.append(now)", "C10-1"),
    ("sliding-window-no-prune-in-acquire", POL, "        self._prune(now)\n        if len(self._request_log) < self._max_requests:\n            self._request_log.append(now)", "        if len(self._request_log) < self._max_requests:\n            self._request_log.append(now)", "C10-1"),
    ("fixed-window-count-not-incremented", POL, "            self._current_window_count += 1\n            return True", "            return True", "C10-1"),
    ("leaky-bucket-half-interval", POL, "        if elapsed >= self._leak_interval:\n            self._last_leak_time = now", "        if elapsed >= self._leak_interval / 2:\n            self._last_leak_time = now", "C10-2"),
    ("adaptive-rate-unclamped-up", POL, "        self._current_rate = min(self._max_rate, self._current_rate + self._increase_step)", "        self._current_rate = self._current_rate + self._increase_step", "C10-1"),
    ("adaptive-rate-unclamped-down", POL, "        self._current_rate = max(self._min_rate, self._current_rate * self._decrease_factor)", "        self._current_rate = self._current_rate * self._decrease_factor", "C10-1"),
    ("fixed-window-zero-when-full", POL, "        if wait <= Duration.ZERO:\n            return Duration(1)\n        return wait", "        if wait <= Duration.ZERO:\n            return Duration.ZERO\n        return wait", "C10-2"),
    ("sliding-window-guard-dropped", POL, "        # Guard: if FP truncation yields zero but window is full, ensure progress\n        if wait == Duration.ZERO:\n            return Duration(1)\n        return wait", "        return wait", "C10-2"),
    ("token-bucket-zero-at-half-token", POL, "        self._refill(now)\n        if self._tokens >= 1.0:\n            return Duration.ZERO\n        deficit = 1.0 - self._tokens\n        wait = Duration.from_seconds(deficit / self._refill_rate)",
     "        self._refill(now)\n        if self._tokens >= 0.5:\n            return Duration.ZERO\n        deficit = 1.0 - self._tokens\n        wait = Duration.from_seconds(deficit / self._refill_rate)", "C10-2"),
    ("rle-direct-forward-with-backlog", RLE, "            if self._queue.is_empty():\n                return self._forward(event, now)\n", "            if True:\n                return self._forward(event, now)\n", "C10-4"),
    ("inductor-direct-forward-with-backlog", IND, "            if self._queue.is_empty():\n                return self._forward(event, now)\n", "            if len(self._queue) <= 1:\n                return self._forward(event, now)\n", "C10-4"),
    ("rle-queued-not-counted", RLE, "        if self._queue.push(event):\n            self._queued += 1\n", "        if self._queue.push(event):\n", "C10-3"),
    ("rle-drop-not-counted", RLE, "        self._dropped += 1\n        self.dropped_times.append(now)", "        self.dropped_times.append(now)", "C10-3"),
    ("rle-queue-without-poll", RLE, "                len(self._queue),\n            )\n            return self._ensure_poll_scheduled(now)", "                len(self._queue),\n            )\n            return []", "C10-3"),
    ("rle-poll-forwards-without-pop", RLE, "            queued_event = self._queue.pop()\n            if queued_event is None:\n                raise RuntimeError(\"Queue reported non-empty but pop() returned None\")\n            result = self._forward(queued_event, now)",
     "            queued_event = self._queue.peek()\n            if queued_event is None:\n                raise RuntimeError(\"Queue reported non-empty but pop() returned None\")\n            result = self._forward(queued_event, now)", "C10-3"),
    ("rle-poll-flag-never-cleared", RLE, "        now = event.time\n        self._poll_scheduled = False\n", "        now = event.time\n", "C10-3"),
    ("rle-poll-flag-not-set", RLE, "        self._poll_scheduled = True\n        wait = self._policy.time_until_available(now)", "        wait = self._policy.time_until_available(now)", "C10-3"),
    ("rle-poll-type-mismatch", RLE, "                event_type=f\"rate_limit_poll::{self.name}\",\n                target=self,", "                event_type=f\"rate_limit_poll:{self.name}\",\n                target=self,", "C10-3"),
    ("rle-forward-to-self", RLE, "            target=self._downstream,\n            context=event.context.copy(),", "            target=self,\n            context=event.context.copy(),", "C10-3"),
]
REFACTORS = [
    ("token-bucket-early-deny", POL, "    def try_acquire(self, now: Instant) -> bool:\n        self._refill(now)\n        if self._tokens >= 1.0:\n            self._tokens -= 1.0\n            return True\n        return False\n\n    def time_until_available(self, now: Instant) -> Duration:\n        self._refill(now)\n        if self._tokens >= 1.0:\n            return Duration.ZERO\n        deficit = 1.0 - self._tokens\n        wait = Duration.from_seconds(deficit / self._refill_rate)",
     "    def try_acquire(self, now: Instant) -> bool:\n        self._refill(now)\n        if self._tokens < 1.0:\n            return False\n        self._tokens -= 1.0\n        return True\n\n    def time_until_available(self, now: Instant) -> Duration:\n        self._refill(now)\n        if self._tokens >= 1.0:\n            return Duration.ZERO\n        deficit = 1.0 - self._tokens\n        wait = Duration.from_seconds(deficit / self._refill_rate)"),
    ("leaky-remaining-inline", POL, "        remaining = self._leak_interval - elapsed\n        if remaining <= 0:\n            return Duration.ZERO\n        wait = Duration.from_seconds(remaining)", "        if elapsed >= self._leak_interval:\n            return Duration.ZERO\n        wait = Duration.from_seconds(self._leak_interval - elapsed)"),
]
